import DAVerif.Proofs.OwnRun
/-!
# C19 — Evaluation never modifies the caller's tables and is repeatable

Property theorems only.  Model: `Heap/Own.lean` (frame-ownership model of `pandas_base.py`: every executor step as a
sequence of allocations and in-place writes on a heap of frame objects).  Lemmas: `Proofs/Own.lean`, `Proofs/OwnDet.lean`,
`Proofs/OwnRun.lean`.

Every theorem quantifies over: all pipelines `p` (with every value of the data-dependent hints they carry: row counts,
group counts, and `fail` = the step raises after any number of its writes), all heaps `s.heap` of caller frames with any
earlier log, all data maps, all set-iteration orders `ord`.

Stated limit (NOT proven here): that a write to a *new* DataFrame object cannot reach the data of the object it was made
from is runtime behaviour of pandas (copy-on-write) / Polars; the theorems are about the repository's own discipline
(which object every in-place write targets, which object every step returns).
-/
namespace DAVerif.Own

/-! ## Specification side (independent of the executor model: plain statements about a heap and an event list) -/

/-- the caller's frames are exactly as before: same objects at the same positions, same columns, rows, payload token -/
def CallerFramesUnchanged (before after : List Frame) : Prop :=
  after.take before.length = before

/-- every in-place write in `evs` is preceded, in `evs`, by the allocation of the frame it targets -/
def WritesOnlyAllocated (evs : List Ev) : Prop :=
  ∀ pre post k id c, evs = pre ++ Ev.write k id c :: post → ∃ w, Ev.alloc id w ∈ pre

/-- no event of `evs` writes to, or returns, one of the first `n` frames -/
def NeverTouches (n : Nat) (evs : List Ev) : Prop :=
  (∀ k id c, Ev.write k id c ∈ evs → n ≤ id) ∧ (∀ id f, Ev.ret id f ∈ evs → n ≤ id)

/-- what the property asks of one public entry point `run` (a state transformer returning a frame or raising) -/
def OwnershipSafe (run : St → Except Err (FrameId × Frame) × St) : Prop :=
  ∀ s : St,
    CallerFramesUnchanged s.heap (run s).2.heap ∧
    (∃ new, (run s).2.log = s.log ++ new ∧ WritesOnlyAllocated new ∧ NeverTouches s.heap.length new) ∧
    (∀ r f, (run s).1 = .ok (r, f) → s.heap.length ≤ r ∧ r < (run s).2.heap.length)

/-! ## Theorems -/

theorem ext_writesOnlyAllocated {s s' : St} (h : Ext s.heap.length s s') :
    ∃ new, s'.log = s.log ++ new ∧ WritesOnlyAllocated new ∧ NeverTouches s.heap.length new := by
  obtain ⟨new, hl, hr, hw, hret⟩ := h.ex
  refine ⟨new, hl, ?_, hw, hret⟩
  intro pre post k id c he
  subst he
  obtain ⟨n', hp, hlt, _⟩ := replay_split_lt hr
  exact replay_alloc_mem hp id (hw k id c (by simp)) (hlt k id c rfl)

/-- **C19_writes_fresh.** Every frame written in place during `exec p` was allocated during that run: each write event
is preceded in the run's own log by the allocation event of its target; no write targets, and no step returns, one of
the caller's frames.  Holds whether the run returns or raises, for every hint and every set-iteration order. -/
theorem C19_writes_fresh (ord : Ord) (dm : DataMap) (p : Pipe) (s : St) :
    ∃ new, (exec ord dm p s).2.log = s.log ++ new ∧ WritesOnlyAllocated new ∧ NeverTouches s.heap.length new :=
  ext_writesOnlyAllocated (exec_ext ord dm p s).1

theorem ext_unchanged {s s' : St} (h : Ext s.heap.length s s') : CallerFramesUnchanged s.heap s'.heap := by
  have := h.keep
  simpa [CallerFramesUnchanged] using this

/-- **C19_inputs_unchanged.** After `exec p` (returning or raising) the heap restricted to the caller's positions is the
caller's heap: every input frame has the same columns, rows and payload token, at the same identity. -/
theorem C19_inputs_unchanged (ord : Ord) (dm : DataMap) (p : Pipe) (s : St) :
    CallerFramesUnchanged s.heap (exec ord dm p s).2.heap ∧
    ∀ id, id < s.heap.length → (exec ord dm p s).2.heap[id]? = s.heap[id]? := by
  have h := ext_unchanged (exec_ext ord dm p s).1
  refine ⟨h, fun id hid => ?_⟩
  have := getElem?_of_take_eq (l₁ := (exec ord dm p s).2.heap) (l₂ := s.heap) (n := s.heap.length)
    (by rw [h]; simp) hid
  exact this

/-- **C19_result_fresh.** The frame `exec p` returns is not one of the caller's frames: its position did not exist
before the run (and exists after it). -/
theorem C19_result_fresh (ord : Ord) (dm : DataMap) (p : Pipe) (s : St) (r : FrameId) (f : Frame)
    (h : (exec ord dm p s).1 = .ok (r, f)) :
    s.heap.length ≤ r ∧ r < (exec ord dm p s).2.heap.length :=
  (exec_ext ord dm p s).2 r f h

/-- **C19_result_mutation_isolated.** Whatever is afterwards written in place into the returned frame (any sequence of
new contents `gs`), the caller's frames stay unchanged: mutating the result cannot change the inputs. -/
theorem C19_result_mutation_isolated (ord : Ord) (dm : DataMap) (p : Pipe) (s : St) (r : FrameId) (f : Frame)
    (h : (exec ord dm p s).1 = .ok (r, f)) (gs : List Frame) :
    CallerFramesUnchanged s.heap (gs.foldl (fun hp g => hp.set r g) (exec ord dm p s).2.heap) := by
  have hr := (C19_result_fresh ord dm p s r f h).1
  have h0 := (C19_inputs_unchanged ord dm p s).1
  generalize (exec ord dm p s).2.heap = hp at h0
  induction gs generalizing hp with
  | nil => exact h0
  | cons g gs ih =>
    apply ih
    unfold CallerFramesUnchanged at *
    rw [List.take_set_of_le hr]
    exact h0

theorem ownershipSafe_of_exec (ord : Ord) (dm : DataMap) (p : Pipe) : OwnershipSafe (exec ord dm p) :=
  fun s => ⟨(C19_inputs_unchanged ord dm p s).1, C19_writes_fresh ord dm p s, C19_result_fresh ord dm p s⟩

theorem ownershipSafe_const (e : Err) : OwnershipSafe (fun s => (.error e, s)) := by
  intro s
  refine ⟨by simp [CallerFramesUnchanged], ⟨[], by simp, ?_, ?_, ?_⟩, by intro r f h; cases h⟩
  · intro pre post k id c he; cases pre <;> simp at he
  · intro k id c hm; cases hm
  · intro id f hm; cases hm

/-- **C19_entry_points.** `eval(data_map)`, `transform(X)`, `ex()` and `act_on(X)` (= `X >> ops`) all leave the caller's
frames unchanged, write only to frames allocated during the call and return a new frame. -/
theorem C19_entry_points (ord : Ord) (dm : DataMap) (x : FrameId) (p : Pipe) :
    OwnershipSafe (eval ord dm p) ∧ OwnershipSafe (transform ord x p) ∧ OwnershipSafe (ex ord p) ∧
    OwnershipSafe (actOn ord x p) := by
  have hev : ∀ dm', OwnershipSafe (eval ord dm' p) := by
    intro dm' s
    unfold eval
    split
    · exact ownershipSafe_const _ s
    · exact ownershipSafe_of_exec ord dm' p s
  have htr : OwnershipSafe (transform ord x p) := by
    intro s
    unfold transform
    split
    · exact hev _ s
    · exact ownershipSafe_const _ s
  refine ⟨hev dm, htr, ?_, ?_⟩
  · intro s
    unfold ex
    split
    · exact ownershipSafe_const _ s
    · exact hev _ s
  · intro s
    unfold actOn
    split
    · split
      · exact htr s
      · exact ownershipSafe_const _ s
    · exact ownershipSafe_const _ s

/-- **C19_deterministic.** The executor model is a function of the pipeline (with its hints), the data map and the
heap; the only thing the Python code leaves open beyond that is the iteration order of Python sets
(`set(op.partition_by)` in `_extend_step`, the column intersection in `add_data_frame_columns_to_data_frame_`,
`common_cols` in `_natural_join_step`), a parameter `ord` here.  For a data map that names caller frames: the result
(error class, or identity, columns, rows and payload token of the returned frame), the size of the heap and the
sequence of events up to column names and allocation labels — hence the set of frames written and which frame every
step returns — do not depend on that order, i.e. not on PYTHONHASHSEED.
(Before `fixes/c19-project-empty-group-order.diff` a fourth loop, over `missing_group_cols` in `_project_step`, made the
column ORDER of an empty grouped result depend on it; see `C19_unpatched_project_order_dependent`.) -/
theorem C19_deterministic {ord₁ ord₂ : Ord} (h₁ : OrdOK ord₁) (h₂ : OrdOK ord₂) (dm : DataMap) (p : Pipe)
    (s : St) (hsc : Scoped dm p s.heap.length) :
    (exec ord₁ dm p s).1 = (exec ord₂ dm p s).1 ∧
    (exec ord₁ dm p s).2.heap.length = (exec ord₂ dm p s).2.heap.length ∧
    (exec ord₁ dm p s).2.log.map evShape = (exec ord₂ dm p s).2.log.map evShape := by
  obtain ⟨a, b⟩ := exec_ord h₁ h₂ dm p s.heap.length hsc s s (SRel.refl s) (Nat.le_refl _) rfl
  exact ⟨a, b.len, b.log⟩

theorem ordOK_id : OrdOK (fun l => l) := fun l => List.Perm.refl l
theorem ordOK_reverse : OrdOK List.reverse := fun l => List.reverse_perm l

/-- the loop of the UNPATCHED `_project_step` (`for g in missing_group_cols: res[g] = []`, a set iteration) -/
def unpatchedMissingLoop (ord : Ord) (r : H) (groupBy : List Col) : B H :=
  setAll r (ord ((groupBy.filter (· ∉ r.f.cols)).eraseDups))

/-- **C19_unpatched_project_order_dependent.** Why the patch is needed: with two missing group columns the unpatched
loop yields differently ordered columns for two iteration orders (`s, g, h` vs `s, h, g`), so the same pipeline on the
same (empty) input returned differently ordered frames in processes with different PYTHONHASHSEED. -/
theorem C19_unpatched_project_order_dependent :
    ¬ (∀ ord₁ ord₂ : Ord, OrdOK ord₁ → OrdOK ord₂ →
        (unpatchedMissingLoop ord₁ ⟨.loc 0, ⟨["s"], 0, 0⟩⟩ ["g", "h"] 1).1.f.cols =
        (unpatchedMissingLoop ord₂ ⟨.loc 0, ⟨["s"], 0, 0⟩⟩ ["g", "h"] 1).1.f.cols) := by
  intro h
  have := h (fun l => l) List.reverse ordOK_id ordOK_reverse
  revert this
  decide

/-- **C19_repeatable.** Evaluating the same pipeline on the same inputs again (from the state the first evaluation
left) gives the same outcome: the same error class, or a frame with the same columns, rows and payload token — in a
NEW object; the first result is not touched by the second evaluation. -/
theorem C19_repeatable (ord : Ord) (dm : DataMap) (p : Pipe) (s : St) (hsc : Scoped dm p s.heap.length) :
    let first := exec ord dm p s
    let second := exec ord dm p first.2
    second.1.map Prod.snd = first.1.map Prod.snd ∧
    (∀ r₁ f₁ r₂ f₂, first.1 = .ok (r₁, f₁) → second.1 = .ok (r₂, f₂) →
        r₁ < r₂ ∧ second.2.heap[r₁]? = first.2.heap[r₁]?) ∧
    CallerFramesUnchanged s.heap second.2.heap := by
  intro first second
  have e1 := exec_ext ord dm p s
  have e2 := exec_ext ord dm p first.2
  have hlen := e1.1.len_le
  have hkeep : first.2.heap.take s.heap.length = s.heap.take s.heap.length := e1.1.keep
  refine ⟨?_, ?_, ?_⟩
  · exact exec_agree ord dm p s.heap.length hsc first.2 s hlen (Nat.le_refl _) hkeep
  · intro r₁ f₁ r₂ f₂ h1 h2
    have a := (e1.2 r₁ f₁ h1).2
    have b := (e2.2 r₂ f₂ h2).1
    refine ⟨Nat.lt_of_lt_of_le a b, ?_⟩
    exact getElem?_of_take_eq e2.1.keep a
  · have := (Ext.mono hlen e2.1).keep
    unfold CallerFramesUnchanged
    rw [this, hkeep]
    simp

/-! ## Non-vacuity: the hypotheses are satisfiable and the conclusions speak about real writes -/

/-- `d(g, x)` with 3 rows and `e(g, z)` with 2 rows are the caller's frames -/
def exHeap : St := ⟨[⟨["g", "x"], 3, 0⟩, ⟨["g", "z"], 2, 0⟩], []⟩
def exDm : DataMap := [("d", 0), ("e", 1)]

/-- `d.extend({'w': 'x.sum()', 'c': '(1).sum()'}, partition_by=['g']).natural_join(e.extend({'x': 'z * 2'}), on=[], 'cross')
      .concat_rows(d.extend(...), id_column='src').project({'s': 'x.sum()'}, group_by=['g']).order_rows(['g'])` -/
def exPipe : Pipe :=
  let d := Pipe.table ⟨"d", ["g", "x"], none⟩
  let e := Pipe.table ⟨"e", ["g", "z"], none⟩
  let w := Pipe.un (.extend ⟨["w", "c"], [.col "x", .val "1"], true, ["g"], [], false⟩) none d
  let j := Pipe.bin (.join ⟨[], [], ["g", "x", "w", "c", "z"], 6⟩) none w
            (.un (.extend ⟨["x"], [.none], false, [], [], false⟩) none e)
  let c := Pipe.bin (.concat ⟨some "src"⟩) none j (.un (.extend ⟨["w", "c", "z"], [], false, [], [], true⟩) none d)
  .un (.orderRows none) none (.un (.project ⟨["s"], [.col "x"], ["g"], 2⟩) none c)

example : Scoped exDm exPipe exHeap.heap.length := by
  refine ⟨?_, ?_⟩
  · intro k id h
    simp only [exDm, List.lookup] at h
    split at h
    · cases h; decide
    · split at h
      · cases h; decide
      · cases h
  · intro t ht h hh
    simp [exPipe, tablesOf] at ht
    rcases ht with rfl | rfl | rfl <;> cases hh

/-- the run returns, performs 19 in-place writes (on frames returned by source steps and on local frames), allocates 25
frames, and returns a frame outside the caller's heap -/
example :
    ((exec (fun l => l) exDm exPipe exHeap).1.toOption.map (·.2.cols) = some ["g", "s"]) ∧
    ((exec (fun l => l) exDm exPipe exHeap).2.log.filter (fun e => match e with | .write _ _ _ => true | _ => false)).length = 19 ∧
    (exec (fun l => l) exDm exPipe exHeap).2.heap.length = 27 := by decide

/-- a run that raises half way (the join raises after its two writes into the frames its sources returned) still
satisfies the hypotheses, and has performed writes -/
def exFailPipe : Pipe :=
  .bin (.join ⟨[], [], [], 6⟩) (some ⟨2, "TypeError"⟩) (.table ⟨"d", ["g", "x"], none⟩) (.table ⟨"e", ["g", "z"], none⟩)

example :
    (exec (fun l => l) exDm exFailPipe exHeap).1.toOption = none ∧
    (exec (fun l => l) exDm exFailPipe exHeap).2.log.filter (fun e => match e with | .write _ _ _ => true | _ => false)
      = [.write .setitem 3 "data_algebra_temp_merge_col", .write .setitem 5 "data_algebra_temp_merge_col"] := by decide

/-- the witness of the former hash-seed dependence (grouped project with two group columns over an empty table): on the
patched code both iteration orders return the columns in the order of `group_by` -/
def witnessP : Pipe :=
  .un (.project ⟨["s"], [.col "x"], ["g", "h"], 0⟩) none (.table ⟨"d", ["g", "h", "x"], none⟩)
def witnessS : St := ⟨[⟨["g", "h", "x"], 0, 0⟩], []⟩
example :
    (exec (fun l => l) [("d", 0)] witnessP witnessS).1.toOption.map (·.2.cols) = some ["s", "g", "h"] ∧
    (exec List.reverse [("d", 0)] witnessP witnessS).1.toOption.map (·.2.cols) = some ["s", "g", "h"] := by decide

/-- `OrdOK` is satisfiable by different orders -/
example : OrdOK (fun l => l) ∧ OrdOK List.reverse ∧ (fun l : List Col => l) ["a", "b"] ≠ List.reverse ["a", "b"] :=
  ⟨ordOK_id, ordOK_reverse, by decide⟩

/-- what a violation looks like: a table step that returned the caller's own frame would break `NeverTouches`
(the event list `[ret 0 _]` is rejected), and a write to position 0 breaks `CallerFramesUnchanged` -/
example : ¬ NeverTouches 1 [.ret 0 ⟨["g"], 1, 0⟩] := by
  intro h; have := h.2 0 ⟨["g"], 1, 0⟩ (List.mem_singleton.mpr rfl); omega
example : ¬ CallerFramesUnchanged [⟨["g"], 1, 0⟩] ([(⟨["g"], 1, 0⟩ : Frame)].set 0 ⟨["g", "t"], 1, 1⟩) := by
  unfold CallerFramesUnchanged; decide

end DAVerif.Own
