import DAVerif.Proofs.ExprWalkWfPrintNames
import DAVerif.Props.C13
/-!
# C13 — the walker only returns well-formed terms; the text → term → text → term round trip

Property theorems only.  `C13_print_parse` (`Props/C13.lean`) proves the print → parse round trip for *well-formed*
terms (`wf env t`, `Expr/Canon.lean`).  Here: every term the walker returns for a tree of the parser model is
well-formed (`C13_walk_wf`), so the round trip holds for every accepted text with no hypothesis on the term
(`C13_roundtrip_text`).

Definitions (in `Proofs/ExprWalkWfDefs.lean`, namespace `DAVerif.C13W`):
`gram` (shape of parser output, decidable), the guards `noDunderCall` (`NoDunderCall`), `calleeIsName`
(`CalleeIsName`), `floatsInScope` (lexical scope of the float model), `Canon` (decidable table condition),
`termNames` / `cstNames` / `tableNames` (names), `nameToks` (`Proofs/ExprWalkWfPrintNames.lean`).
-/
namespace DAVerif.Expr
open DAVerif.C13W

/-! ## 1. Parser output has the grammar's shape -/

/-- **Shape of parser output.** Every tree the parser model returns — for any token list — satisfies `gram`: the
decidable description of the trees of `python3_lark`'s expression grammar as far as the walker looks at them (binary
levels with their kept operator tokens, `factor`, `power`, `not`, calls and attribute access with `arguments` and the
`None` placeholders, atoms, tuple/list/set/dict literals with non-empty `…_comp` children). -/
theorem C13_parse_gram (toks : List Token) (c : Cst) (h : parseToks toks = .ok c) : gram c = true :=
  parseToks_gram h

/-! ## 2. The walker only returns well-formed terms -/

/-- **C13 (walk → wf).** For every tree `c` of the parser's shapes (`gram c`; true of every parser output by
`C13_parse_gram`) that calls no dunder method by name (`noDunderCall c`, guard `NoDunderCall` of the known finding
`C13-dunder-bitwise-method-print`) and whose FLOAT tokens are in the scope of the float model (`floatsInScope c`):
if the walker accepts `c` and returns `t`, then `t` is well-formed in the sense of `C13_print_parse`.
`env.Sane` and `Canon env` are decidable conditions on the tables the walker reads, true of the tables regenerated from
the source (`C13_generated_tables_sane`, `C13_generated_tables_canon`).

The unguarded statement is false: `C13_walk_wf_dunder_necessary`, `C13_walk_wf_float_necessary`
(`Proofs/ExprWalkWfFloat.lean`). -/
theorem C13_walk_wf (env : Env) (hs : env.Sane) (hc : Canon env) (c : Cst) (t : Term)
    (hg : gram c = true) (hd : noDunderCall c = true) (hf : floatsInScope c = true)
    (hw : walk env c = .ok t) : wf env t = true :=
  walk_wf hs hc c t hg (guardsWf_of c hd hf) hw

/-- The tables regenerated from `/repo` on every run satisfy `Canon`, for every set of columns: the builders that the
grammar's operator tokens and the named (non-dunder) methods reach have the inline / method flags that the printed
form is re-read with. -/
theorem C13_generated_tables_canon (cols : List String) : Canon (Generated.env cols) := by
  show tablesCanon Generated.methodTable Generated.opRemap Generated.factorRemap = true
  decide

/-- **C13 (walk → wf), on texts, for the repository's tables.** Every token list the parser model accepts, under the
two guards, is walked to a well-formed term or refused. -/
theorem C13_walk_wf_text (cols : List String) (toks : List Token) (c : Cst) (t : Term)
    (hp : parseToks toks = .ok c) (hd : noDunderCall c = true) (hf : floatsInScope c = true)
    (hw : walk (Generated.env cols) c = .ok t) : wf (Generated.env cols) t = true :=
  C13_walk_wf _ (C13_generated_tables_sane cols) (C13_generated_tables_canon cols) c t (C13_parse_gram toks c hp) hd hf hw

/-! ## 3. text → term → text → term -/

/-- **C13 (parse → print → parse), no hypothesis on the term.** For every token list `toks` that the parser model
accepts (tree `c`) and the walker accepts (term `t`), under the guards `NoDunderCall` and `floatsInScope`: the tokens
of `str(t)` parse (to `cst t`) and walk back to exactly `t` — every field, including `method`. -/
theorem C13_roundtrip_text (env : Env) (hs : env.Sane) (hc : Canon env) (hn : env.NegFolds)
    (toks : List Token) (c : Cst) (t : Term)
    (hp : parseToks toks = .ok c) (hd : noDunderCall c = true) (hf : floatsInScope c = true)
    (hw : walk env c = .ok t) :
    parseToks (printToks t) = .ok (cst t) ∧ walk env (cst t) = .ok t :=
  C13_print_parse env hn t (C13_walk_wf env hs hc c t (C13_parse_gram toks c hp) hd hf hw)

/-- the same for the repository's tables: no hypothesis besides the two guards -/
theorem C13_roundtrip_text_generated (cols : List String) (toks : List Token) (c : Cst) (t : Term)
    (hp : parseToks toks = .ok c) (hd : noDunderCall c = true) (hf : floatsInScope c = true)
    (hw : walk (Generated.env cols) c = .ok t) :
    parseToks (printToks t) = .ok (cst t) ∧ walk (Generated.env cols) (cst t) = .ok t :=
  C13_roundtrip_text _ (C13_generated_tables_sane cols) (C13_generated_tables_canon cols)
    (C13_generated_negfolds cols) toks c t hp hd hf hw

/-- the same through the entry point `parse_by_lark` (walk, then `assert isinstance(v, Term)`): parsing the printed
form of the result of `parse_by_lark` gives the result again -/
theorem C13_roundtrip_text_top (cols : List String) (toks : List Token) (c : Cst) (t : Term)
    (hp : parseToks toks = .ok c) (hd : noDunderCall c = true) (hf : floatsInScope c = true)
    (hw : walkTop (Generated.env cols) c = .ok t) :
    (parseToks (printToks t)).toOption.map (walkTop (Generated.env cols)) = some (.ok t) := by
  unfold walkTop at hw
  cases hw' : walk (Generated.env cols) c with
  | error e => simp [hw'] at hw
  | ok t' =>
    simp only [hw', ok_bind] at hw
    have hwf := C13_walk_wf_text cols toks c t' hp hd hf hw'
    cases t' with
    | list vs => simp at hw
    | dict kvs => simp at hw
    | value l =>
      injection hw with hw; subst hw
      exact C13_print_parse_top _ (C13_generated_negfolds cols) _ hwf (by intro vs h; cases h) (by intro vs h; cases h)
    | col s =>
      injection hw with hw; subst hw
      exact C13_print_parse_top _ (C13_generated_negfolds cols) _ hwf (by intro vs h; cases h) (by intro vs h; cases h)
    | app op args i m =>
      injection hw with hw; subst hw
      exact C13_print_parse_top _ (C13_generated_negfolds cols) _ hwf (by intro vs h; cases h) (by intro vs h; cases h)

/-! ## 4. The names of the printed form (guard `CalleeIsName`) -/

/-- **C13 (names).** For *every* tree `c` in which the callee of every call is a name or an attribute
(`calleeIsName c`, guard `CalleeIsName` of the known finding `C13-call-of-unary-expression`): the texts the printer
emits as NAME tokens for the walked term (`termNames t`: column names and the operator of every non-inline
`Expression`) are texts of NAME tokens of `c`, or operator names of non-inline builders of the table. -/
theorem C13_walk_names (env : Env) (c : Cst) (t : Term) (hcal : calleeIsName c = true) (hw : walk env c = .ok t) :
    ∀ n ∈ termNames t, n ∈ cstNames c ∨ n ∈ tableNames env :=
  walk_names (S := fun n => n ∈ cstNames c ∨ n ∈ tableNames env) (fun _ hn => Or.inr hn) c t hcal
    (fun _ hn => Or.inl hn) hw

/-- **C13 (round trip stays inside the lexical scope).** Under all three guards, every NAME token of the printed form
`str(t)` of the term a text is walked to is a NAME token of the text or the name of a (non-inline) builder: the printer
never emits as a NAME something the lexer would not read as a NAME.  In particular, for any predicate `S` on texts
("is an identifier and not a keyword") that holds of the text's NAME tokens and of the builder names, it holds of the
NAME tokens of the printed form. -/
theorem C13_roundtrip_names (cols : List String) (toks : List Token) (c : Cst) (t : Term)
    (hp : parseToks toks = .ok c) (hd : noDunderCall c = true) (hf : floatsInScope c = true)
    (hcal : calleeIsName c = true) (hw : walk (Generated.env cols) c = .ok t) :
    ∀ n ∈ nameToks (printToks t), n ∈ cstNames c ∨ n ∈ tableNames (Generated.env cols) := by
  intro n hn
  exact C13_walk_names _ c t hcal hw n (printToks_names (C13_walk_wf_text cols toks c t hp hd hf hw) n hn)

/-- an identifier: letters, digits, underscores, not starting with a digit -/
def isIdentText (s : String) : Bool :=
  match s.toList with
  | [] => false
  | c :: cs => (c.isAlpha || c == '_') && cs.all (fun d => d.isAlphanum || d == '_')

/-- the names of the non-inline builders of the repository's table are identifiers -/
theorem C13_generated_tableNames_ident (cols : List String) :
    ∀ n ∈ tableNames (Generated.env cols), isIdentText n = true := by
  show ∀ n ∈ Generated.methodTable.flatMap (fun kv => kindNames kv.2), isIdentText n = true
  decide

/-- if the NAME tokens of the text are identifiers, so are the NAME tokens of the printed form of its term -/
theorem C13_roundtrip_idents (cols : List String) (toks : List Token) (c : Cst) (t : Term)
    (hp : parseToks toks = .ok c) (hd : noDunderCall c = true) (hf : floatsInScope c = true)
    (hcal : calleeIsName c = true) (hw : walk (Generated.env cols) c = .ok t)
    (hid : ∀ n ∈ cstNames c, isIdentText n = true) :
    ∀ n ∈ nameToks (printToks t), isIdentText n = true := by
  intro n hn
  rcases C13_roundtrip_names cols toks c t hp hd hf hcal hw n hn with h | h
  · exact hid n h
  · exact C13_generated_tableNames_ident cols n h

/-! ## 5. The guards are necessary -/

private def kw (s : String) : Token := ⟨.op, s⟩
private def nm (s : String) : Token := ⟨.name, s⟩
private def dec (s : String) : Token := ⟨.dec, s⟩
private def flt (s : String) : Token := ⟨.float, s⟩
private def str (s : String) : Token := ⟨.string, s⟩

/-- the tokens of `x.__and__(y)` -/
def toksDunderAnd : List Token := [nm "x", kw ".", nm "__and__", kw "(", nm "y", kw ")"]
/-- the tokens of `(-x)(y)` -/
def toksUnaryCallee : List Token := [kw "(", kw "-", nm "x", kw ")", kw "(", nm "y", kw ")"]

/-- **Guard `NoDunderCall` is necessary** (known finding `C13-dunder-bitwise-method-print`): the text `x.__and__(y)`
is accepted by the parser model (its tree has the grammar's shape by `C13_parse_gram`; all other guards are true) and
by the walker, and the term is *not* well-formed — so `C13_walk_wf` / `C13_walk_wf_text` without `noDunderCall` are
false. -/
theorem C13_walk_wf_dunder_necessary :
    ∃ c, parseToks toksDunderAnd = .ok c ∧ gram c = true ∧ floatsInScope c = true ∧ calleeIsName c = true ∧
      noDunderCall c = false ∧ walkedWf (Generated.env ["x", "y"]) c = some false := by
  have h : parsedSat toksDunderAnd (fun c => gram c && floatsInScope c && calleeIsName c && !noDunderCall c &&
      (walkedWf (Generated.env ["x", "y"]) c == some false)) = true := by decide +kernel
  obtain ⟨c, hc, hP⟩ := parsedSat_exists h
  simp only [Bool.and_eq_true, Bool.not_eq_true', beq_iff_eq] at hP
  exact ⟨c, hc, hP.1.1.1.1, hP.1.1.1.2, hP.1.1.2, hP.1.2, hP.2⟩

/-- the unguarded "walk → wf" is false of the model (and of the code: `C13_dunder_guard_necessary`) -/
theorem C13_walk_wf_unguarded_false :
    ¬ ∀ (toks : List Token) (c : Cst) (t : Term), parseToks toks = .ok c → walk (Generated.env ["x", "y"]) c = .ok t →
        wf (Generated.env ["x", "y"]) t = true := by
  intro h
  obtain ⟨c, hc, _, _, _, _, hw⟩ := C13_walk_wf_dunder_necessary
  unfold walkedWf at hw
  cases hwc : walk (Generated.env ["x", "y"]) c with
  | error e => simp [hwc, Except.toOption] at hw
  | ok t =>
    have := h _ c t hc hwc
    simp [hwc, Except.toOption, this] at hw

/-- **Guard `CalleeIsName` is necessary** (known finding `C13-call-of-unary-expression`): the text `(-x)(y)` is
accepted by the parser model and by the walker (term `-(y)`: the call of the function named `-`), the other guards
hold (and the term is even well-formed: at the token level it round-trips), but the printed form `-(y)` has the NAME
token `-`, which is neither a NAME token of the text nor a builder name nor an identifier — so `C13_roundtrip_names` /
`C13_roundtrip_idents` without `calleeIsName` are false, and the printed text is outside the lexical scope (a lexer
reads `-` as the operator: the real code re-parses `-(y)` to `-y`). -/
theorem C13_callee_guard_necessary_names :
    ∃ c, parseToks toksUnaryCallee = .ok c ∧ gram c = true ∧ noDunderCall c = true ∧ floatsInScope c = true ∧
      calleeIsName c = false ∧
      walksTo (Generated.env ["x", "y"]) c (.app "-" [.col "y"] false false) = true ∧
      (∀ n ∈ cstNames c, isIdentText n = true) ∧
      "-" ∈ nameToks (printToks (.app "-" [.col "y"] false false)) ∧
      "-" ∉ cstNames c ∧ "-" ∉ tableNames (Generated.env ["x", "y"]) ∧ isIdentText "-" = false := by
  have h : parsedSat toksUnaryCallee (fun c => gram c && noDunderCall c && floatsInScope c && !calleeIsName c &&
      walksTo (Generated.env ["x", "y"]) c (.app "-" [.col "y"] false false) &&
      (cstNames c).all isIdentText &&
      (nameToks (printToks (.app "-" [.col "y"] false false))).contains "-" &&
      !(cstNames c).contains "-" && !(tableNames (Generated.env ["x", "y"])).contains "-" && !isIdentText "-") = true := by
    decide +kernel
  obtain ⟨c, hc, hP⟩ := parsedSat_exists h
  simp only [Bool.and_eq_true, Bool.not_eq_true', List.contains_eq_mem, decide_eq_true_eq, decide_eq_false_iff_not,
    List.all_eq_true] at hP
  obtain ⟨⟨⟨⟨⟨⟨⟨⟨⟨h1, h2⟩, h3⟩, h4⟩, h5⟩, h6⟩, h7⟩, h8⟩, h9⟩, h10⟩ := hP
  exact ⟨c, hc, h1, h2, h3, h4, h5, h6, h7, h8, h9, h10⟩

/-! ## 6. Non-vacuity: nested expressions of every operator class -/

/-- parse, check the three guards, walk, check `wf`, print, parse and walk again: everything succeeds and the term
comes back -/
def roundTripsText (env : Env) (toks : List Token) : Bool :=
  match parseToks toks with
  | .ok c =>
    gram c && noDunderCall c && floatsInScope c && calleeIsName c &&
    match walk env c with
    | .ok t => wf env t && roundTrips env t && (nameToks (printToks t)).all isIdentText
    | .error _ => false
  | .error _ => false

private def envXY : Env := Generated.env ["x", "y"]

/-- `-x ** 2 + (-y) ** -2 - +x`: unary minus outside and inside a power, a negative constant exponent, unary plus -/
def toksPow : List Token :=
  [kw "-", nm "x", kw "**", dec "2", kw "+", kw "(", kw "-", nm "y", kw ")", kw "**", kw "-", dec "2", kw "-", kw "+",
   nm "x"]
/-- `1 < x <= y != 3.5`: a comparison chain (walked to the conjunction of the pairwise comparisons) -/
def toksChain : List Token := [dec "1", kw "<", nm "x", kw "<=", nm "y", kw "!=", flt "3.5"]
/-- `x.mapv({1: 'a', -2: 'b'}, 'z') == 'a' and y.is_in([1, 2.5, -3])`: method calls with a dict and a list literal -/
def toksCalls : List Token :=
  [nm "x", kw ".", nm "mapv", kw "(", kw "{", dec "1", kw ":", str "'a'", kw ",", kw "-", dec "2", kw ":", str "'b'",
   kw "}", kw ",", str "'z'", kw ")", kw "==", str "'a'", kw "and",
   nm "y", kw ".", nm "is_in", kw "(", kw "[", dec "1", kw ",", flt "2.5", kw ",", kw "-", dec "3", kw "]", kw ")"]
/-- `not (x + 1) * (y - 2) / 3 % 4 >= x // y or x %+% 'a' == "it's"`: parenthesised operands, `not`, `or`, the
linear chain of `term`, the DSL's `%+%`, a string that prints with double quotes -/
def toksArith : List Token :=
  [kw "not", kw "(", nm "x", kw "+", dec "1", kw ")", kw "*", kw "(", nm "y", kw "-", dec "2", kw ")", kw "/", dec "3",
   kw "%", dec "4", kw ">=", nm "x", kw "//", nm "y", kw "or", nm "x", kw "%+%", str "'a'", kw "==", str "\"it's\""]
/-- `x.shift().coalesce_0() + fmax(x, y).abs() + x.around(2)`: builders with default arguments,
a function call, a builder that prints as a function (`around`) -/
def toksSugar : List Token :=
  [nm "x", kw ".", nm "shift", kw "(", kw ")", kw ".", nm "coalesce_0", kw "(", kw ")", kw "+",
   nm "fmax", kw "(", nm "x", kw ",", nm "y", kw ")", kw ".", nm "abs", kw "(", kw ")", kw "+",
   nm "x", kw ".", nm "around", kw "(", dec "2", kw ")"]

example : roundTripsText envXY toksPow = true := by decide +kernel
example : roundTripsText envXY toksChain = true := by decide +kernel
example : roundTripsText envXY toksCalls = true := by decide +kernel
example : roundTripsText envXY toksArith = true := by decide +kernel
example : roundTripsText envXY toksSugar = true := by decide +kernel

-- the terms: `-x ** 2` is the negation of the power, `(-y) ** -2` has the negated column as base and the folded
-- constant as exponent
example : ((parseToks toksPow).toOption.bind (fun c => (walk envXY c).toOption.map printText)
    == some "((-(x ** 2)) + ((-(y)) ** (-2))) - x") = true := by decide +kernel
example : ((parseToks toksChain).toOption.bind (fun c => (walk envXY c).toOption.map printText)
    == some "(1 < x) and (x <= y) and (y != 3.5)") = true := by decide +kernel

-- the hypotheses of `C13_roundtrip_text_generated` hold on a concrete text (so the theorem is not vacuous)
example : ∃ c t, parseToks toksCalls = .ok c ∧ noDunderCall c = true ∧ floatsInScope c = true ∧
    walk envXY c = .ok t := by
  have h : parsedSat toksCalls (fun c => noDunderCall c && floatsInScope c && (walk envXY c).toBool) = true := by
    decide +kernel
  obtain ⟨c, hc, hP⟩ := parsedSat_exists h
  simp only [Bool.and_eq_true] at hP
  cases hw : walk envXY c with
  | error e => rw [hw] at hP; simp [Except.toBool] at hP
  | ok t => exact ⟨c, t, hc, hP.1.1, hP.1.2, hw⟩

end DAVerif.Expr
