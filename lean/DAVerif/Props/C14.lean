import DAVerif.Proofs.TextSql
/-!
# C14 — Generated SQL carries every literal and identifier verbatim

Property theorems only.  Model of the code: `Text/Quote.lean` (written for the code *after*
`fixes/c14-quote-backslash.diff` and `fixes/c14-concat-label-value.diff`).  Specification side: the dialect
lexers of `Text/Lex.lean` (from the dialect manuals), the piece vocabulary `Piece` / `renderPs` / `toksPs` of
`Proofs/Text.lean` ("a sequence of fixed keywords, punctuation, blanks and quoted user text") and the definitions
in this file.  Strings are `List Char` (Unicode scalar values), quantified without any bound.

Scope hypotheses (from the property text, DESIGN Appendix B): a name does not contain the dialect's identifier quote
and is not empty where the dialect has no empty identifier (`IdentOk`); the text that follows a literal does not
start with the same quote character (generated SQL always continues with a blank, `,` or `)`).
-/
namespace DAVerif.Text

/-! ## 1. String literals read back verbatim (all strings, all five dialects, fixed code) -/

/-- **C14 (strings).** For every dialect, every string `s` and every continuation `rest` that does not start with
the string quote: the dialect's lexer reads the text `quote_string(s)` as one literal with value exactly `s` and
stops exactly in front of `rest`. -/
theorem C14_string_roundtrip (d : Dialect) (s rest : List Char) (hr : rest.head? ≠ some d.stringQuote) :
    lexString d (quoteString d s ++ rest) = some (s, rest) :=
  lexString_quoteString d s rest hr

theorem C14_string_roundtrip_sqlite (s rest : List Char) (hr : rest.head? ≠ some '\'') :
    lexString .sqlite (quoteString .sqlite s ++ rest) = some (s, rest) := C14_string_roundtrip .sqlite s rest hr
theorem C14_string_roundtrip_postgres (s rest : List Char) (hr : rest.head? ≠ some '\'') :
    lexString .postgres (quoteString .postgres s ++ rest) = some (s, rest) := C14_string_roundtrip .postgres s rest hr
theorem C14_string_roundtrip_mysql (s rest : List Char) (hr : rest.head? ≠ some '\'') :
    lexString .mysql (quoteString .mysql s ++ rest) = some (s, rest) := C14_string_roundtrip .mysql s rest hr
theorem C14_string_roundtrip_spark (s rest : List Char) (hr : rest.head? ≠ some '"') :
    lexString .spark (quoteString .spark s ++ rest) = some (s, rest) := C14_string_roundtrip .spark s rest hr
theorem C14_string_roundtrip_bigquery (s rest : List Char) (hr : rest.head? ≠ some '"') :
    lexString .bigquery (quoteString .bigquery s ++ rest) = some (s, rest) := C14_string_roundtrip .bigquery s rest hr

/-- non-vacuity: a hostile string (quotes of both kinds, backslash, newline, comment marker, percent, non-ASCII) -/
example : lexString .bigquery (quoteString .bigquery "a'\"\\\n--%é".toList ++ " AS".toList)
    = some ("a'\"\\\n--%é".toList, " AS".toList) := by decide +kernel
example : lexString .mysql (quoteString .mysql "a'\"\\\n--%é".toList ++ ", 1".toList)
    = some ("a'\"\\\n--%é".toList, ", 1".toList) := by decide +kernel
/-- the hypothesis on `rest` cannot be dropped: `'a'` followed by `'` is a different literal -/
example : lexString .sqlite (quoteString .sqlite "a".toList ++ "'b'".toList) ≠ some ("a".toList, "'b'".toList) := by
  decide

/-! ### D17: the base-class `quote_string` (doubling only) is not enough for MySQL, Spark and BigQuery

Before `fixes/c14-quote-backslash.diff` all five dialects used `SQLModel.quote_string` = `quoteStringBase`.
Full-strength statement that FAILS for d ∈ {mysql, spark, bigquery}:
`∀ s rest, rest.head? ≠ some d.stringQuote → lexString d (quoteStringBase d s ++ rest) = some (s, rest)`.
What holds for the unfixed code is the guarded statement (`…_base_partial`), and the guard is necessary. -/

/-- finding guard of the unfixed code: no backslash (BigQuery also: no `"`, no line break) -/
def G_C14_base_string (d : Dialect) (s : List Char) : Prop :=
  '\\' ∉ s ∧ (d = .bigquery → '"' ∉ s ∧ '\n' ∉ s ∧ '\r' ∉ s)

theorem C14_string_backslash_mysql_necessary :
    ¬ lexString .mysql (quoteStringBase .mysql "a\\".toList ++ []) = some ("a\\".toList, []) := by decide
theorem C14_string_backslash_spark_necessary :
    ¬ lexString .spark (quoteStringBase .spark "a\\".toList ++ []) = some ("a\\".toList, []) := by decide
theorem C14_string_backslash_bigquery_necessary :
    ¬ lexString .bigquery (quoteStringBase .bigquery "a\\".toList ++ []) = some ("a\\".toList, []) := by decide
/-- an interior backslash silently changes the value instead of failing: `'a\nb'` is read as a, newline, b -/
theorem C14_string_backslash_mysql_changes_value :
    lexString .mysql (quoteStringBase .mysql "a\\nb".toList) = some ("a\nb".toList, []) := by decide
/-- BigQuery does not read a doubled quote as a quote: `"a""b"` ends after `a` -/
theorem C14_string_quote_bigquery_necessary :
    ¬ lexString .bigquery (quoteStringBase .bigquery "a\"b".toList ++ []) = some ("a\"b".toList, []) := by decide
theorem C14_string_newline_bigquery_necessary :
    ¬ lexString .bigquery (quoteStringBase .bigquery "a\nb".toList ++ []) = some ("a\nb".toList, []) := by decide

theorem quoteString_eq_base_of_guard {d : Dialect} (hd : d = .mysql ∨ d = .bigquery) {s : List Char}
    (h : G_C14_base_string d s) : quoteString d s = quoteStringBase d s := by
  obtain ⟨h1, h2⟩ := h
  rcases hd with rfl | rfl
  · simp [quoteString, quoteStringBase, pyReplace_of_not_mem _ h1]
  · obtain ⟨h3, h4, h5⟩ := h2 rfl
    simp [quoteString, quoteStringBase, Dialect.stringQuote, pyReplace_of_not_mem _ h1, pyReplace_of_not_mem _ h3,
      pyReplace_of_not_mem _ h4, pyReplace_of_not_mem _ h5]

theorem lexBodySpark_base (s rest : List Char) (h : '\\' ∉ s) (hr : rest.head? ≠ some '"') :
    lexBodySpark '"' (pyReplace '"' ['"', '"'] s ++ '"' :: rest) = some (s, rest) := by
  induction s with
  | nil => simpa [pyReplace] using lexBodySpark_end '"' rest hr
  | cons x xs ih =>
    have hx : x ≠ '\\' := fun e => h (by simp [e])
    have ih' := ih (fun e => h (by simp [e]))
    by_cases h2 : x = '"'
    · subst h2
      have : ∀ cs, lexBodySpark '"' ('"' :: '"' :: cs) = consVal ['"'] (lexBodySpark '"' cs) := by
        intro cs; rw [lexBodySpark.eq_def]; simp
      simp [pyReplace, this, ih', consVal]
    · simp [pyReplace, h2, lexBodySpark_cons_plain _ h2 hx, ih', consVal]

/-- **C14 (strings, unfixed code, partial).** Under the guard the base-class quoting reads back verbatim in the
three backslash dialects as well. -/
theorem C14_string_base_partial (d : Dialect) (s rest : List Char) (hg : G_C14_base_string d s)
    (hr : rest.head? ≠ some d.stringQuote) : lexString d (quoteStringBase d s ++ rest) = some (s, rest) := by
  cases d
  case sqlite => exact C14_string_roundtrip .sqlite s rest hr
  case postgres => exact C14_string_roundtrip .postgres s rest hr
  case mysql => rw [← quoteString_eq_base_of_guard (.inl rfl) hg]; exact C14_string_roundtrip .mysql s rest hr
  case bigquery => rw [← quoteString_eq_base_of_guard (.inr rfl) hg]; exact C14_string_roundtrip .bigquery s rest hr
  case spark =>
    have := lexBodySpark_base s rest hg.1 hr
    simpa [quoteStringBase, Dialect.stringQuote, lexString, strQuotes] using this

instance (d : Dialect) (s : List Char) : Decidable (G_C14_base_string d s) := by
  unfold G_C14_base_string; infer_instance
example : G_C14_base_string .bigquery "it's 100%".toList := by decide

/-! ## 2. Identifiers read back verbatim -/

/-- **C14 (identifiers).** For every dialect and every name in scope, `quote_identifier` does not raise and the
dialect's lexer reads its text as one quoted identifier with exactly that name. -/
theorem C14_ident_roundtrip (d : Dialect) (s rest : List Char) (h : IdentOk d s)
    (hr : rest.head? ≠ some d.identQuote) :
    ∃ t, quoteIdent d s = .ok t ∧ lexIdent d (t ++ rest) = some (s, rest) :=
  ⟨identText d s, quoteIdent_ok h.1, lexIdent_identText h rest hr⟩

theorem C14_ident_roundtrip_sqlite (s rest : List Char) (h : '"' ∉ s) (hr : rest.head? ≠ some '"') :
    ∃ t, quoteIdent .sqlite s = .ok t ∧ lexIdent .sqlite (t ++ rest) = some (s, rest) :=
  C14_ident_roundtrip .sqlite s rest ⟨h, by simp⟩ hr
theorem C14_ident_roundtrip_postgres (s rest : List Char) (h : '"' ∉ s) (hne : s ≠ []) (hr : rest.head? ≠ some '"') :
    ∃ t, quoteIdent .postgres s = .ok t ∧ lexIdent .postgres (t ++ rest) = some (s, rest) :=
  C14_ident_roundtrip .postgres s rest ⟨h, fun _ => hne⟩ hr
theorem C14_ident_roundtrip_mysql (s rest : List Char) (h : '`' ∉ s) (hr : rest.head? ≠ some '`') :
    ∃ t, quoteIdent .mysql s = .ok t ∧ lexIdent .mysql (t ++ rest) = some (s, rest) :=
  C14_ident_roundtrip .mysql s rest ⟨h, by simp⟩ hr
theorem C14_ident_roundtrip_spark (s rest : List Char) (h : '`' ∉ s) (hr : rest.head? ≠ some '`') :
    ∃ t, quoteIdent .spark s = .ok t ∧ lexIdent .spark (t ++ rest) = some (s, rest) :=
  C14_ident_roundtrip .spark s rest ⟨h, by simp⟩ hr
theorem C14_ident_roundtrip_bigquery (s rest : List Char) (h : '`' ∉ s) (hne : s ≠ []) (hr : rest.head? ≠ some '`') :
    ∃ t, quoteIdent .bigquery s = .ok t ∧ lexIdent .bigquery (t ++ rest) = some (s, rest) :=
  C14_ident_roundtrip .bigquery s rest ⟨h, fun _ => hne⟩ hr

/-- Outside the scope the code refuses instead of emitting a broken identifier. -/
theorem C14_ident_rejects (d : Dialect) (s : List Char) (h : d.identQuote ∈ s) :
    quoteIdent d s = .error .valueError := by
  cases d <;> simp [quoteIdent, quoteIdentBase, h]

example : IdentOk .postgres "a b'\\x".toList := ⟨by decide, fun _ => by decide⟩
/-- unfixed code (base-class `quote_identifier`) on BigQuery: a backslash inside backticks is an escape -/
theorem C14_ident_backslash_bigquery_necessary :
    quoteIdentBase .bigquery "a\\b".toList = .ok "`a\\b`".toList ∧
    lexIdent .bigquery ("`a\\b`".toList ++ []) ≠ some ("a\\b".toList, []) := by
  refine ⟨by simp [quoteIdentBase, Dialect.identQuote], by decide⟩

/-! ## 3. value_to_sql: every literal is read back as the same value -/

/-- the tokens a literal value stands for (specification side; floats are not covered) -/
def litToks : PyVal → List Tok
  | .none => [.word "NULL".toList]
  | .bool true => [.word "TRUE".toList]
  | .bool false => [.word "FALSE".toList]
  | .int i => (if i < 0 then [.sym '-'] else []) ++ [.num i.natAbs]
  | .str s => [.str s]
  | .float _ => []
  | .list l => .sym '(' :: litsToks l ++ [.sym ')']
where
  /-- comma separated -/
  litsToks : List PyVal → List Tok
  | [] => []
  | [v] => litToks v
  | v :: w :: vs => litToks v ++ .sym ',' :: litsToks (w :: vs)

theorem toksPs_valPieces (v : PyVal) : toksPs (valPieces v) = litToks v := by
  induction v using PyVal.rec (motive_2 := fun l => toksPs (valsPieces l) = litToks.litsToks l) with
  | none => decide
  | bool b => cases b <;> decide
  | int i =>
    by_cases hi : i < 0 <;> simp [valPieces, litToks, hi, toksPs, Piece.toks, mkWord_natDigits]
  | str s => rfl
  | float r => rfl
  | list l ih =>
    rw [show valPieces (.list l) = [Piece.p '('] ++ valsPieces l ++ [Piece.p ')'] from by simp [valPieces],
      toksPs_append, toksPs_append, ih]
    rfl
  | nil => rfl
  | cons v vs ihv ihvs =>
    cases vs with
    | nil => simpa [valsPieces, litToks.litsToks] using ihv
    | cons w ws =>
      simp only [valsPieces, litToks.litsToks, toksPs_append, ihv]
      rw [show (Piece.p ',' :: Piece.sp :: valsPieces (w :: ws)) = [Piece.p ',', Piece.sp] ++ valsPieces (w :: ws) from rfl,
        toksPs_append, ihvs]
      rfl

/-- **C14 (literals).** For every dialect and every value built from None, booleans, integers, strings and
(nested) lists: the text `value_to_sql(v)`, followed by a blank, `,`, `)`, … or nothing, lexes to exactly the tokens
of `v` — `NULL`/`TRUE`/`FALSE`, the same integer, the same string, the same parenthesised list — and then continues
with the tokens of the rest.  In particular the text is lexically well formed whatever the strings contain.
Not covered: floats (`str(float)` is CPython's formatting; NaN → NULL is in the model and the correspondence). -/
theorem C14_value_to_sql (d : Dialect) (v : PyVal) (hv : v.noFloat = true) (rest : List Char) (hr : BreakStart rest) :
    lexSql d (valueToSql d v ++ rest) = (lexSql d rest).map (litToks v ++ ·) := by
  rw [(valPieces_good d v hv).lexes rest hr, toksPs_valPieces]

example : PyVal.noFloat (.list [.int (-3), .str "x'); --".toList, .none, .list [.bool true]]) = true := by decide
example : BreakStart ")".toList := by intro c hc; simp at hc; subst hc; rfl
example : litToks (.list [.int (-3), .str "x'".toList]) =
    [.sym '(', .sym '-', .num 3, .sym ',', .str "x'".toList, .sym ')'] := by decide

/-! ## 4. Annotation comments -/

/-- **cleanAnnotation_no_line_break.** Whatever the annotation text, no character at which any consumer ends a
line (`\n \v \f \r FS GS RS NEL LS PS`) survives `_clean_annotation`. -/
theorem cleanAnnotation_no_line_break (a : List Char) : ∀ c ∈ cleanAnnotation a, isLineBreak c = false := by
  intro c hc
  cases h : isLineBreak c with
  | false => rfl
  | true =>
    have h1 := lineBreak_isPySpace h
    exact absurd (cleanAnnotation_space hc h1.1) h1.2

/-- every line terminator of a `--` comment in the five dialects is one of those characters -/
theorem commentEnd_isLineBreak (d : Dialect) (c : Char) (h : commentEnd d c = true) : isLineBreak c = true :=
  commentEnd_lineBreak h

/-- **C14_comment_inert.** The annotated first line of a step, `SELECT  -- <cleaned annotation>`, gives the same
token stream as the bare `SELECT` line, for every annotation text and every continuation.
Scope hypothesis for Spark only: the cleaned annotation does not end with a backslash (Spark's comment rule
continues a comment over backslash-newline); every annotation the code produces is a printed pipeline step and
ends with `)`. -/
theorem C14_comment_inert (d : Dialect) (a rest : List Char)
    (hsp : d = .spark → (cleanAnnotation a).getLast? ≠ some '\\') :
    lexSql d (annotatedSelectLine a ++ '\n' :: rest) = lexSql d ("SELECT".toList ++ '\n' :: rest) :=
  comment_inert d a rest hsp

example : (cleanAnnotation "extend({'x': '\"a\\nb\"'})\n -- 100%   x".toList).getLast? ≠ some '\\' := by decide
example : cleanAnnotation "a \r\n  b%".toList = "a bpercent".toList := by decide

/-! ## 5. Labels, record-map keys and control-table entries reach the SQL only through the quoting functions -/

/-- **C14_labels (concat_rows).** The SQL term of a `concat_rows` source label is exactly `quote_string(label)`,
and it lexes to the one string token carrying the label (fixed code, `fixes/c14-concat-label-value.diff`). -/
theorem C14_concat_label (d : Dialect) (name rest : List Char) (hr : BreakStart rest) :
    concatLabelTerm d name = quoteString d name ∧
    lexSql d (concatLabelTerm d name ++ rest) = (lexSql d rest).map (Tok.str name :: ·) := by
  refine ⟨rfl, ?_⟩
  have := C14_value_to_sql d (.str name) rfl rest hr
  simpa [litToks, concatLabelTerm] using this

/-- the text of a list of generated lines, as `to_sql` joins them -/
def unlines (ls : List (List Char)) : List Char := joinSep ['\n'] ls

theorem lexSql_lines {d : Dialect} (shape : List (List Piece)) (h : ∀ l ∈ shape, Good d l) :
    lexSql d (unlines (shape.map (renderPs d))) = some (toksPs (joinPieces [.nl] shape)) := by
  have hg := joinSep_good (nlSep_good d) (openHead_cons _ rfl) (openLast_concat [] rfl) (by simp) shape h
  have := hg.lexes [] (by intro c hc; simp at hc)
  simpa [unlines, lexSql.eq_1] using this

/-- **C14_labels (record map, rows → blocks).** For every record specification whose names are in the identifier
scope, `row_recs_to_blocks_query_str_list_pair` does not raise, its two line lists are exactly the texts of the
explicit shapes `r2bPrefixShape` / `r2bSuffixShape` — fixed keywords, punctuation and blanks, with every column
name only as `quote_identifier(name)` and every control-table entry only as `quote_string(entry)` /
`quote_identifier(entry)` — and each lexes to the tokens of its shape: every user string is exactly one `str` or
`ident` token with its verbatim value, whatever characters it contains. -/
theorem C14_recordmap_rows_to_blocks (d : Dialect) (r : RecSpec) (h : NamesOk d r) :
    ∃ pre suf, rowRecsToBlocks d r = .ok (pre, suf) ∧
      pre = (r2bPrefixShape d r).map (renderPs d) ∧ suf = (r2bSuffixShape d r).map (renderPs d) ∧
      lexSql d (unlines pre) = some (toksPs (joinPieces [.nl] (r2bPrefixShape d r))) ∧
      lexSql d (unlines suf) = some (toksPs (joinPieces [.nl] (r2bSuffixShape d r))) := by
  obtain ⟨e, g1, g2⟩ := rowRecsToBlocks_ok h
  exact ⟨_, _, e, rfl, rfl, lexSql_lines _ g1, lexSql_lines _ g2⟩

/-- **C14_labels (record map, blocks → rows).** The same for `blocks_to_row_recs_query_str_list_pair`
(`r.rows ≠ []` is the code's own `assert ct.shape[0] >= 1`). -/
theorem C14_recordmap_blocks_to_rows (d : Dialect) (r : RecSpec) (h : NamesOk d r) (hrows : r.rows ≠ []) :
    ∃ pre suf, blocksToRowRecs d r = .ok (pre, suf) ∧
      pre = (b2rPrefixShape d r).map (renderPs d) ∧ suf = (b2rSuffixShape r).map (renderPs d) ∧
      lexSql d (unlines pre) = some (toksPs (joinPieces [.nl] (b2rPrefixShape d r))) ∧
      lexSql d (unlines suf) = some (toksPs (joinPieces [.nl] (b2rSuffixShape r))) := by
  obtain ⟨e, g1, g2⟩ := blocksToRowRecs_ok h hrows
  exact ⟨_, _, e, rfl, rfl, lexSql_lines _ g1, lexSql_lines _ g2⟩

/-- **C14_labels (control table as VALUES).** `table_values_to_sql_str_list` on string cells. -/
theorem C14_table_values (d : Dialect) (cols : List (List Char)) (rows : List (List (List Char)))
    (h : ∀ c ∈ cols, IdentOk d c) :
    ∃ ls, tableValuesToSql d cols rows = .ok ls ∧ ls = (tableValuesShape d cols rows).map (renderPs d) ∧
      lexSql d (unlines ls) = some (toksPs (joinPieces [.nl] (tableValuesShape d cols rows))) := by
  obtain ⟨e, g⟩ := tableValues_ok h rows
  exact ⟨_, e, rfl, lexSql_lines _ g⟩

/-- non-vacuity: a record specification with hostile names, keys and entries -/
def exampleSpec : RecSpec :=
  { recordKeys := ["id -- x".toList], controlKeys := ["k'".toList],
    cols := ["k'".toList, "v\\".toList],
    rows := [["a'); DROP".toList, "c\n1".toList], ["b\\".toList, "c%2".toList]] }

instance (d : Dialect) (s : List Char) : Decidable (IdentOk d s) := by unfold IdentOk; infer_instance

example : NamesOk .sqlite exampleSpec := ⟨by decide, by decide, by decide, by decide⟩
example : NamesOk .bigquery exampleSpec := ⟨by decide, by decide, by decide, by decide⟩
example : (toksPs (joinPieces [.nl] (b2rSuffixShape exampleSpec))) =
    [.sym ')', .word "a".toList, .word "GROUP".toList, .word "BY".toList, .ident "id -- x".toList,
     .word "ORDER".toList, .word "BY".toList, .ident "id -- x".toList] := by decide

end DAVerif.Text
