import DAVerif.Proofs.RenameExt
import DAVerif.Proofs.RenameBuild
import DAVerif.Proofs.RenameSqlSem
import DAVerif.Proofs.RenameNear
import DAVerif.Proofs.WithText
import DAVerif.Proofs.RenameWith
import DAVerif.Sem.Theta
import DAVerif.Sql.ThetaSql
/-!
# C15  Results do not depend on how tables and columns are named

Specification side: `DAVerif/Spec/Rename.lean` (the action of a column renaming `ρc` and a table renaming `ρt` on
expressions, pipelines `Ops.ren`, builder steps `Step.ren`, rows, tables `Table.rename`, environments `Env.rename`,
NearSQL trees `Near.rename`; the names involved `names p env`, `tabNames p env`; the reserved names and the decidable
guard `NoReserved`).  Lemmas: `Proofs/Rename*.lean` (one lemma per operator / builder / translation case).

What is proved, for the models that the correspondence suites tie to the code:

* the executor model `sem` (both configurations), the builders `build`, `column_names` and the SQL translation
  `toNearSql` followed by the nested-form SQL semantics `semSql` are **equivariant** under every renaming that is
  injective on the names involved - with **no** side condition on the target names;
* the query names the SQL generator invents are the same for the pipeline and the renamed pipeline.

What the models cannot exhibit, and is therefore *not* proved but searched for by the oracle on the real code and
recorded as known findings with the guard `NoReserved` (below, decidable, computed by the same definition):
the scratch columns of the Pandas / Polars executors (D23: `sem` is the meaning of the executor when no name collides;
it has no scratch columns) and the capture of a user table by a generated common-table-expression name in WITH form
(D24: `semNear` keeps references to base tables and to common table expressions apart, the SQL text does not).
-/
namespace DAVerif
open Function (Injective)
open DAVerif.Sql

/-! ## Part 1: the executor model -/

/-- **C15, executors (full strength).**  For every interpretation `Θ` of the function symbols whose record transforms
are equivariant, both executor configurations (Pandas, reference), every pipeline `p`, every environment `env` and
every injective renaming of columns `ρc` and of tables `ρt` - whatever the target names are: evaluating the renamed
pipeline on the renamed inputs gives the same error, or the result of the original evaluation with its columns renamed
by `ρc` and nothing else changed (same rows in the same order, same cells). -/
theorem C15_sem_equivariant (Θ : Interp) (hΘ : Ren.ConvertEquivariant Θ) (cfg : SemCfg) {ρc : ColRen} {ρt : TabRen}
    (hc : Injective ρc) (ht : Injective ρt) (env : Env) (p : Ops) :
    sem Θ cfg (Env.rename ρc ρt env) (p.ren ρc ρt) = (sem Θ cfg env p).map (Table.rename ρc) :=
  Ren.sem_ren Θ hΘ cfg hc ht env p

/-- **C15, executors, renamings given on the names involved only.**  The same when `ρc` is only known to be injective
on the finitely many column names of `p` and `env` (`names p env`: every column occurrence in the pipeline, the
declared columns and the row keys of every input table) and `ρt` on their table names; record transforms return the
columns they declare (`ConvertOK`, as in C08). -/
theorem C15_sem_equivariant_on (Θ : Interp) (hΘ : Ren.ConvertEquivariant Θ) (hOK : ConvertOK Θ) (cfg : SemCfg)
    {ρc : ColRen} {ρt : TabRen} (env : Env) (p : Ops) (hc : InjOn ρc (names p env)) (ht : InjOn ρt (tabNames p env)) :
    sem Θ cfg (Env.rename ρc ρt env) (p.ren ρc ρt) = (sem Θ cfg env p).map (Table.rename ρc) :=
  Ren.sem_ren_on Θ hΘ hOK cfg env p hc ht

/-- **C15, declared columns.**  `column_names` of the renamed pipeline are the renamed `column_names`. -/
theorem C15_cols_equivariant {ρc : ColRen} (hc : Injective ρc) (ρt : TabRen) (p : Ops) :
    (p.ren ρc ρt).cols = p.cols.map ρc :=
  Ren.cols_ren hc ρt p

/-- **C15, builders.**  Every builder call (with all its checks and simplifications: extend merging, elimination of
trivial `order_rows`, select collapse, …) on a renamed pipeline with renamed arguments raises the same error or
builds the renamed pipeline: names are only compared for equality and membership. -/
theorem C15_build_equivariant {ρc : ColRen} {ρt : TabRen} (hc : Injective ρc) (ht : Injective ρt) (p : Ops)
    (s : Step) : build (p.ren ρc ρt) (s.ren ρc ρt) = (build p s).map (Ops.ren ρc ρt) :=
  Ren.build_ren hc ht p s

/-- the same for a whole chain of builder calls -/
theorem C15_buildChain_equivariant {ρc : ColRen} {ρt : TabRen} (hc : Injective ρc) (ht : Injective ρt) (p : Ops)
    (steps : List Step) :
    buildChain (p.ren ρc ρt) (steps.map (Step.ren ρc ρt)) = (buildChain p steps).map (Ops.ren ρc ρt) :=
  Ren.buildChain_ren hc ht p steps

/-! ## Part 2: the SQL generator and the SQL semantics (nested form) -/

/-- **C15, generated SQL structure.**  For both dialect configurations: translating the renamed pipeline fails with
the same error or yields the NearSQL tree of the original pipeline with every column occurrence renamed by `ρc` and
every base table by `ρt` - and with **the same generated query names** (`extend_3`, `join_source_left_0`, …: they come
from the counter, which runs identically).  Stated modulo `ops_key` (a text that is only compared for equality by
CTE elimination and contains the printed pipeline). -/
theorem C15_near_structure_equivariant (cfg : SqlCfg) {ρc : ColRen} {ρt : TabRen} (hc : Injective ρc)
    (ht : Injective ρt) (p : Ops) :
    (toNearSql cfg (p.ren ρc ρt)).map Near.eraseKeys
      = (toNearSql cfg p).map (fun n => (n.rename ρc ρt).eraseKeys) :=
  Ren.toNearSql_ren cfg hc ht p

/-- **C15, SQL semantics of any NearSQL tree (nested form).**  No reserved-name guard: in nested form a reference to a
base table is resolved in the environment only, so a user table named like a generated query cannot be captured. -/
theorem C15_semSql_equivariant (Θ : Interp) (ec : EngineCfg) {ρc : ColRen} {ρt : TabRen} (hc : Injective ρc)
    (ht : Injective ρt) (env : Env) (q : Near) :
    semSql Θ ec (Env.rename ρc ρt env) (q.rename ρc ρt) = (semSql Θ ec env q).map (Table.rename ρc) :=
  Ren.semSql_ren Θ ec hc ht env q

/-- the SQL meaning of a pipeline: translate, then evaluate the nested query -/
def sqlMeaning (Θ : Interp) (ec : EngineCfg) (cfg : SqlCfg) (env : Env) (p : Ops) : Except Err Table :=
  toNearSql cfg p >>= semSql Θ ec env

/-- **C15, SQL backend (nested form, full strength).**  For every interpretation, engine configuration (NULL ordering)
and dialect configuration: generating SQL for the renamed pipeline and running it on the renamed tables gives the same
error or the renamed result - also when user tables or columns are named like the generator's own query names. -/
theorem C15_sql_sem_equivariant (Θ : Interp) (ec : EngineCfg) (cfg : SqlCfg) {ρc : ColRen} {ρt : TabRen}
    (hc : Injective ρc) (ht : Injective ρt) (env : Env) (p : Ops) :
    sqlMeaning Θ ec cfg (Env.rename ρc ρt env) (p.ren ρc ρt)
      = (sqlMeaning Θ ec cfg env p).map (Table.rename ρc) := by
  have h := Ren.toNearSql_ren cfg hc ht p
  unfold sqlMeaning
  cases h' : toNearSql cfg (p.ren ρc ρt) with
  | error e' =>
    cases h0 : toNearSql cfg p with
    | error e => rw [h', h0] at h; cases h; rfl
    | ok n => rw [h', h0] at h; cases h
  | ok n' =>
    cases h0 : toNearSql cfg p with
    | error e => rw [h', h0] at h; cases h
    | ok n =>
      rw [h', h0] at h
      simp only [Except.map, Except.ok.injEq] at h
      show semSql Θ ec (Env.rename ρc ρt env) n' = (semSql Θ ec env n).map (Table.rename ρc)
      rw [Ren.semSql_congr_eraseKeys Θ ec _ h, Ren.semSql_ren Θ ec hc ht env n]

/-- the same for renamings that are injective on the names involved only: the result is renamed by an injective
renaming that agrees with `ρc` on all names involved -/
theorem C15_sql_sem_equivariant_on (Θ : Interp) (ec : EngineCfg) (cfg : SqlCfg) {ρc : ColRen} {ρt : TabRen}
    (env : Env) (p : Ops) (hc : InjOn ρc (names p env)) (ht : InjOn ρt (tabNames p env)) :
    ∃ ρc' : ColRen, Injective ρc' ∧ (∀ c ∈ names p env, ρc' c = ρc c) ∧
      sqlMeaning Θ ec cfg (Env.rename ρc ρt env) (p.ren ρc ρt)
        = (sqlMeaning Θ ec cfg env p).map (Table.rename ρc') := by
  obtain ⟨ρc', hc', ec'⟩ := Ren.exists_injective_ext hc
  obtain ⟨ρt', ht', et'⟩ := Ren.exists_injective_ext ht
  refine ⟨ρc', hc', ec', ?_⟩
  have h1 : p.ren ρc ρt = p.ren ρc' ρt' :=
    Ren.Ops.ren_congr p (fun c h => (ec' c (List.mem_append_left _ h)).symm)
      (fun n h => (et' n (List.mem_append_left _ h)).symm)
  have h2 : Env.rename ρc ρt env = Env.rename ρc' ρt' env :=
    Ren.Env.rename_congr env (fun c h => (ec' c (List.mem_append_right _ h)).symm)
      (fun n h => (et' n (List.mem_append_right _ h)).symm)
  rw [h1, h2]
  exact C15_sql_sem_equivariant Θ ec cfg hc' ht' env p

/-! ## Part 3: the reserved names and the guard of the known findings D23 / D24

The full-strength statement of the property for the *real* executors and the real SQL text would be the theorems above
without any condition on the target names.  They hold of the models; the real Pandas / Polars executors write scratch
columns into the user's frame and the real WITH-form SQL text does not distinguish a base table from a common table
expression of the same name, so on the real code the property only holds under the guard

    NoReserved ρc ρt p env   (no renamed column is a scratch name, no renamed table a generated query name).

The guard is decidable and computed by the driver with this definition.  The violations outside the guard are
confirmed on the real code by the witnesses `corpus/C15/*.json` (known findings `D23-scratch-column-names`,
`D24-generated-cte-names`); they cannot be stated as `…_necessary` theorems about `sem` / `semSql`, precisely because
these models are equivariant (theorems above). -/

/-- scratch names of every kind of DESIGN A.5 (fixed, numbered, suffixed) are recognised, ordinary names are not -/
theorem C15_reserved_names_recognised :
    Reserved.isReservedCol "_data_table_temp_col" = true ∧ Reserved.isReservedCol "x_tmp_right_col" = true
    ∧ Reserved.isReservedCol "_da_extend_temp_v_column_12" = true ∧ Reserved.isReservedTable "extend_0" = true
    ∧ Reserved.isReservedCol "x" = false ∧ Reserved.isReservedTable "extend_x" = false := by
  decide +kernel

/-- the guard only looks at the names involved: renamings that agree on them have the same guard -/
theorem C15_NoReserved_congr {ρc ρc' : ColRen} {ρt ρt' : TabRen} (p : Ops) (env : Env)
    (ec : ∀ c ∈ names p env, ρc' c = ρc c) (et : ∀ n ∈ tabNames p env, ρt' n = ρt n) :
    NoReserved ρc' ρt' p env = NoReserved ρc ρt p env := by
  have all_congr : ∀ (l : List String) (f g : String → Bool), (∀ a ∈ l, f a = g a) → l.all f = l.all g := by
    intro l f g h
    induction l with
    | nil => rfl
    | cons a l ih =>
      simp only [List.all_cons, h a (List.mem_cons_self ..), ih (fun b hb => h b (List.mem_cons_of_mem _ hb))]
  unfold NoReserved
  rw [all_congr (names p env) _ _ (fun c hc => by rw [ec c hc]),
    all_congr (tabNames p env) _ _ (fun n hn => by rw [et n hn])]

/-! ## Part 4: the WITH form and the generated query names (finding D24)

In WITH form the generated query names become names of common table expressions.  The model `semWith` keeps references
to base tables and to common table expressions apart and is as indifferent to names as the nested form; the SQL *text*
is not: `semWithText` (Spec/WithText.lean) resolves an identifier in a FROM clause to a common table expression of that
name first, as the engines do.  Under the guard "no base table is named like a common table expression of the query"
both meanings coincide (so everything proved about the model's SQL meaning transfers to the text); outside the guard
the text-level meaning is **not** equivariant: renaming the second input table of a join to `extend_1` makes the second
sub-query read the first one's rows.  This is finding D24 as the real library shows it
(`corpus/C15/d24_cte_captures_other_table.json`: silently wrong rows on SQLite). -/

/-- **C15, WITH form, under the guard.**  When no base table read by the WITH form of `p` is named like one of its
common table expressions (`CteNamesFree`, decidable; this is what `NoReservedTables` is for: the generator only invents
names of the reserved shapes - that implication is not proved here), the text-level meaning of the WITH query is the
model's. -/
theorem C15_with_text_partial (Θ : Interp) (ec : EngineCfg) (cfg : SqlCfg) (env : Env) (p : Ops)
    (h : ∀ ls, withFormOf cfg p = .ok ls → CteNamesFree ls.2 ls.1 = true) :
    withTextMeaning Θ ec cfg env p = withMeaning Θ ec cfg env p := by
  unfold withTextMeaning withMeaning
  cases hw : withFormOf cfg p with
  | error e => rfl
  | ok ls => exact Ren.semWithText_eq_semWith Θ ec env ls.2 ls.1 (h ls hw)

/-- **C15, WITH form, model.**  The model's meaning of the WITH form of a pipeline (no CTE elimination) is equivariant
under every injective renaming, like the nested form: the names of the common table expressions are the same on both
sides and never meet the table names. -/
theorem C15_with_equivariant (Θ : Interp) (ec : EngineCfg) (cfg : SqlCfg) {ρc : ColRen} {ρt : TabRen}
    (hc : Injective ρc) (ht : Injective ρt) (env : Env) (p : Ops) :
    withMeaning Θ ec cfg (Env.rename ρc ρt env) (p.ren ρc ρt)
      = (withMeaning Θ ec cfg env p).map (Table.rename ρc) :=
  Ren.withMeaning_ren Θ ec cfg hc ht env p

/-- **C15, WITH form, text level, under the guard (D24).**  When neither the original nor the renamed pipeline reads a
base table that is named like one of its common table expressions, the text-level meaning of the WITH query is
equivariant. -/
theorem C15_with_text_equivariant_partial (Θ : Interp) (ec : EngineCfg) (cfg : SqlCfg) {ρc : ColRen} {ρt : TabRen}
    (hc : Injective ρc) (ht : Injective ρt) (env : Env) (p : Ops)
    (hg : ∀ ls, withFormOf cfg p = .ok ls → CteNamesFree ls.2 ls.1 = true)
    (hg' : ∀ ls, withFormOf cfg (p.ren ρc ρt) = .ok ls → CteNamesFree ls.2 ls.1 = true) :
    withTextMeaning Θ ec cfg (Env.rename ρc ρt env) (p.ren ρc ρt)
      = (withTextMeaning Θ ec cfg env p).map (Table.rename ρc) := by
  rw [C15_with_text_partial Θ ec cfg _ _ hg', C15_with_text_partial Θ ec cfg _ _ hg]
  exact C15_with_equivariant Θ ec cfg hc ht env p

namespace D24
def d : Ops := .table "d" ["g", "x"]
/-- `d` extended by `q = x * 2`, joined on `g` with the table `tn` extended by `r = x * 3` -/
def p (tn : String) : Ops :=
  .join (.extend d [("q", .app "*" [.col "x", .value (.int 2)] true false)] [] [] [] false)
    (.selectCols (.extend (.table tn ["g", "x"]) [("r", .app "*" [.col "x", .value (.int 3)] true false)] [] [] [] false)
      ["g", "r"])
    ["g"] ["g"] .inner
def env : Env :=
  [("d", ⟨["g", "x"], [[("g", .num 1), ("x", .num 10)]]⟩), ("e", ⟨["g", "x"], [[("g", .num 1), ("x", .num 100)]]⟩)]
def ρt : TabRen := fun s => if s = "e" then "extend_1" else s

/-- the two common table expressions and the final query `to_with_form` produces for `p tn` -/
def s1 : Near := .unary "extend_1" (some [("g", .pass), ("x", .pass),
    ("q", .expr (.app "*" [.col "x", .value (.int 2)] true false) none)]) false (.table "d" ["g", "x"])
    (some ["g", "x"]) .none true (some [("g", ["g"]), ("x", ["x"]), ("q", ["x"])]) none
def s2 (tn : String) : Near := .unary "extend_2" (some [("g", .pass),
    ("r", .expr (.app "*" [.col "x", .value (.int 3)] true false) none)]) false (.table tn ["g", "x"])
    (some ["g", "x"]) .none true (some [("g", ["g"]), ("r", ["x"])]) none
def jterms : Terms := [("g", .coalesce true "g"), ("x", .qual true "x"), ("q", .qual true "q"), ("r", .qual false "r")]
def q0 (tn : String) : Near :=
  .join "natural_join_0" jterms s1 ["g", "x", "q"] "join_source_left_0" (s2 tn) ["g", "r"] "join_source_right_0"
    .inner ["g"] ["g"] none
def last0 : Near :=
  .join "natural_join_0" jterms (.cte "extend_1") ["g", "x", "q"] "join_source_left_0" (.cte "extend_2") ["g", "r"]
    "join_source_right_0" .inner ["g"] ["g"] none
def steps0 (tn : String) : List WithStep :=
  [⟨"extend_1", s1, some ["g", "x", "q"], false⟩, ⟨"extend_2", s2 tn, some ["g", "r"], false⟩]

theorem toWithForm_q0 (tn : String) : toWithForm none (q0 tn) = (last0, steps0 tn, none) := by
  simp [q0, s1, s2, last0, steps0, toWithForm, withStub, Near.isTable, Near.name, appendUnseen]

theorem near_orig : (toNearSql .sqlite (p "e")).map Near.eraseKeys = .ok (q0 "e") := by rfl
theorem near_ren : (toNearSql .sqlite ((p "e").ren id ρt)).map Near.eraseKeys = .ok (q0 "extend_1") := by rfl

theorem withForm_of_near {cfg : SqlCfg} {pp : Ops} {tn : String}
    (h : (toNearSql cfg pp).map Near.eraseKeys = .ok (q0 tn)) : withFormOf cfg pp = .ok (last0, steps0 tn) := by
  unfold withFormOf
  cases hq : toNearSql cfg pp with
  | error e => rw [hq] at h; cases h
  | ok q =>
    rw [hq] at h
    simp only [Except.map, Except.ok.injEq] at h ⊢
    rw [h, toWithForm_q0]

/-- the original names satisfy the guard, the renamed ones do not -/
example : CteNamesFree (steps0 "e") last0 = true := by decide +kernel
example : CteNamesFree (steps0 "extend_1") last0 = false := by decide +kernel
end D24

/-- **The guard is necessary (D24).**  With the text-level meaning of the WITH form, the pipeline `D24.p "e"` computes
`r = 300` from the table `e`; after renaming `e` to `extend_1` (an injective renaming of the tables, columns untouched)
it computes `r = 30`: the second sub-query reads the common table expression `extend_1` - the first sub-query -
instead of the user's table. -/
theorem C15_D24_guard_necessary :
    (withTextMeaning ThetaSql.concrete .sqlite .sqlite D24.env (D24.p "e")).toOption.map (·.column "r")
        = some [.num 300]
    ∧ (withTextMeaning ThetaSql.concrete .sqlite .sqlite (Env.rename id D24.ρt D24.env)
        ((D24.p "e").ren id D24.ρt)).toOption.map (·.column "r") = some [.num 30] := by
  unfold withTextMeaning
  rw [D24.withForm_of_near D24.near_orig, D24.withForm_of_near D24.near_ren]
  constructor <;> decide +kernel

/-- hence the text-level meaning is not equivariant, although the renaming is injective -/
theorem C15_with_text_not_equivariant :
    ¬ (withTextMeaning ThetaSql.concrete .sqlite .sqlite (Env.rename id D24.ρt D24.env) ((D24.p "e").ren id D24.ρt)
        = (withTextMeaning ThetaSql.concrete .sqlite .sqlite D24.env (D24.p "e")).map (Table.rename id)) := by
  intro h
  have h2 := C15_D24_guard_necessary
  rw [h] at h2
  obtain ⟨ha, hb⟩ := h2
  cases hx : withTextMeaning ThetaSql.concrete .sqlite .sqlite D24.env (D24.p "e") with
  | error e => rw [hx] at ha; cases ha
  | ok t =>
    rw [hx] at ha hb
    have hcol : (Table.rename id t).column "r" = t.column "r" := by
      simp only [Table.column, Table.rename, Row.renameCols, List.map_map]
      apply List.map_congr_left
      intro r _
      exact Ren.Row.get_rename (f := id) (fun _ _ h => h) r "r"
    simp only [Except.map, Except.toOption, Option.map_some, hcol, Option.some.injEq] at ha hb
    rw [ha] at hb
    exact absurd hb (by decide)

/-! ## Non-vacuity: a concrete pipeline, concrete tables, a renaming onto reserved names -/
namespace C15Ex

/-- the driver's concrete interpretation; a record transform just selects the columns it declares -/
def Θc : Interp := Theta.concrete (fun rm t => .ok (t.selectCols rm.produced))

theorem convert_equivariant : Ren.ConvertEquivariant Θc := by
  intro ρ hρ rm t
  simp only [Θc, Theta.concrete, RecMap.rename, Except.map, Ren.Table.selectCols_rename hρ]

theorem convert_ok : ConvertOK Θc := by
  intro rm t t' h
  simp only [Θc, Theta.concrete, Except.ok.injEq] at h
  subst h
  exact ⟨rfl, Table.wf_selectCols _ _⟩

def ra : Row := [("g", .num 1), ("o", .num 1), ("x", .num 10)]
def rb : Row := [("g", .num 1), ("o", .num 2), ("x", .num 20)]
def rc : Row := [("g", .num 2), ("o", .num 1), ("x", .null)]
def env : Env := [("d", ⟨["g", "o", "x"], [ra, rb, rc]⟩)]
def d : Ops := .table "d" ["g", "o", "x"]

/-- a running sum per group `g` in the order of `o`, joined with the group sizes -/
def p1 : Ops :=
  .join (.extend d [("c", .app "cumsum" [.col "x"] false true)] ["g"] ["o"] [] true)
    (.project d [("n", .app "size" [] false true)] ["g"]) ["g"] ["g"] .left

/-- a renaming onto names the system uses itself: the group column becomes the Pandas project scratch column, `x` takes
the old name of `g`, `o` becomes a join suffix name, `c` a Polars scratch name; the table becomes `extend_0` -/
def ρ : ColRen := fun s =>
  if s = "g" then "_data_table_temp_col" else if s = "x" then "g" else if s = "o" then "x_tmp_right_col"
  else if s = "c" then "_da_temp_one_column" else s
def ρt : TabRen := fun s => if s = "d" then "extend_0" else s

/-- the renaming is injective on the names involved (it is not injective globally) … -/
theorem ρ_injOn : InjOn ρ (names p1 env) := by decide +kernel
theorem ρt_injOn : InjOn ρt (tabNames p1 env) := by decide +kernel
example : ¬ Injective ρ := fun h => absurd (h (a₁ := "g") (a₂ := "_data_table_temp_col") (by decide)) (by decide)

/-- … and violates the guard of the known findings, while the identity satisfies it -/
example : NoReserved ρ ρt p1 env = false := by decide +kernel
example : NoReserved id id d [("d", ⟨["g"], []⟩)] = true := by decide +kernel
example : NoReservedTables ρt p1 env = false := by decide +kernel

/-- the executor theorem applies (both configurations) … -/
example (cfg : SemCfg) :
    sem Θc cfg (Env.rename ρ ρt env) (p1.ren ρ ρt) = (sem Θc cfg env p1).map (Table.rename ρ) :=
  C15_sem_equivariant_on Θc convert_equivariant convert_ok cfg env p1 ρ_injOn ρt_injOn

/-- … and is about a successful evaluation: three joined rows with the renamed columns -/
example : ∃ t, sem Θc .pandas env p1 = .ok t ∧ t.cols = ["g", "o", "x", "c", "n"] ∧ t.rows.length = 3 :=
  ⟨_, rfl, by decide, by decide⟩
example : ∃ t, sem Θc .pandas (Env.rename ρ ρt env) (p1.ren ρ ρt) = .ok t ∧
    t.cols = ["_data_table_temp_col", "x_tmp_right_col", "g", "_da_temp_one_column", "n"] ∧ t.rows.length = 3 :=
  ⟨_, rfl, by decide, by decide⟩

/-- the SQL theorem applies to the same renaming: the user table is now called `extend_0`, like the first generated
query … -/
example : ∃ ρc', Injective ρc' ∧ (∀ c ∈ names p1 env, ρc' c = ρ c) ∧
    sqlMeaning ThetaSql.concrete .sqlite .sqlite (Env.rename ρ ρt env) (p1.ren ρ ρt)
      = (sqlMeaning ThetaSql.concrete .sqlite .sqlite env p1).map (Table.rename ρc') :=
  C15_sql_sem_equivariant_on ThetaSql.concrete .sqlite .sqlite env p1 ρ_injOn ρt_injOn

/-- … whose names the translation of `p1` indeed uses -/
example : (toNearSql .sqlite p1).map Near.names
    = .ok ["natural_join_0", "extend_1", "project_3", "table_reference_2"] := by rfl

/-- a renaming that is injective everywhere: prefixing -/
theorem prefix_injective (pre : String) : Injective (fun s => pre ++ s) := by
  intro a b h
  have := congrArg String.toList h
  simp only [String.toList_append] at this
  exact String.toList_inj.mp (List.append_cancel_left this)

example (cfg : SemCfg) (e : Env) (p : Ops) :
    sem Θc cfg (Env.rename ("_da_" ++ ·) ("extend_" ++ ·) e) (p.ren ("_da_" ++ ·) ("extend_" ++ ·))
      = (sem Θc cfg e p).map (Table.rename ("_da_" ++ ·)) :=
  C15_sem_equivariant Θc convert_equivariant cfg (prefix_injective _) (prefix_injective _) e p

end C15Ex
end DAVerif
