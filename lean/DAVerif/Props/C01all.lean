import DAVerif.Proofs.SqlReach
import DAVerif.Proofs.SqlAllTrans
import DAVerif.Props.C04merge
import DAVerif.Props.C01joins
/-!
# C01 / C02 / C08 / C16 — the SQL translation theorems for the fragment with `natural_join` and `concat_rows`, for **every** dialect configuration

Property theorems only.  `Props/C01joins.lean` states these theorems for `cfg.merges = false`
(`allow_extend_merges` off), `Props/C04merge.lean` states the unary fragment for every `cfg`.  Here: fragment
`Sql.InFragJ` (everything but `convert_records`), **every** `cfg : SqlCfg` – extend merges on or off, generic dialect or
SQLite –, nested form, both engines' NULL placement, one interpretation `Θ` on both sides.  The hypothesis
`cfg.merges = false` is gone; scope and reference semantics are those of `Props/C01joins.lean`
(`Sql.Good cfg env p`: `InFragJ`, `WF`, `SqlWF`, `MapsOK`, `JoinWF`, `JoinTypesSql`, `JoinsNative cfg`, `LabelSidesPlain`,
`EnvOK false`; reference = `sem Θ SemCfg.ref`, standard SQL joins).

What the combination needs (proof: `Proofs/SqlAllTrans.lean`): a join / `UNION ALL` step is never `mergeable`, so an
`extend` above a join or a `concat_rows` always starts a new step, into which further compatible extends are merged;
the label step `extend({id: "name"})` that `concat_rows(id_column=…)` puts on each side by a builder call is translated
by the extend case of the generator, hence **may be merged into the side's own extend step** (plain or windowed) when
`cfg.merges` – covered by `transOK_extend_merge` on the side.

* `C01_engine_order_all` – stage A (list equality against `semE ec`), no hypothesis on data / `Θ`.
* `C01_translation_sound_all` (+ `_generic`, `_sqlite`, `_reachable`) – multiset equality against `sem`, C18 scope.
* `C01_translation_exact_all` – list equality under `OrdersNullFree`.
* `C08_sql_cols_all`, `C09_sql_row_count_all` – exactly the declared columns / as many rows, unconditional.
* `C16_sql_native_all`, `C16_diffkeys_sql_all`, `C16_sqlite_right_as_left_all` – the join theorems.
* `C04_merge_option_sound_all`, `C04_merge_invariant_all` – the merge option never changes the result, also with
  joins and `concat_rows` in the pipeline.
* non-vacuity (`C01AllEx`): a join below two extends that merge into **one** step over the join; a labelled
  `concat_rows` whose label steps are merged into the sides' windowed / plain extend steps – evaluated concretely.
-/
namespace DAVerif
open DAVerif.Sql

/-! ## 1. Stage A -/

/-- **C01/C02, stage A, joins and `concat_rows`, every dialect configuration.**  For every pipeline `p` in scope
(`Good cfg env p`), every `Θ`, both engines, `allow_extend_merges` on or off: if `to_sql` produces the query `q`, then
`q` evaluates, its result has exactly the declared column set, and its rows restricted to the declared columns are
**exactly, in order** the rows of the table `p` denotes under the engine's NULL placement and the standard SQL join
semantics.  No hypothesis on data or `Θ`. -/
theorem C01_engine_order_all (Θ : Interp) (ec : EngineCfg) (env : Env) (cfg : SqlCfg)
    (p : Ops) (hg : Good cfg env p) {q : Near} (h : toNearSql cfg p = .ok q) :
    ∃ T tp, semSql Θ ec env q = .ok T ∧ semE ec Θ SemCfg.ref env p = .ok tp ∧ tp.cols = p.cols ∧
      (∀ c, c ∈ T.cols ↔ c ∈ p.cols) ∧ T.rows.map (fun r => r.select p.cols) = tp.rows := by
  obtain ⟨st', hrun⟩ := toNearSql_ok h
  obtain ⟨tp, htp⟩ := semG_ok_fragJ (sqlRowLe ec) Θ SemCfg.ref env p hg.frag false hg.env
  obtain ⟨T, h1, h2, h4⟩ := SqlE.stageA_root_all Θ ec env cfg p hg hrun htp
  exact ⟨T, tp, h1, htp, (semG_cols_wf_fragJ _ Θ SemCfg.ref env p hg.frag tp htp).1, h2, h4⟩

/-! ## 2. Against the reference semantics -/

/-- **C01_translation_sound_all.**  Fragment = unary ∪ `natural_join` ∪ `concat_rows`, **every** dialect
configuration `cfg` for which the pipeline's joins are rendered natively (`Good` contains `JoinsNative cfg p`), extend
merges on or off.  Within the scope of C18 (order-free aggregates, total window orders, clean limit cuts) and
`SqlScope` (null-free order columns at ordered windows and at `order_rows` with limit): the query `to_sql` produces
evaluates, the reference semantics evaluates, and the two tables have the **same column set and the same multiset of
rows**. -/
theorem C01_translation_sound_all (Θ : Interp) (ec : EngineCfg) (env : Env) (cfg : SqlCfg)
    (p : Ops) (hg : Good cfg env p) (hA : AggsOrderFree Θ p) (hW : WindowsTotal Θ SemCfg.ref env p)
    (hS : SqlScope Θ SemCfg.ref env p) {q : Near} (h : toNearSql cfg p = .ok q) :
    ∃ T t, semSql Θ ec env q = .ok T ∧ sem Θ SemCfg.ref env p = .ok t ∧ t.cols = p.cols ∧ T.EquivS t := by
  obtain ⟨T, tp, h1, h2, h3, h4, h6⟩ := C01_engine_order_all Θ ec env cfg p hg h
  have hB := sem_equiv_semE_fragJ ec Θ SemCfg.ref env p hg.frag hA hW hS
  rw [h2] at hB
  cases hs : sem Θ SemCfg.ref env p with
  | error e => rw [hs] at hB; exact hB.elim
  | ok t =>
    rw [hs] at hB
    have heq : t ≈ tp := hB
    have hc : t.cols = p.cols := heq.1.trans h3
    refine ⟨T, t, h1, rfl, hc, ?_, ?_⟩
    · intro c; rw [hc]; exact h4 c
    · rw [hc, h6]; exact heq.2.symm

/-- **generic dialect** (native RIGHT / FULL joins; PostgreSQL, …), extend merges on or off: all five SQL join types -/
theorem C01_translation_sound_all_generic (Θ : Interp) (ec : EngineCfg) (env : Env) (cfg : SqlCfg)
    (hgen : cfg.emulateRightFull = false) (p : Ops)
    (hf : InFragJ p = true) (hwf : WF p) (hsq : SqlWF p) (hmp : MapsOK p) (hj : JoinWF p) (ht : JoinTypesSql p)
    (hl : LabelSidesPlain p) (he : EnvOK false env p)
    (hA : AggsOrderFree Θ p) (hW : WindowsTotal Θ SemCfg.ref env p) (hS : SqlScope Θ SemCfg.ref env p)
    {q : Near} (h : toNearSql cfg p = .ok q) :
    ∃ T t, semSql Θ ec env q = .ok T ∧ sem Θ SemCfg.ref env p = .ok t ∧ t.cols = p.cols ∧ T.EquivS t :=
  C01_translation_sound_all Θ ec env cfg p (Good.of_generic hgen hf hwf hsq hmp hj ht hl he) hA hW hS h

/-- **SQLite dialect** (`emulateRightFull = true`), extend merges on or off: pipelines whose joins are INNER, LEFT or
CROSS (`JoinsNative`); for RIGHT / FULL joins anywhere in the pipeline see `Props/C16nested.lean`. -/
theorem C01_translation_sound_all_sqlite (Θ : Interp) (ec : EngineCfg) (env : Env) (cfg : SqlCfg)
    (_hemu : cfg.emulateRightFull = true) (p : Ops)
    (hf : InFragJ p = true) (hwf : WF p) (hsq : SqlWF p) (hmp : MapsOK p) (hj : JoinWF p) (ht : JoinTypesSql p)
    (hn : JoinsNative cfg p) (hl : LabelSidesPlain p) (he : EnvOK false env p)
    (hA : AggsOrderFree Θ p) (hW : WindowsTotal Θ SemCfg.ref env p) (hS : SqlScope Θ SemCfg.ref env p)
    {q : Near} (h : toNearSql cfg p = .ok q) :
    ∃ T t, semSql Θ ec env q = .ok T ∧ sem Θ SemCfg.ref env p = .ok t ∧ t.cols = p.cols ∧ T.EquivS t :=
  C01_translation_sound_all Θ ec env cfg p ⟨hf, hwf, hsq, hmp, hj, ht, hn, hl, he⟩ hA hW hS h

/-- **for pipelines built by the builders**: `Reachable p` replaces `WF`, `SqlWF` and `JoinWF` -/
theorem C01_translation_sound_all_reachable (Θ : Interp) (ec : EngineCfg) (env : Env) (cfg : SqlCfg)
    (p : Ops) (hr : Reachable p) (hf : InFragJ p = true) (hmp : MapsOK p)
    (ht : JoinTypesSql p) (hn : JoinsNative cfg p) (hl : LabelSidesPlain p) (he : EnvOK false env p)
    (hA : AggsOrderFree Θ p) (hW : WindowsTotal Θ SemCfg.ref env p) (hS : SqlScope Θ SemCfg.ref env p)
    {q : Near} (h : toNearSql cfg p = .ok q) :
    ∃ T t, semSql Θ ec env q = .ok T ∧ sem Θ SemCfg.ref env p = .ok t ∧ t.cols = p.cols ∧ T.EquivS t :=
  C01_translation_sound_all Θ ec env cfg p
    ⟨hf, C26_reachable_wf hr, C01_reachable_sqlwf hr, hmp, C16_reachable_joinwf hr, ht, hn, hl, he⟩ hA hW hS h

/-- **Strong scope: list equality, every dialect configuration.**  With null-free order columns at every `order_rows`
and ordered window the SQL result and the reference result have the same rows in the same order – joins,
`concat_rows` and extend merges included, any `Θ`. -/
theorem C01_translation_exact_all (Θ : Interp) (ec : EngineCfg) (env : Env) (cfg : SqlCfg)
    (p : Ops) (hg : Good cfg env p) (hN : OrdersNullFree Θ SemCfg.ref env p) {q : Near} (h : toNearSql cfg p = .ok q) :
    ∃ T t, semSql Θ ec env q = .ok T ∧ sem Θ SemCfg.ref env p = .ok t ∧ t.cols = p.cols ∧ T.EqS t := by
  obtain ⟨T, tp, h1, h2, h3, h4, h6⟩ := C01_engine_order_all Θ ec env cfg p hg h
  rw [semE_eq_sem_of_nullFree ec Θ SemCfg.ref env p hN] at h2
  refine ⟨T, tp, h1, h2, h3, ?_, ?_⟩
  · intro c; rw [h3]; exact h4 c
  · rw [h3]; exact h6

/-- **C08 with joins, every dialect configuration**: the SQL result has exactly the declared column set –
unconditionally (no hypothesis on data or `Θ`) -/
theorem C08_sql_cols_all (Θ : Interp) (ec : EngineCfg) (env : Env) (cfg : SqlCfg)
    (p : Ops) (hg : Good cfg env p) {q : Near} (h : toNearSql cfg p = .ok q) :
    ∃ T, semSql Θ ec env q = .ok T ∧ ∀ c, c ∈ T.cols ↔ c ∈ p.cols := by
  obtain ⟨T, _, h1, _, _, h4, _⟩ := C01_engine_order_all Θ ec env cfg p hg h
  exact ⟨T, h1, h4⟩

/-- **C09 with joins, every dialect configuration**: as many rows as the pipeline's table -/
theorem C09_sql_row_count_all (Θ : Interp) (ec : EngineCfg) (env : Env) (cfg : SqlCfg)
    (p : Ops) (hg : Good cfg env p) {q : Near} (h : toNearSql cfg p = .ok q) :
    ∃ T tp, semSql Θ ec env q = .ok T ∧ semE ec Θ SemCfg.ref env p = .ok tp ∧ T.rows.length = tp.rows.length := by
  obtain ⟨T, tp, h1, h2, _, _, h6⟩ := C01_engine_order_all Θ ec env cfg p hg h
  refine ⟨T, tp, h1, h2, ?_⟩
  have := congrArg List.length h6
  simpa using this

/-! ## 3. C16 -/

/-- **C16_sql_native_all.**  A join the dialect renders natively – on the generic dialect all five SQL join types –
over two pipelines of the fragment, extend merges on or off: the SQL returns, row by row **in order**, the reference
join `semJoin SemCfg.ref` of the two sides' tables, on exactly the columns of the two sides. -/
theorem C16_sql_native_all (Θ : Interp) (ec : EngineCfg) (env : Env) (cfg : SqlCfg)
    (a b : Ops) (onA onB : List String) (jt : JoinType) (hg : Good cfg env (.join a b onA onB jt))
    {q : Near} (h : toNearSql cfg (.join a b onA onB jt) = .ok q) :
    ∃ T ta tb, semSql Θ ec env q = .ok T ∧ semE ec Θ SemCfg.ref env a = .ok ta ∧ semE ec Θ SemCfg.ref env b = .ok tb ∧
      (∀ c, c ∈ T.cols ↔ c ∈ a.cols ∨ c ∈ b.cols) ∧
      T.rows.map (fun r => r.select (Ops.join a b onA onB jt).cols) =
        ((semJoin SemCfg.ref jt onA onB ta tb (appendNew a.cols b.cols)).selectCols (Ops.join a b onA onB jt).cols).rows := by
  obtain ⟨T, tp, h1, h2, _, h4, h6⟩ := C01_engine_order_all Θ ec env cfg _ hg h
  obtain ⟨ta, tb, hta, htb, rfl⟩ := semG_join_ok h2
  exact ⟨T, ta, tb, h1, hta, htb, fun c => (h4 c).trans (mem_joinNodeCols a b onA onB jt c), h6⟩

/-- **C16_diffkeys_sql_all.**  Differently named join keys: both key columns are kept, every dialect configuration. -/
theorem C16_diffkeys_sql_all (Θ : Interp) (ec : EngineCfg) (env : Env) (cfg : SqlCfg)
    (a b : Ops) (onA onB : List String) (jt : JoinType) (hg : Good cfg env (.join a b onA onB jt))
    {q : Near} (h : toNearSql cfg (.join a b onA onB jt) = .ok q) :
    ∃ T ta tb, semSql Θ ec env q = .ok T ∧ semE ec Θ SemCfg.ref env a = .ok ta ∧ semE ec Θ SemCfg.ref env b = .ok tb ∧
      (∀ c ∈ onA ++ onB, c ∈ T.cols) ∧
      T.rows.map (fun r => r.select (Ops.join a b onA onB jt).cols) =
        ((semJoin SemCfg.ref jt onA onB ta tb (appendNew a.cols b.cols)).selectCols (Ops.join a b onA onB jt).cols).rows := by
  obtain ⟨T, ta, tb, h1, h2, h3, h4, h5⟩ := C16_sql_native_all Θ ec env cfg a b onA onB jt hg h
  refine ⟨T, ta, tb, h1, h2, h3, ?_, h5⟩
  have hj := hg.jwf
  simp only [JoinWF, joinWFb, Bool.and_eq_true, subset_iff] at hj
  intro c hc
  rcases List.mem_append.mp hc with hc | hc
  · exact (h4 c).mpr (Or.inl (hj.1.2 c hc))
  · exact (h4 c).mpr (Or.inr (hj.2 c hc))

/-- **C16_sqlite_right_as_left_all.**  SQLite's RIGHT join (LEFT join of the swapped sources, `COALESCE(second,
first)`) at the root of a pipeline over two pipelines of the fragment, **extend merges on or off**, every data: the
SQL evaluates, has exactly the columns of the two sides, and returns the rows of the reference RIGHT join as a
multiset. -/
theorem C16_sqlite_right_as_left_all (Θ : Interp) (ec : EngineCfg) (env : Env) (cfg : SqlCfg)
    (hemu : cfg.emulateRightFull = true) (a b : Ops) (onA onB : List String)
    (hga : Good cfg env a) (hgb : Good cfg env b) (hoa : ∀ c ∈ onA, c ∈ a.cols) (hob : ∀ c ∈ onB, c ∈ b.cols)
    (hlen : onA.length = onB.length) {q : Near} (h : toNearSql cfg (.join a b onA onB .right) = .ok q) :
    ∃ T ta tb, semSql Θ ec env q = .ok T ∧ semE ec Θ SemCfg.ref env a = .ok ta ∧ semE ec Θ SemCfg.ref env b = .ok tb ∧
      (∀ c, c ∈ T.cols ↔ c ∈ a.cols ∨ c ∈ b.cols) ∧
      (T.rows.map (fun r => r.select (Ops.join a b onA onB .right).cols)).Perm
        ((semJoin SemCfg.ref .right onA onB ta tb (appendNew a.cols b.cols)).selectCols
          (Ops.join a b onA onB .right).cols).rows := by
  obtain ⟨st', hrun⟩ := toNearSql_ok h
  have hfr : InFragJ (.join a b onA onB .right) = true := by simp [InFragJ, hga.frag, hgb.frag]
  rw [toNear_none_eq_ju _ _ _ hfr] at hrun
  obtain ⟨ta, hta⟩ := semG_ok_fragJ (sqlRowLe ec) Θ SemCfg.ref env a hga.frag false hga.env
  obtain ⟨tb, htb⟩ := semG_ok_fragJ (sqlRowLe ec) Θ SemCfg.ref env b hgb.frag false hgb.env
  have hsem : semE ec Θ SemCfg.ref env (.join a b onA onB .right) =
      .ok ((semJoin SemCfg.ref .right onA onB ta tb (appendNew a.cols b.cols)).selectCols
        (Ops.join a b onA onB .right).cols) := by
    simp only [semG, hta, htb]; rfl
  have hle : onA.isEmpty = onB.isEmpty := by
    cases onA <;> cases onB <;> simp_all
  have hwf : WF (.join a b onA onB .right) := ⟨hga.wf, hgb.wf⟩
  have hfuel : 6 * (Ops.join a b onA onB .right).size + 6 = (6 * (Ops.join a b onA onB .right).size + 5) + 1 := rfl
  rw [hfuel] at hrun
  obtain ⟨hju, u₁, hu₁, _, hsound⟩ :=
    transOK_join_sqlite_right (G := fun q => q.isJU = true) (fun _ h => h) _ a b onA onB hemu hoa hob hle
      (fun t ht => (semG_cols_wf_fragJ _ Θ SemCfg.ref env a hga.frag t ht).1)
      (fun t ht => (semG_cols_wf_fragJ _ Θ SemCfg.ref env b hgb.frag t ht).1)
      (SqlE.transOK_fragJ_all Θ ec env cfg a.size a (Nat.le_refl _) hga _).1
      (SqlE.transOK_fragJ_all Θ ec env cfg b.size b (Nat.le_refl _) hgb _).1
      _ 0 q st' _ (fun c hc => hc) hrun hsem
  obtain ⟨T, t1, t2, t3⟩ := root_of_soundP hsound hju hu₁ hwf.cols_ne_nil
  refine ⟨T, ta, tb, t1, hta, htb, fun c => (t2 c).trans (mem_joinNodeCols a b onA onB .right c), ?_⟩
  refine t3.trans ?_
  simp only [Table.selectCols]
  rw [select_map_select _ (fun c hc => hc)]

/-! ## 4. C04 with joins and `concat_rows` -/

/-- **C04_merge_option_sound_all.**  For every pipeline of the fragment with joins and `concat_rows` in scope: if
`to_sql` succeeds with `allow_extend_merges = True` (query `q₁`) and with `allow_extend_merges = False` (query `q₂`),
both queries evaluate, to tables with the declared column set and **the same rows in the same order**.  No
hypothesis on the data, on `Θ` or on NULL placement. -/
theorem C04_merge_option_sound_all (Θ : Interp) (ec : EngineCfg) (env : Env) (cfg : SqlCfg)
    (p : Ops) (hg : Good cfg env p)
    {q₁ q₂ : Near} (h₁ : toNearSql { cfg with merges := true } p = .ok q₁)
    (h₂ : toNearSql { cfg with merges := false } p = .ok q₂) :
    ∃ T₁ T₂, semSql Θ ec env q₁ = .ok T₁ ∧ semSql Θ ec env q₂ = .ok T₂ ∧
      (∀ c, c ∈ T₁.cols ↔ c ∈ p.cols) ∧ (∀ c, c ∈ T₂.cols ↔ c ∈ p.cols) ∧
      T₁.rows.map (fun r => r.select p.cols) = T₂.rows.map (fun r => r.select p.cols) ∧
      SameUpToColOrder T₁ T₂ := by
  have hn : ∀ m : Bool, JoinsNative { cfg with merges := m } p := by
    intro m
    have h0 := hg.native
    unfold JoinsNative at h0 ⊢
    clear hg h₁ h₂
    induction p with
    | table => rfl
    | join a b oa ob jt iha ihb =>
      simp only [joinsNativeb, Bool.and_eq_true] at h0 ⊢
      exact ⟨⟨iha h0.1.1, ihb h0.1.2⟩, h0.2⟩
    | concat a b i an bn iha ihb =>
      simp only [joinsNativeb, Bool.and_eq_true] at h0 ⊢
      exact ⟨iha h0.1, ihb h0.2⟩
    | _ => rename_i ih; exact ih h0
  have hg1 : Good { cfg with merges := true } env p :=
    ⟨hg.frag, hg.wf, hg.sqlwf, hg.maps, hg.jwf, hg.types, hn true, hg.label, hg.env⟩
  have hg2 : Good { cfg with merges := false } env p :=
    ⟨hg.frag, hg.wf, hg.sqlwf, hg.maps, hg.jwf, hg.types, hn false, hg.label, hg.env⟩
  obtain ⟨T₁, tp₁, a1, a2, _, a4, a6⟩ := C01_engine_order_all Θ ec env _ p hg1 h₁
  obtain ⟨T₂, tp₂, b1, b2, _, b4, b6⟩ := C01_engine_order_all Θ ec env _ p hg2 h₂
  rw [a2] at b2
  cases b2
  have hrows : T₁.rows.map (fun r => r.select p.cols) = T₂.rows.map (fun r => r.select p.cols) := a6.trans b6.symm
  refine ⟨T₁, T₂, a1, b1, a4, b4, hrows, fun c => (a4 c).trans (b4 c).symm, ?_⟩
  exact map_select_mono hrows (fun c hc => (a4 c).mp hc)

/-- **C04_merge_invariant_all**: `MergeInv` of the translation result (joins and `concat_rows` included; a join or
`UNION ALL` step is never mergeable) -/
theorem C04_merge_invariant_all (Θ : Interp) (ec : EngineCfg) (env : Env) (cfg : SqlCfg)
    (p : Ops) (hg : Good cfg env p) {q : Near} (h : toNearSql cfg p = .ok q) : MergeInv q := by
  obtain ⟨st', hrun⟩ := toNearSql_ok h
  exact SqlE.mergeInv_root_all Θ ec env cfg p hg hrun

/-! ## 5. Non-vacuity -/

namespace C01AllEx
open C18Ex (Θc)
open C01JEx (envJ tA tB tA2 wfA wfB wfA2 env_ok)
open C04Ex (xPlus1 xTimes2 sizeW plain_extOK)

/-- SQLite dialect / generic dialect with `allow_extend_merges = True` (the default of every dialect); SQLite without -/
def cfgST : SqlCfg := ⟨true, true⟩
def cfgGT : SqlCfg := ⟨true, false⟩
def cfgSF : SqlCfg := ⟨false, true⟩

/-! ### a join below two extends that merge -/

/-- `A.natural_join(B, on=['k'], jointype='left').extend({'w': 'x + 1'}).extend({'z': 'x * 2'})` (two extend nodes) -/
def pJM : Ops :=
  .extend (.extend (.join tA tB ["k"] ["k"] .left) [("w", xPlus1)] [] [] [] false) [("z", xTimes2)] [] [] [] false

/-- with merges: **two** queries – the join, and one SELECT that computes `w` and `z` side by side over it (the
join step is not mergeable: the first extend is a new step, the second is merged into it); without merges: three -/
example : ∃ q, toNearSql cfgST pJM = .ok q ∧ q.names = ["extend_1", "natural_join_0"] ∧
    q.termKeys = some ["k", "x", "y", "w", "z"] := ⟨_, rfl, by decide, by decide⟩
example : ∃ q, toNearSql cfgSF pJM = .ok q ∧ q.names = ["extend_2", "extend_1", "natural_join_0"] :=
  ⟨_, rfl, by decide⟩

theorem good_pJM (cfg : SqlCfg) : Good cfg envJ pJM := by
  refine ⟨rfl, ⟨⟨⟨wfA, wfB⟩, plain_extOK _ _ (by decide) (by decide)⟩, plain_extOK _ _ (by decide) (by decide)⟩,
    by decide, by decide, by decide, by decide, ?_, by decide, env_ok _ (by decide)⟩
  simp [JoinsNative, joinsNativeb, pJM, tA, tB]

/-- the merged translation evaluates to the three rows of the LEFT join (null keys do not match) with `w` and `z` -/
example : ∃ q T, toNearSql cfgST pJM = .ok q ∧ semSql Θc EngineCfg.sqlite envJ q = .ok T ∧
    T.rows = [[("k", .num 1), ("x", .num 10), ("y", .num 5), ("w", .num 11), ("z", .num 20)],
      [("k", .null), ("x", .num 20), ("y", .null), ("w", .num 21), ("z", .num 40)],
      [("k", .num 2), ("x", .num 30), ("y", .null), ("w", .num 31), ("z", .num 60)]] :=
  ⟨_, _, rfl, rfl, by decide +kernel⟩

/-- the main theorem applies to it (every dialect configuration) -/
example (ec : EngineCfg) (cfg : SqlCfg) {q : Near} (h : toNearSql cfg pJM = .ok q) :
    ∃ T t, semSql Θc ec envJ q = .ok T ∧ sem Θc SemCfg.ref envJ pJM = .ok t ∧ t.cols = pJM.cols ∧ T.EquivS t :=
  C01_translation_sound_all Θc ec envJ cfg pJM (good_pJM cfg) ⟨trivial, trivial⟩
    ⟨⟨⟨trivial, trivial⟩, fun h => by cases h⟩, fun h => by cases h⟩
    ⟨⟨⟨trivial, trivial⟩, fun h => by cases h⟩, fun h => by cases h⟩ h

/-- … and C04: the two settings of the option return the same rows in the same order -/
example (ec : EngineCfg) {q₁ q₂ : Near} (h₁ : toNearSql cfgST pJM = .ok q₁) (h₂ : toNearSql cfgSF pJM = .ok q₂) :
    ∃ T₁ T₂, semSql Θc ec envJ q₁ = .ok T₁ ∧ semSql Θc ec envJ q₂ = .ok T₂ ∧
      (∀ c, c ∈ T₁.cols ↔ c ∈ pJM.cols) ∧ (∀ c, c ∈ T₂.cols ↔ c ∈ pJM.cols) ∧
      T₁.rows.map (fun r => r.select pJM.cols) = T₂.rows.map (fun r => r.select pJM.cols) ∧ SameUpToColOrder T₁ T₂ :=
  C04_merge_option_sound_all Θc ec envJ cfgST pJM (good_pJM cfgST) h₁ h₂

/-! ### a labelled `concat_rows` whose label steps are merged -/

/-- `A.extend({'c': '_.size()'}, partition_by=['k']).concat_rows(A2.extend({'c': '7'}), id_column='src')`.
Left side: a *windowed* extend – the builder keeps the label step `extend({'src': '"a"'})` as a node of its own, the
SQL generator (`cfg.merges`) merges it into the window step.  Right side: a plain extend – the builder merges the
label assignment into the node. -/
def pUM : Ops :=
  .concat (.extend tA [("c", sizeW)] ["k"] [] [] true) (.extend tA2 [("c", .value (.int 7))] [] [] [] false)
    (some "src") "a" "b"

/-- with merges one SELECT per side (`COUNT(1) OVER (PARTITION BY k) AS c, 'a' AS src` in one step); without merges
the left side has two -/
example : ∃ q, toNearSql cfgST pUM = .ok q ∧ q.names = ["concat_rows_2", "extend_0", "extend_1"] :=
  ⟨_, rfl, by decide⟩
example : ∃ q, toNearSql cfgSF pUM = .ok q ∧ q.names = ["concat_rows_3", "extend_1", "extend_0", "extend_2"] :=
  ⟨_, rfl, by decide⟩

/-- the left side of the union with merges: window term and label side by side over the table `A` -/
example : ∃ nm ts r cs key, toNearSql cfgST pUM = .ok (.union nm ts
      (.unary "extend_0" (some [("k", .pass), ("x", .pass), ("c", .expr sizeW (some ⟨["k"], [], []⟩)),
          ("src", .expr (.value (.str "a")) none)]) false (.table "A" ["k", "x"]) (some ["k", "x"]) .none true
        (some [("k", ["k"]), ("x", ["x"]), ("c", ["k"]), ("src", [])])
        (keyOfNode "extend" (.extend (.extend tA [("c", sizeW)] ["k"] [] [] true) [("src", .value (.str "a"))] [] [] [] false)
          ["k", "x", "c", "src"])) r cs key) := ⟨_, _, _, _, _, rfl⟩

theorem wf_pUM : WF pUM := by
  refine ⟨?_, plain_extOK _ _ (by decide) (by decide) |> fun h => ⟨wfA2, h⟩, ?_⟩
  · refine ⟨wfA, by decide, by decide, by decide, by decide, by decide, ?_, ?_⟩
    · intro h; cases h
    · intro _; decide
  · intro c hc
    cases hc
    decide

theorem good_pUM (cfg : SqlCfg) : Good cfg envJ pUM := by
  refine ⟨rfl, wf_pUM, by decide, by decide, by decide, by decide, ?_, by decide, env_ok _ (by decide)⟩
  simp [JoinsNative, joinsNativeb, pUM, tA, tA2]

/-- evaluated: the three rows of `A` labelled `a` (each key is its own partition, the NULL key too), then the row of
`A2` labelled `b` -/
example : ∃ q T, toNearSql cfgST pUM = .ok q ∧ semSql Θc EngineCfg.sqlite envJ q = .ok T ∧
    T.rows = [[("k", .num 1), ("x", .num 10), ("c", .num 1), ("src", .str "a")],
      [("k", .null), ("x", .num 20), ("c", .num 1), ("src", .str "a")],
      [("k", .num 2), ("x", .num 30), ("c", .num 1), ("src", .str "a")],
      [("k", .num 2), ("x", .num 30), ("c", .num 7), ("src", .str "b")]] :=
  ⟨_, _, rfl, rfl, by decide +kernel⟩

/-- the main theorem applies (every dialect configuration); the window function `size` is order free -/
example (ec : EngineCfg) (cfg : SqlCfg) {q : Near} (h : toNearSql cfg pUM = .ok q) :
    ∃ T t, semSql Θc ec envJ q = .ok T ∧ sem Θc SemCfg.ref envJ pUM = .ok t ∧ t.cols = pUM.cols ∧ T.EquivS t :=
  C01_translation_sound_all Θc ec envJ cfg pUM (good_pUM cfg) ⟨trivial, trivial⟩
    ⟨⟨trivial, fun _ t _ => Or.inr (fun kv hkv => by
        simp only [List.mem_singleton] at hkv
        subst hkv
        exact C18Ex.size_win_orderFree)⟩, ⟨trivial, fun h => by cases h⟩⟩
    ⟨⟨trivial, fun _ t _ => Or.inl (fun _ _ _ hc => by cases hc)⟩, ⟨trivial, fun h => by cases h⟩⟩ h

/-- the exact (list) version too: no order columns anywhere -/
example (ec : EngineCfg) (cfg : SqlCfg) {q : Near} (h : toNearSql cfg pUM = .ok q) :
    ∃ T t, semSql Θc ec envJ q = .ok T ∧ sem Θc SemCfg.ref envJ pUM = .ok t ∧ t.cols = pUM.cols ∧ T.EqS t :=
  C01_translation_exact_all Θc ec envJ cfg pUM (good_pUM cfg)
    ⟨⟨trivial, fun _ _ _ _ _ hc => by cases hc⟩, ⟨trivial, fun _ _ _ _ _ hc => by cases hc⟩⟩ h

end C01AllEx

end DAVerif
