import DAVerif.Proofs.SqlMain
import DAVerif.Proofs.SqlOrder
import DAVerif.Proofs.SqlReach
import DAVerif.Props.C26
import DAVerif.Props.C18
import DAVerif.Sql.ThetaSql
/-!
# C01 / C02 (core) — the SQL produced by `to_sql` returns the same table as the Pandas evaluation

Property theorems only, for the fragment of pipelines built from
`{table, extend (plain and windowed), project, select_rows, select_columns, drop_columns, order_rows,
rename_columns, map_columns}` and the translation **without the extend merge** (`cfg.merges = false`); joins,
`concat_rows`, `convert_records` and the extend merge build on the same invariant (`Sql.Sound`,
`Spec/SqlSem.lean`) and are added by the follow-up proofs.

The model: `Sql/ToNearSql.lean` (`toNearSql` = `to_near_sql_implementation_`), `Sql/Sem.lean` (`semSql` = what the
SQL engine returns for the rendered query; `EngineCfg` = where the engine sorts NULL), `Sem/Eval.lean` (`sem` = the
reference / Pandas semantics).  One interpretation `Θ` of the function symbols is used on both sides (agreement of
the engine's and numpy's function semantics is C05).  All statements are for **both** engines (`ec` arbitrary).

How the proof is organised (files `Proofs/Sql*.lean`):
* stage A – `Sql.stageA_root`: the query returns, **row by row in order**, the table the pipeline evaluates to
  when `order_rows` and window orderings use the *engine's* NULL placement (`Sql.semE ec`); no hypothesis on data or
  on `Θ`.  This is where pruning (`using`), the term dictionaries, `select_columns`/`drop_columns` on steps, the kept
  aggregate of an un-grouped project (D14/D36) and the bare-table case are handled.
* stage B – `Sql.semE_eq_sem_of_nullFree`, `Sql.sem_equiv_semE`: the engine's ordering against pandas' (nulls last).

Hypotheses, all explicit and decidable where they concern the pipeline:
`InFrag p`, `WF p` (C26: every reachable pipeline is `WF`), `Sql.SqlWF p` (further facts the builders establish),
`Sql.MapsOK p` (rename / map_columns dictionaries have unique keys – true of every Python dict – **and** a rename
does not read one source column twice: guard, `C08_rename_twice_necessary`, known finding `C08-rename-source-twice`), `Sql.EnvOK false env p` (the tables have
at least the declared columns),
`OrdersNullFree` / `SqlScope` (NULL placement, finding D21; `C01_nullorder_necessary_*`), C18's `AggsOrderFree`,
`WindowsTotal`.
-/
namespace DAVerif
open DAVerif.Sql

/-- `to_near_sql_implementation_(using=None, temp_id_source=[0])` succeeded: the underlying state-monad run -/
theorem Sql.toNearSql_ok {cfg : SqlCfg} {p : Ops} {q : Near} (h : toNearSql cfg p = .ok q) :
    ∃ st', toNear cfg (6 * p.size + 6) p none 0 = .ok (q, st') := by
  unfold toNearSql at h
  cases hr : (toNear cfg (6 * p.size + 6) p none).run 0 with
  | error e => rw [hr] at h; cases h
  | ok r =>
    rw [hr] at h
    obtain ⟨n, s⟩ := r
    simp only [bind, Except.bind, pure, Except.pure, Except.ok.injEq] at h
    subst h
    exact ⟨s, hr⟩

/-! ## 1. The translation is exact for the engine's row ordering (stage A) -/

/-- **C01/C02, stage A.**  For every well-formed pipeline `p` of the fragment, every environment that has its
tables with at least the declared columns, every interpretation `Θ` and both engines: if `to_sql` (no extend
merges) produces the query `q`, then `q` evaluates; its result has exactly the declared column set; and its rows,
restricted to the declared columns, are **exactly, in order,** the rows of the table the pipeline denotes when
`order_rows` and window orders place NULL as the engine does (`semE ec`).  No hypothesis on the data, on `Θ`, on
names or on the fuel. -/
theorem C01_translation_engine_order (Θ : Interp) (ec : EngineCfg) (env : Env) (cfg : SqlCfg)
    (hm : cfg.merges = false) (p : Ops) (hf : InFrag p = true) (hwf : WF p) (hsq : SqlWF p) (hmp : MapsOK p)
    (he : EnvOK false env p) {q : Near} (h : toNearSql cfg p = .ok q) :
    ∃ T tp, semSql Θ ec env q = .ok T ∧ semE ec Θ SemCfg.ref env p = .ok tp ∧ tp.cols = p.cols ∧
      (∀ c, c ∈ T.cols ↔ c ∈ p.cols) ∧ T.rows.map (fun r => r.select p.cols) = tp.rows := by
  obtain ⟨st', hrun⟩ := toNearSql_ok h
  obtain ⟨tp, htp⟩ := semG_ok_frag (sqlRowLe ec) Θ SemCfg.ref env p hf false he
  obtain ⟨T, h1, h2, h4⟩ := stageA_root Θ ec env SemCfg.ref cfg hm p hf hwf hsq hmp he hrun htp
  exact ⟨T, tp, h1, htp, (semG_cols_wf_frag _ Θ SemCfg.ref env p hf tp htp).1, h2, h4⟩

/-! ## 2. Against the reference semantics -/

/-- **C01/C02 core (`C01_translation_sound_unary`).**  One interpretation `Θ` on both sides, both engines.  For
every well-formed pipeline `p` of the fragment and every environment with at least the declared columns, within
the scope of C18 (aggregates used are order free, window orders total, limits do not cut ties) and with null-free
order columns at ordered windows – unless all their functions are order free – and at `order_rows` with a limit
(`SqlScope`; windows without `order_by` and `order_rows` without limit are unrestricted): the query `to_sql` produces (no extend merges) evaluates, the
reference semantics evaluates, and the two tables have the **same column set and the same multiset of rows**
(`Table.EquivS`). -/
theorem C01_translation_sound_unary (Θ : Interp) (ec : EngineCfg) (env : Env) (cfg : SqlCfg)
    (hm : cfg.merges = false) (p : Ops) (hf : InFrag p = true) (hwf : WF p) (hsq : SqlWF p) (hmp : MapsOK p)
    (he : EnvOK false env p) (hA : AggsOrderFree Θ p) (hW : WindowsTotal Θ SemCfg.ref env p)
    (hS : SqlScope Θ SemCfg.ref env p)
    {q : Near} (h : toNearSql cfg p = .ok q) :
    ∃ T t, semSql Θ ec env q = .ok T ∧ sem Θ SemCfg.ref env p = .ok t ∧ t.cols = p.cols ∧ T.EquivS t := by
  obtain ⟨T, tp, h1, h2, h3, h4, h6⟩ := C01_translation_engine_order Θ ec env cfg hm p hf hwf hsq hmp he h
  have hB := sem_equiv_semE ec Θ SemCfg.ref env p hA (Or.inl hf) hW hS
  rw [h2] at hB
  cases hs : sem Θ SemCfg.ref env p with
  | error e => rw [hs] at hB; exact hB.elim
  | ok t =>
    rw [hs] at hB
    have heq : t ≈ tp := hB
    have hc : t.cols = p.cols := heq.1.trans h3
    refine ⟨T, t, h1, rfl, hc, ?_, ?_⟩
    · intro c; rw [hc]; exact h4 c
    · rw [hc, h6]; exact heq.2.symm

/-- the row half of `C01_translation_sound_unary` needs no guard: every declared column is returned and the rows,
restricted to the declared columns, are the reference rows as a multiset -/
theorem C01_translation_rows (Θ : Interp) (ec : EngineCfg) (env : Env) (cfg : SqlCfg)
    (hm : cfg.merges = false) (p : Ops) (hf : InFrag p = true) (hwf : WF p) (hsq : SqlWF p) (hmp : MapsOK p)
    (he : EnvOK false env p) (hA : AggsOrderFree Θ p) (hW : WindowsTotal Θ SemCfg.ref env p)
    (hS : SqlScope Θ SemCfg.ref env p) {q : Near} (h : toNearSql cfg p = .ok q) :
    ∃ T t, semSql Θ ec env q = .ok T ∧ sem Θ SemCfg.ref env p = .ok t ∧ (∀ c ∈ p.cols, c ∈ T.cols) ∧
      (T.rows.map (fun r => r.select p.cols)).Perm t.rows := by
  obtain ⟨T, tp, h1, h2, _, h4, h6⟩ := C01_translation_engine_order Θ ec env cfg hm p hf hwf hsq hmp he h
  have hB := sem_equiv_semE ec Θ SemCfg.ref env p hA (Or.inl hf) hW hS
  rw [h2] at hB
  cases hs : sem Θ SemCfg.ref env p with
  | error e => rw [hs] at hB; exact hB.elim
  | ok t =>
    rw [hs] at hB
    have heq : t ≈ tp := hB
    exact ⟨T, t, h1, rfl, fun c hc => (h4 c).mpr hc, by rw [h6]; exact heq.2.symm⟩

/-- **Strong scope: list equality.**  If at every `order_rows` and every ordered window the order columns are null
free (`OrdersNullFree`), the SQL result and the reference result have the same rows **in the same order** – for
every `Θ` (no law on aggregates or window functions is needed), both engines. -/
theorem C01_translation_exact (Θ : Interp) (ec : EngineCfg) (env : Env) (cfg : SqlCfg)
    (hm : cfg.merges = false) (p : Ops) (hf : InFrag p = true) (hwf : WF p) (hsq : SqlWF p) (hmp : MapsOK p)
    (he : EnvOK false env p) (hN : OrdersNullFree Θ SemCfg.ref env p)
    {q : Near} (h : toNearSql cfg p = .ok q) :
    ∃ T t, semSql Θ ec env q = .ok T ∧ sem Θ SemCfg.ref env p = .ok t ∧ t.cols = p.cols ∧ T.EqS t := by
  obtain ⟨T, tp, h1, h2, h3, h4, h6⟩ := C01_translation_engine_order Θ ec env cfg hm p hf hwf hsq hmp he h
  rw [semE_eq_sem_of_nullFree ec Θ SemCfg.ref env p hN] at h2
  refine ⟨T, tp, h1, h2, h3, ?_, ?_⟩
  · intro c; rw [h3]; exact h4 c
  · rw [h3]; exact h6

/-- **C01_final_order.**  A pipeline that ends in `order_rows`: if its source is in the multiset scope, and the
final order is total on the rows that reach it and its order columns contain no null, then the SQL result has
the reference rows **as a list** (same rows, same order), limit or not. -/
theorem C01_final_order (Θ : Interp) (ec : EngineCfg) (env : Env) (cfg : SqlCfg)
    (hm : cfg.merges = false) (src : Ops) (cs rv : List String) (lim : Option Nat)
    (hf : InFrag src = true) (hwf : WF (.order src cs rv lim)) (hsq : SqlWF (.order src cs rv lim))
    (hmp : MapsOK (.order src cs rv lim)) (he : EnvOK false env src)
    (hA : AggsOrderFree Θ src) (hW : WindowsTotal Θ SemCfg.ref env src) (hS : SqlScope Θ SemCfg.ref env src)
    {ts : Table} (hts : sem Θ SemCfg.ref env src = .ok ts)
    (hnull : NullFreeOn cs ts.rows) (htot : TotalOn cs rv ts.rows)
    {q : Near} (h : toNearSql cfg (.order src cs rv lim) = .ok q) :
    ∃ T t, semSql Θ ec env q = .ok T ∧ sem Θ SemCfg.ref env (.order src cs rv lim) = .ok t ∧
      T.rows.map (fun r => r.select src.cols) = t.rows := by
  obtain ⟨T, tp, h1, h2, _, _, h6⟩ :=
    C01_translation_engine_order Θ ec env cfg hm (.order src cs rv lim) hf hwf hsq hmp he h
  rw [semE_final_order_eq ec Θ SemCfg.ref env src cs rv lim hA (Or.inl hf) hW hS hts hnull htot] at h2
  exact ⟨T, tp, h1, h2, h6⟩

/-- **The main theorem for pipelines built by the builders.**  `Reachable p` (C26: obtained from table descriptions
by successful builder calls) replaces the structural hypotheses `WF` and `SqlWF` (`C26_reachable_wf`,
`C01_reachable_sqlwf`). -/
theorem C01_translation_sound_reachable (Θ : Interp) (ec : EngineCfg) (env : Env) (cfg : SqlCfg)
    (hm : cfg.merges = false) (p : Ops) (hr : Reachable p) (hf : InFrag p = true) (hmp : MapsOK p)
    (he : EnvOK false env p) (hA : AggsOrderFree Θ p) (hW : WindowsTotal Θ SemCfg.ref env p)
    (hS : SqlScope Θ SemCfg.ref env p)
    {q : Near} (h : toNearSql cfg p = .ok q) :
    ∃ T t, semSql Θ ec env q = .ok T ∧ sem Θ SemCfg.ref env p = .ok t ∧ t.cols = p.cols ∧ T.EquivS t :=
  C01_translation_sound_unary Θ ec env cfg hm p hf (C26_reachable_wf hr) (C01_reachable_sqlwf hr) hmp he hA hW hS h

/-! ## 3. Columns (C08) and row counts (C09) of the SQL result -/

/-- **C08_sql_cols.**  The SQL result has exactly the declared column set – for every `Θ`, both engines, no
hypothesis on the data, and unconditionally for the fragment.

History: before fix 1805022 a final `order_rows` rendered `SELECT *`, and
`d(a,g).extend({'x':'a.sum()'}, partition_by=['g']).select_columns(['a']).order_rows(['a'])` became
`SELECT * FROM "d" ORDER BY "a"` returning the undeclared column `g` (the pruned window step asks the table for its
partition column, `select_columns` only edits the term list of the bare table node); the statement then needed a
guard (`starLeakFree`) whose necessity was witnessed by that pipeline.  The defect was found by this proof, fixed in
/repo (`order_to_near_sql` always names its columns) and in the model; the guard is gone. -/
theorem C08_sql_cols (Θ : Interp) (ec : EngineCfg) (env : Env) (cfg : SqlCfg)
    (hm : cfg.merges = false) (p : Ops) (hf : InFrag p = true) (hwf : WF p) (hsq : SqlWF p) (hmp : MapsOK p)
    (he : EnvOK false env p) {q : Near} (h : toNearSql cfg p = .ok q) :
    ∃ T, semSql Θ ec env q = .ok T ∧ ∀ c, c ∈ T.cols ↔ c ∈ p.cols := by
  obtain ⟨T, _, h1, _, _, h4, _⟩ := C01_translation_engine_order Θ ec env cfg hm p hf hwf hsq hmp he h
  exact ⟨T, h1, h4⟩

/-- the SQL result has as many rows as the pipeline's table under the engine's ordering – unconditionally -/
theorem C09_sql_row_count (Θ : Interp) (ec : EngineCfg) (env : Env) (cfg : SqlCfg)
    (hm : cfg.merges = false) (p : Ops) (hf : InFrag p = true) (hwf : WF p) (hsq : SqlWF p) (hmp : MapsOK p)
    (he : EnvOK false env p) {q : Near} (h : toNearSql cfg p = .ok q) :
    ∃ T tp, semSql Θ ec env q = .ok T ∧ semE ec Θ SemCfg.ref env p = .ok tp ∧ T.rows.length = tp.rows.length := by
  obtain ⟨T, tp, h1, h2, _, _, h6⟩ := C01_translation_engine_order Θ ec env cfg hm p hf hwf hsq hmp he h
  refine ⟨T, tp, h1, h2, ?_⟩
  have := congrArg List.length h6
  simpa using this

/-- an un-grouped `project`, possibly below steps that keep the number of rows (`extend`, `select_columns`,
`drop_columns`, `rename_columns`, `map_columns`, `order_rows` without limit) – which may overwrite, drop or
ignore every aggregate it computes -/
inductive AboveUngrouped : Ops → Prop
  | project (src : Ops) (ops : Assign) : AboveUngrouped (.project src ops [])
  | extend {s : Ops} (ops : Assign) (part od rv : List String) (w : Bool) :
      AboveUngrouped s → AboveUngrouped (.extend s ops part od rv w)
  | selectCols {s : Ops} (cs : List String) : AboveUngrouped s → AboveUngrouped (.selectCols s cs)
  | dropCols {s : Ops} (ds : List String) : AboveUngrouped s → AboveUngrouped (.dropCols s ds)
  | rename {s : Ops} (m : List (String × String)) : AboveUngrouped s → AboveUngrouped (.rename s m)
  | mapCols {s : Ops} (m : List (String × String)) (ds : List String) :
      AboveUngrouped s → AboveUngrouped (.mapCols s m ds)
  | order {s : Ops} (cs rv : List String) : AboveUngrouped s → AboveUngrouped (.order s cs rv none)

theorem aboveUngrouped_one_row (le : RowCmp) (Θ : Interp) (cfg : SemCfg) (env : Env) {p : Ops}
    (hp : AboveUngrouped p) : ∀ t, semG le Θ cfg env p = .ok t → t.rows.length = 1 := by
  induction hp with
  | project src ops =>
    intro t h
    simp only [semG] at h
    obtain ⟨ts, _, rfl⟩ := bind_pure_ok h
    simp [semProject]
  | extend ops part od rv w _ ih =>
    intro t h
    simp only [semG] at h
    obtain ⟨ts, hts, h2⟩ := bind_ok_inv h
    cases w
    · simp only [Bool.false_eq_true, ↓reduceIte, pure, Except.pure, Except.ok.injEq] at h2
      subst h2
      simpa [semExtendPlain] using ih ts hts
    · simp only [↓reduceIte, pure, Except.pure, Except.ok.injEq] at h2
      subst h2
      simpa [semExtendWindowG] using ih ts hts
  | selectCols cs _ ih =>
    intro t h
    simp only [semG] at h
    obtain ⟨ts, hts, rfl⟩ := bind_pure_ok h
    simpa [Table.selectCols] using ih ts hts
  | dropCols ds _ ih =>
    intro t h
    simp only [semG] at h
    obtain ⟨ts, hts, rfl⟩ := bind_pure_ok h
    simpa [Table.selectCols] using ih ts hts
  | rename m _ ih =>
    intro t h
    simp only [semG] at h
    obtain ⟨ts, hts, rfl⟩ := bind_pure_ok h
    simpa using ih ts hts
  | mapCols m ds _ ih =>
    intro t h
    simp only [semG] at h
    obtain ⟨ts, hts, rfl⟩ := bind_pure_ok h
    simpa using ih ts hts
  | order cs rv _ ih =>
    intro t h
    simp only [semG] at h
    obtain ⟨ts, hts, rfl⟩ := bind_pure_ok h
    simpa [semOrderG] using ih ts hts

/-- **C09_sql_ungrouped_one_row.**  An un-grouped `project` yields exactly one row in SQL, whatever is pruned above
it: for every pipeline that consists of row-count preserving steps above an un-grouped `project` (steps that may
overwrite, drop or never request any of its aggregates – the situations of the fixes D14 and D36), every `Θ`,
both engines and every environment with the declared columns (empty tables included), the query returns exactly
one row. -/
theorem C09_sql_ungrouped_one_row (Θ : Interp) (ec : EngineCfg) (env : Env) (cfg : SqlCfg)
    (hm : cfg.merges = false) (p : Ops) (hp : AboveUngrouped p) (hf : InFrag p = true) (hwf : WF p) (hsq : SqlWF p)
    (hmp : MapsOK p) (he : EnvOK false env p) {q : Near} (h : toNearSql cfg p = .ok q) :
    ∃ T, semSql Θ ec env q = .ok T ∧ T.rows.length = 1 := by
  obtain ⟨T, tp, h1, h2, h3⟩ := C09_sql_row_count Θ ec env cfg hm p hf hwf hsq hmp he h
  exact ⟨T, h1, h3.trans (aboveUngrouped_one_row _ Θ SemCfg.ref env hp tp h2)⟩

/-! ## 4. Non-vacuity: the hypotheses hold on concrete pipelines, and the conclusions are about successful runs -/

namespace C01Ex
open C18Ex (Θc)

/-- the translation configuration of the theorems: no extend merges (SQLite join emulation is irrelevant here) -/
def cfgN : SqlCfg := ⟨false, true⟩

def r1 : Row := [("g", .str "a"), ("x", .num 1)]
def r2 : Row := [("g", .str "b"), ("x", .num 2)]
def r3 : Row := [("g", .str "a"), ("x", .null)]
def envD : Env := [("d", ⟨["g", "x"], [r1, r2, r3]⟩)]
def d : Ops := .table "d" ["g", "x"]

/-- `d.extend({'z': 'x + 1'}).project({'n': '_.size()'}, group_by=['g'])` – the extend is pruned by the project -/
def pA : Ops :=
  .project (.extend d [("z", .app "+" [.col "x", .value (.int 1)] true false)] [] [] [] false)
    [("n", .app "size" [] false true)] ["g"]

theorem pA_frag : InFrag pA = true := rfl
theorem pA_wf : WF pA := by
  refine ⟨⟨⟨by decide, by decide⟩, ?_⟩, by decide, Or.inl (by decide)⟩
  refine ⟨by decide, by decide, by decide, by decide, by decide, fun _ => ⟨by decide, rfl, rfl⟩, fun h => by cases h⟩
theorem pA_sqlwf : SqlWF pA := by decide
theorem pA_maps : MapsOK pA := by decide
theorem pA_env : EnvOK false envD pA := by
  intro nc hnc
  simp only [pA, d, Ops.tables, List.mem_singleton] at hnc
  subst hnc
  exact ⟨_, rfl, by decide, fun h => by cases h⟩
theorem pA_aggs : AggsOrderFree Θc pA := by
  refine ⟨trivial, ?_⟩
  intro kv hkv
  simp only [List.mem_singleton] at hkv
  subst hkv
  exact C18Ex.size_agg_orderFree

/-- the translation succeeds (three nested queries; the extend step is not emitted) -/
example : ∃ q, toNearSql cfgN pA = .ok q := ⟨_, rfl⟩

/-- the main theorem applies to `pA`, for SQLite's and for PostgreSQL's NULL placement -/
example (ec : EngineCfg) {q : Near} (h : toNearSql cfgN pA = .ok q) :
    ∃ T t, semSql Θc ec envD q = .ok T ∧ sem Θc SemCfg.ref envD pA = .ok t ∧ t.cols = pA.cols ∧ T.EquivS t :=
  C01_translation_sound_unary Θc ec envD cfgN rfl pA pA_frag pA_wf pA_sqlwf pA_maps pA_env pA_aggs
    ⟨trivial, fun h => by cases h⟩ ⟨trivial, fun h => by cases h⟩ h

/-- and the reference result it is compared with is a real table: two groups -/
example : ∃ t, sem Θc SemCfg.ref envD pA = .ok t ∧ t.cols = ["g", "n"] ∧ t.rows.length = 2 :=
  ⟨_, rfl, by decide, by decide⟩

/-- `d.extend({'c': '_.size()'}, partition_by=['g']).select_columns(['x'])`: a window step that is pruned away, and a
`select_columns` that modifies the step below it -/
def pB : Ops := .selectCols (.extend d [("c", .app "size" [] false true)] ["g"] [] [] true) ["x"]

theorem pB_wf : WF pB := by
  refine ⟨⟨⟨by decide, by decide⟩, ?_⟩, by decide, by decide, by decide⟩
  refine ⟨by decide, by decide, by decide, by decide, by decide, ?_, ?_⟩
  · intro h; cases h
  · intro _; decide

example : ∃ q, toNearSql cfgN pB = .ok q := ⟨_, rfl⟩

/-- the column theorem applies -/
example (ec : EngineCfg) {q : Near} (h : toNearSql cfgN pB = .ok q) :
    ∃ T, semSql Θc ec envD q = .ok T ∧ ∀ c, c ∈ T.cols ↔ c ∈ pB.cols :=
  C08_sql_cols Θc ec envD cfgN rfl pB rfl pB_wf (by decide) (by decide)
    (by
      intro nc hnc
      simp only [pB, d, Ops.tables, List.mem_singleton] at hnc
      subst hnc
      exact ⟨_, rfl, by decide, fun h => by cases h⟩) h

/-- `d.project({'n': '_.size()', 'm': 'x.max()'}).extend({'n': '1', 'm': '2'})`: every aggregate is overwritten
(the situation of fix D14) -/
def pC : Ops :=
  .extend (.project d [("n", .app "size" [] false true), ("m", .app "max" [.col "x"] false true)] [])
    [("n", .value (.int 1)), ("m", .value (.int 2))] [] [] [] false

theorem pC_above : AboveUngrouped pC := .extend _ _ _ _ _ (.project _ _)
theorem pC_wf : WF pC := by
  refine ⟨⟨⟨by decide, by decide⟩, by decide, Or.inr (by decide)⟩, ?_⟩
  refine ⟨by decide, by decide, by decide, by decide, by decide, fun _ => ⟨by decide, rfl, rfl⟩, fun h => by cases h⟩

example : ∃ q, toNearSql cfgN pC = .ok q := ⟨_, rfl⟩

/-- exactly one row, also on an empty table -/
example (ec : EngineCfg) (rows : List Row) {q : Near} (h : toNearSql cfgN pC = .ok q) :
    ∃ T, semSql Θc ec [("d", ⟨["g", "x"], rows⟩)] q = .ok T ∧ T.rows.length = 1 :=
  C09_sql_ungrouped_one_row Θc ec _ cfgN rfl pC pC_above rfl pC_wf (by decide) (by decide)
    (by
      intro nc hnc
      simp only [pC, d, Ops.tables, List.mem_singleton] at hnc
      subst hnc
      exact ⟨_, rfl, fun c hc => hc, fun h => by cases h⟩) h

/-- `d.extend({'c': '_.size()'}, partition_by=['g'])`: a window step that is translated (`... OVER (PARTITION BY "g")`),
in scope because `size` is order free and the window has no `order_by` -/
def pW : Ops := .extend d [("c", .app "size" [] false true)] ["g"] [] [] true

theorem pW_wf : WF pW := by
  refine ⟨⟨by decide, by decide⟩, ?_⟩
  refine ⟨by decide, by decide, by decide, by decide, by decide, ?_, ?_⟩
  · intro h; cases h
  · intro _; decide

theorem pW_env : EnvOK false envD pW := by
  intro nc hnc
  simp only [pW, d, Ops.tables, List.mem_singleton] at hnc
  subst hnc
  exact ⟨_, rfl, by decide, fun h => by cases h⟩

example : ∃ q, toNearSql cfgN pW = .ok q := ⟨_, rfl⟩

example (ec : EngineCfg) {q : Near} (h : toNearSql cfgN pW = .ok q) :
    ∃ T t, semSql Θc ec envD q = .ok T ∧ sem Θc SemCfg.ref envD pW = .ok t ∧ t.cols = pW.cols ∧ T.EquivS t :=
  C01_translation_sound_unary Θc ec envD cfgN rfl pW rfl pW_wf (by decide) (by decide) pW_env trivial
    ⟨trivial, fun _ t _ => Or.inr (fun kv hkv => by
      simp only [List.mem_singleton] at hkv
      subst hkv
      exact C18Ex.size_win_orderFree)⟩
    ⟨trivial, fun _ t _ => Or.inl (fun _ _ _ hc => by cases hc)⟩ h

/-- `d.order_rows(['x'], limit=2)` on rows without nulls in `x`, all different: `C01_final_order` applies (list
equality, for SQLite's and PostgreSQL's NULL placement) -/
def x1 : Row := [("g", .str "a"), ("x", .num 3)]
def x2 : Row := [("g", .str "b"), ("x", .num 1)]
def x3 : Row := [("g", .str "a"), ("x", .num 2)]
def envX : Env := [("d", ⟨["g", "x"], [x1, x2, x3]⟩)]
def pO : Ops := .order d ["x"] [] (some 2)

example : ∃ q, toNearSql cfgN pO = .ok q := ⟨_, rfl⟩

example (ec : EngineCfg) {q : Near} (h : toNearSql cfgN pO = .ok q) :
    ∃ T t, semSql Θc ec envX q = .ok T ∧ sem Θc SemCfg.ref envX pO = .ok t ∧
      T.rows.map (fun r => r.select d.cols) = t.rows :=
  C01_final_order Θc ec envX cfgN rfl d ["x"] [] (some 2) rfl ⟨by decide, by decide⟩ (by decide) (by decide)
    (by
      intro nc hnc
      simp only [d, Ops.tables, List.mem_singleton] at hnc
      subst hnc
      exact ⟨_, rfl, by decide, fun h => by cases h⟩)
    trivial trivial trivial (ts := ⟨["g", "x"], [x1, x2, x3]⟩) rfl (by decide) (by decide) h

/-- the strong scope is satisfiable as well: no nulls in the order column -/
example : OrdersNullFree Θc SemCfg.ref envX pO :=
  ⟨trivial, fun t ht => by
    have : sem Θc SemCfg.ref envX d = .ok ⟨["g", "x"], [x1, x2, x3]⟩ := rfl
    rw [this] at ht
    cases ht
    decide⟩

end C01Ex

/-! ## 5. The guards are necessary -/

namespace C01Ex

def k0 : Row := [("k", .null)]
def k1 : Row := [("k", .num 1)]
def envK : Env := [("d", ⟨["k"], [k0, k1]⟩)]
/-- `d.order_rows(['k'])` -/
def pK : Ops := .order (.table "d" ["k"]) ["k"] [] none
/-- `d.order_rows(['k'], reverse=['k'])` -/
def pKr : Ops := .order (.table "d" ["k"]) ["k"] ["k"] none

theorem pK_wf (rv : List String) : WF (.order (.table "d" ["k"]) ["k"] rv none) := ⟨by decide, by decide⟩
theorem pK_env (rv : List String) : EnvOK false envK (.order (.table "d" ["k"]) ["k"] rv none) := by
  intro nc hnc
  simp only [Ops.tables, List.mem_singleton] at hnc
  subst hnc
  exact ⟨_, rfl, by decide, fun h => by cases h⟩

end C01Ex

open C01Ex in
/-- **C01_nullorder_necessary (SQLite, finding D21).**  `d.order_rows(['k'])` on the rows `k = NULL, 1`: the order
is total, every other hypothesis of `C01_final_order` holds, yet SQLite (NULL smallest) returns `NULL, 1` and the
reference semantics (pandas: nulls last) `1, NULL`.  The null-free hypothesis cannot be dropped. -/
theorem C01_nullorder_necessary_sqlite :
    ∃ q T t, toNearSql cfgN pK = .ok q ∧ TotalOn ["k"] [] [k0, k1] ∧
      semSql C18Ex.Θc EngineCfg.sqlite envK q = .ok T ∧ sem C18Ex.Θc SemCfg.ref envK pK = .ok t ∧
      T.rows.map (fun r => r.select pK.cols) = [k0, k1] ∧ t.rows = [k1, k0] := by
  obtain ⟨T, tp, h1, h2, _, _, h6⟩ := C01_translation_engine_order C18Ex.Θc EngineCfg.sqlite envK cfgN rfl pK rfl
    (pK_wf []) (by decide) (by decide) (pK_env []) (q := _) rfl
  have e1 : semE EngineCfg.sqlite C18Ex.Θc SemCfg.ref envK pK =
      .ok (semOrderG (sqlRowLe EngineCfg.sqlite) ["k"] [] none ⟨["k"], [k0, k1]⟩) := rfl
  have s1 : [k0, k1].mergeSort (fun a b => sqlRowLe EngineCfg.sqlite ["k"] [] a b) = [k0, k1] :=
    List.mergeSort_of_pairwise (by decide)
  have e2 : sem C18Ex.Θc SemCfg.ref envK pK = .ok (semOrder ["k"] [] none ⟨["k"], [k0, k1]⟩) := rfl
  have s2 : sortRows ["k"] [] [k0, k1] = [k1, k0] :=
    sortRows_eq_of_sorted_perm (by decide) (by decide) (by decide)
  rw [e1] at h2
  cases h2
  refine ⟨_, T, _, rfl, by decide, h1, e2, ?_, ?_⟩
  · rw [h6]; simp only [semOrderG, s1]
  · simp only [semOrder, s2]

open C01Ex in
/-- **C01_nullorder_necessary (PostgreSQL).**  The same for an engine that sorts NULL largest, with a descending
order: `d.order_rows(['k'], reverse=['k'])` returns `NULL, 1` there, the reference semantics `1, NULL`. -/
theorem C01_nullorder_necessary_postgres :
    ∃ q T t, toNearSql cfgN pKr = .ok q ∧ TotalOn ["k"] ["k"] [k0, k1] ∧
      semSql C18Ex.Θc EngineCfg.postgres envK q = .ok T ∧ sem C18Ex.Θc SemCfg.ref envK pKr = .ok t ∧
      T.rows.map (fun r => r.select pKr.cols) = [k0, k1] ∧ t.rows = [k1, k0] := by
  obtain ⟨T, tp, h1, h2, _, _, h6⟩ := C01_translation_engine_order C18Ex.Θc EngineCfg.postgres envK cfgN rfl pKr
    rfl (pK_wf ["k"]) (by decide) (by decide) (pK_env ["k"]) (q := _) rfl
  have e1 : semE EngineCfg.postgres C18Ex.Θc SemCfg.ref envK pKr =
      .ok (semOrderG (sqlRowLe EngineCfg.postgres) ["k"] ["k"] none ⟨["k"], [k0, k1]⟩) := rfl
  have s1 : [k0, k1].mergeSort (fun a b => sqlRowLe EngineCfg.postgres ["k"] ["k"] a b) = [k0, k1] :=
    List.mergeSort_of_pairwise (by decide)
  have e2 : sem C18Ex.Θc SemCfg.ref envK pKr = .ok (semOrder ["k"] ["k"] none ⟨["k"], [k0, k1]⟩) := rfl
  have s2 : sortRows ["k"] ["k"] [k0, k1] = [k1, k0] :=
    sortRows_eq_of_sorted_perm (by decide) (by decide) (by decide)
  rw [e1] at h2
  cases h2
  refine ⟨_, T, _, rfl, by decide, h1, e2, ?_, ?_⟩
  · rw [h6]; simp only [semOrderG, s1]
  · simp only [semOrder, s2]

namespace C01Ex
def ab1 : Row := [("a", .num 1), ("b", .num 3)]
def envR : Env := [("d", ⟨["a", "b"], [ab1]⟩)]
/-- `d.rename_columns({'x': 'a', 'y': 'a'})` -/
def pR : Ops := .rename (.table "d" ["a", "b"]) [("x", "a"), ("y", "a")]
def qR : Near :=
  .unary "rename_0" (some [("x", .ident "a"), ("y", .ident "a"), ("b", .pass)]) false (.table "d" ["a", "b"])
    (some ["a", "b"]) .none false none (keyOfNode "rename" pR ["x", "y", "b"])
end C01Ex

open C01Ex in
/-- **C08_rename_twice_necessary (new finding).**  `rename_columns({'x': 'a', 'y': 'a'})` is accepted by the
builder, declares the columns `y, b` (Pandas returns these), but the SQL selects `"a" AS "x", "a" AS "y", "b"`: the
result has the undeclared column `x`.  `WF` and `SqlWF` hold; `MapsOK` (a rename reads each source column at most
once) does not, and cannot be dropped.  The real library behaves the same. -/
theorem C08_rename_twice_necessary (Θ : Interp) (ec : EngineCfg) :
    toNearSql cfgN pR = .ok qR ∧ WF pR ∧ SqlWF pR ∧ ¬ MapsOK pR ∧ EnvOK true envR pR ∧ pR.cols = ["y", "b"] ∧
      ∃ T, semSql Θ ec envR qR = .ok T ∧ T.cols = ["x", "y", "b"] := by
  refine ⟨rfl, ⟨⟨by decide, by decide⟩, by decide⟩, by decide, by decide, ?_, rfl, ?_⟩
  · intro nc hnc
    simp only [pR, Ops.tables, List.mem_singleton] at hnc
    subst hnc
    exact ⟨_, rfl, by decide, fun _ => by decide⟩
  · have hsub : semNear Θ ec envR [] (.table "d" ["a", "b"]) (some ["a", "b"]) false = .ok ⟨["a", "b"], [ab1]⟩ := rfl
    exact ⟨_, semNear_unary_ok hsub none true, rfl⟩

end DAVerif
