import DAVerif.Proofs.SolRank
import DAVerif.Proofs.SolReplicate
import DAVerif.Proofs.SolLocf
import DAVerif.Proofs.SolMcm
import DAVerif.Sql.Sem
/-!
# C21 — Solution helpers compute what their documentation promises

Property theorems only.  The specification side (`Spec/Solutions.lean`: `tieGroupMeanRank`, `locfValue`,
`replicateSpec`, `multiMapSpec`) is written on plain lists of rows, independently of pipelines and executor.  The
models of the helpers are `Solutions/*.lean` (each helper re-built call by call through the model's builders; tied to
`/repo/data_algebra/solutions.py` by the tree-equality suite `k2_solutions` and the execution suites `k4_solutions`
/ `k5_solutions`).  Helper lemmas: `Proofs/Sol*.lean`.

Every theorem has the form: *if the helper accepts its parameters* (`helper … = .ok p`: all its `assert`s and all the
builders' checks pass) *then evaluating the returned pipeline `p` yields the specified table*.

The executor is `sem` with the concrete interpretation `Theta.concrete` of the window / scalar functions (what the
Pandas executor computes); theorems that do not involve a join hold for both configurations of `sem`.
-/
namespace DAVerif
open DAVerif.Solutions DAVerif.Spec21 DAVerif.Sol

/-! ## rank_to_average -/

/-- **The tree `rank_to_average` builds** over a table description: `_row_number()` over `order_by` as tie breaker,
a running count per partition ordered by `order_by` and the tie breaker, its mean per `partition_by ++ order_by`, and
the tie breaker dropped – exactly these four nodes (no builder simplification applies), and the helper's assertion
together with the builders' checks gives: the table's columns are distinct, the two new names are new and
different, `order_by` is non-empty, `order_by` and `partition_by` name columns of the table. -/
theorem C21_rank_to_average_tree {name : String} {cols orderBy : List String} {partitionBy : Option (List String)}
    {rankCol tbCol : String} {p : Ops}
    (h : rankToAverage (.table name cols) orderBy partitionBy rankCol tbCol = .ok p) :
    p = rankTree (.table name cols) orderBy (partitionBy.getD []) rankCol tbCol ∧
    RankOK cols orderBy (partitionBy.getD []) rankCol tbCol :=
  rankToAverage_ok (plain_table ..) (by intro _ _ _ _ _ _ e; cases e) h

/-- **rank_to_average computes the mean position of each row's tie group.**  For every table description, every
parameter choice the helper accepts, every environment holding the table (with at least the declared columns) and
every record-transform interpretation: the pipeline evaluates to the input rows, in input order, each extended by
the column `rank_column_name` holding the mean of the 1-based positions `less+1 … less+ties` of the row's tie group
(rows of its partition with the same `order_by` cells) in its partition sorted by `order_by` (ascending, missing
values last – `rowLe`, see `rowLe_iff_lexLe` of C18 for its reading).  Holds for both configurations of `sem`. -/
theorem C21_rank_to_average (cv : RecMap → Table → Except Err Table) (cfg : SemCfg) (env : Env)
    {name : String} {cols orderBy : List String} {partitionBy : Option (List String)} {rankCol tbCol : String}
    {p : Ops} {t0 : Table}
    (hbuild : rankToAverage (.table name cols) orderBy partitionBy rankCol tbCol = .ok p)
    (henv : env.lookup name = some t0) (hsub : subset cols t0.cols = true) :
    sem (Theta.concrete cv) cfg env p
      = .ok (rankSpec (rowLe orderBy []) (partitionBy.getD []) rankCol (t0.selectCols cols)) := by
  obtain ⟨rfl, hok⟩ := C21_rank_to_average_tree hbuild
  have hd : sem (Theta.concrete cv) cfg env (.table name cols) = .ok (t0.selectCols cols) := by
    simp only [sem, henv, hsub, if_true]
  exact sem_rankTree cv cfg env (.table name cols) (t0.selectCols cols) hok hd (Table.wf_selectCols _ _)

/-- The same for every view `d` (not only table descriptions) on which the helper's first `extend` adds its own
node (`d` is not an `order_rows` without limit, and not an `extend` with the same ordering – then the builders would
skip / merge, which is C06's subject): whatever well-formed table `d` evaluates to, the helper's pipeline extends
each of its rows by the mean position of the row's tie group. -/
theorem C21_rank_to_average_view (cv : RecMap → Table → Except Err Table) (cfg : SemCfg) (env : Env)
    {d : Ops} {orderBy : List String} {partitionBy : Option (List String)} {rankCol tbCol : String} {p : Ops}
    {t : Table} (hplain : strip d = d)
    (hnomerge : ∀ src ops1 p1 o1 r1 w1, d = .extend src ops1 p1 o1 r1 w1 → (orderBy == o1) = false)
    (hbuild : rankToAverage d orderBy partitionBy rankCol tbCol = .ok p)
    (hd : sem (Theta.concrete cv) cfg env d = .ok t) (hwf : t.WF) (hcols : t.cols = d.cols) :
    sem (Theta.concrete cv) cfg env p = .ok (rankSpec (rowLe orderBy []) (partitionBy.getD []) rankCol t) := by
  obtain ⟨rfl, hok⟩ := rankToAverage_ok hplain hnomerge hbuild
  rw [sem_rankTree cv cfg env d t hok hd (fun r hr => (hwf r hr).trans hcols)]
  simp only [rankSpec, hcols]

/-- The documented reading "rank of each item is the average of all items with same order position": the mean of
the positions `less+1 … less+ties` is `less + (ties + 1) / 2`. -/
theorem C21_rank_mean_closed_form (le : Row → Row → Bool) (part : List String) (rows : List Row) (r : Row)
    (h : 0 < tieCount le part rows r) :
    tieGroupMeanRank le part rows r
      = (lessCount le part rows r : Rat) + ((tieCount le part rows r : Rat) + 1) / 2 := by
  simp only [tieGroupMeanRank]
  generalize lessCount le part rows r = L at *
  generalize tieCount le part rows r = E at *
  have h1 := sum_map_add_const (List.range E) (fun e => e) L
  have h2 := sum_range_id E
  rw [List.length_range] at h1
  have h3 : ((List.range E).map (fun i => L + i + 1)).sum = E * (L + 1) + ((List.range E).map (fun e => e)).sum := h1
  rw [h3]
  generalize ((List.range E).map (fun e => e)).sum = S at *
  have hE : (E : Rat) ≠ 0 := by
    intro e
    have : E = 0 := by exact_mod_cast e
    omega
  have h2' : (2 : Rat) * S + E = E * E := by exact_mod_cast h2
  rw [Rat.natCast_add, Rat.natCast_mul, Rat.natCast_add]
  have : ((1 : Nat) : Rat) = 1 := rfl
  rw [this]
  grind

/-! ## last_observed_carried_forward -/

/-- **The tree `last_observed_carried_forward` builds** over a table description (default `selection_predicate`
`is_null()`): the three marking steps `use = v.is_null().where(0, 1)`, `tb = _row_number()` ordered by
`partition_by + order_by`, `rank = use.cumsum()` per partition ordered by `order_by + [tb]`; the left join of the marked
rows with the marked rows that have `use == 1` (restricted to `partition_by + [rank, v]`) on `partition_by + [rank]`; the
three temporary columns dropped.  Side conditions: distinct table columns, three new distinct temporary names, the
value column exists, `partition_by + order_by` is not empty. -/
theorem C21_locf_tree {name : String} {cols orderBy : List String} {partitionBy : Option (List String)}
    {valueCol useCol rankCol tbCol : String} {p : Ops}
    (h : lastObservedCarriedForward (.table name cols) orderBy partitionBy valueCol useCol rankCol tbCol = .ok p) :
    p = locfTree (.table name cols) orderBy (partitionBy.getD []) valueCol useCol rankCol tbCol ∧
    LocfOK cols orderBy (partitionBy.getD []) valueCol useCol rankCol tbCol :=
  locf_ok h

/-- **last_observed_carried_forward fills each missing value with the latest earlier non-missing value of its
partition** (Pandas configuration of the executor model, where the join matches missing partition keys with each
other).  For every table description, every accepted parameter choice with `order_by` / `partition_by` naming table
columns, every environment holding the table: there are tie-breaking numbers `tb` (the helper's `_row_number()`, one
per row position) that are pairwise different and increase along `partition_by + order_by`, such that the pipeline
evaluates to a table with the table's columns whose rows are – up to row order – the input rows with the value
column replaced by `locfValue`: the row's own value if present, otherwise the value of the latest row of its
partition strictly before it in the order (`order_by` ascending with missing values last, ties broken by `tb`) whose
value is present, and missing if there is none.

(The documentation leaves the order inside a tie of `order_by` open; the statement says that *some* fixed refinement
is used consistently.  Row order: rows without any earlier value leave the left join after the others.) -/
theorem C21_locf (cv : RecMap → Table → Except Err Table) (env : Env)
    {name : String} {cols orderBy : List String} {partitionBy : Option (List String)}
    {valueCol useCol rankCol tbCol : String} {p : Ops} {t0 : Table}
    (hbuild : lastObservedCarriedForward (.table name cols) orderBy partitionBy valueCol useCol rankCol tbCol = .ok p)
    (hob : ∀ c ∈ orderBy, c ∈ cols) (hpb : ∀ c ∈ partitionBy.getD [], c ∈ cols)
    (henv : env.lookup name = some t0) (hsub : subset cols t0.cols = true) :
    ∃ (tb : Nat → Nat) (t : Table),
      (∀ j k, j < (t0.selectCols cols).rows.length → k < (t0.selectCols cols).rows.length → tb j = tb k → j = k) ∧
      (∀ j k, j < (t0.selectCols cols).rows.length → k < (t0.selectCols cols).rows.length →
        strictlyBefore (rowLe (partitionBy.getD [] ++ orderBy) []) ((t0.selectCols cols).rows.getD j [])
          ((t0.selectCols cols).rows.getD k []) = true → tb j < tb k) ∧
      sem (Theta.concrete cv) SemCfg.pandas env p = .ok t ∧ t.cols = cols ∧
      t.rows.Perm (locfSpec (rowLe orderBy []) tb (partitionBy.getD []) valueCol (t0.selectCols cols).rows) := by
  obtain ⟨rfl, hok⟩ := C21_locf_tree hbuild
  have hc : LocfCtx cols orderBy (partitionBy.getD []) valueCol useCol rankCol tbCol := ⟨hok, hob, hpb⟩
  obtain ⟨t, hsem, hcols, hperm⟩ := sem_locfTree hc cv env name t0 henv hsub
  refine ⟨tbA cols orderBy (partitionBy.getD []) valueCol useCol (t0.selectCols cols).rows, t, ?_, ?_, hsem, hcols,
    hperm⟩
  · intro j k hj hk h
    exact tbA_inj hc _ hj hk h
  · intro j k hj hk h
    simp only [strictlyBefore, Bool.and_eq_true, Bool.not_eq_true'] at h
    exact tbA_lt_of_strict hc _ hj hk h.2

/-- "unchanged if the row itself is non-missing", and the shape of the answer otherwise: the value of a candidate
(a row of the same partition, strictly earlier, with a present value) that no other candidate comes after -/
theorem C21_locf_value_reading (le : Row → Row → Bool) (tb : Nat → Nat) (part : List String) (v : String)
    (rows : List Row) (i : Nat) :
    ((((rows.getD i []).get v).isNull = false → locfValue le tb part v rows i = (rows.getD i []).get v)) ∧
    (((rows.getD i []).get v).isNull = true →
      (locfValue le tb part v rows i = Val.null ∨
       ∃ j ∈ locfCandidates le tb part v rows i, locfValue le tb part v rows i = (rows.getD j []).get v ∧
         ∀ k ∈ locfCandidates le tb part v rows i, k = j ∨ locfBefore le tb rows k j = true)) := by
  constructor
  · intro h
    unfold locfValue
    simp only [h, Bool.not_false, if_true]
  · intro h
    unfold locfValue
    simp only [h, Bool.not_true, Bool.false_eq_true, if_false]
    cases hf : (locfCandidates le tb part v rows i).find?
        (fun j => (locfCandidates le tb part v rows i).all (fun k => k == j || locfBefore le tb rows k j)) with
    | none => exact Or.inl rfl
    | some j =>
      right
      have hm := List.mem_of_find?_eq_some hf
      have hp := List.find?_some hf
      refine ⟨j, hm, rfl, ?_⟩
      intro k hk
      have := List.all_eq_true.mp hp k hk
      simpa using this

/-! ## replicate_rows_query -/

/-- **The tree `replicate_rows_query` builds**, the count frame it returns and the side conditions its assertions give:
`d` is a table description, the count column exists, the sequence column and the reserved column `power` are new and
different, `max_count > 0`; the count frame has, for every power `p ≤ powerOf max_count`, the rows
`(p<p>, 0) … (p<p>, 2^p - 1)`.  `powerOf` stands for the floating point expression `ceil(log(c)/log(2))`. -/
theorem C21_replicate_tree {powerOf : Nat → Nat} {d p : Ops} {countCol seqCol joinTemp : String} {maxCount : Nat}
    {frame : Table} (h : replicateRowsQuery powerOf d countCol seqCol joinTemp maxCount = .ok (p, frame)) :
    (∃ n cs, d = .table n cs) ∧ p = repTree d countCol seqCol joinTemp ∧
    frame = countFrame seqCol (powerOf maxCount) ∧ RepOK d.cols countCol seqCol ∧ 0 < maxCount :=
  replicate_ok h

/-- **replicate_rows_query emits every row `count` times, numbered `0 … count-1`** – under the hypothesis `hlog` that
the floating point expression the helper uses to choose a power table, `ceil(log(c)/log(2))` (`powerOf`), equals the
exact `⌈log₂ c⌉` (`clog2`) for every `c` in `1 … max_count`.  Lean has no theory of `Float.log`; the check
discharges `hlog` by evaluating the expression on numpy, Pandas and SQLite for **every** `c` in `1 … N` (suite
`hlog_table`; a complete check of a finite table).

Quantification: every interpretation `Θ` that evaluates the helper's power expression on a row with count `c` to the
key of power table `powerOf c` (`PowerSem`) and `<` on two numbers as the comparison (`LtSem`) – the executable
interpretations `thetaSol` / `thetaSqlSol` are instances, see below –, both configurations of `sem`, every table
description with distinct columns, every accepted parameter choice, every environment that holds the table and, under
`join_temp_name`, the returned count frame, provided every count cell is a natural number in `1 … max_count`
(`count = 0` is finding C21-replicate-zero-count: the real engines raise; `count > max_count` is outside the
documented bound).  The result rows come in input order, the copies of a row in order of their number. -/
theorem C21_replicate_partial (Θ : Interp) (cfg : SemCfg) (env : Env) (powerOf : Nat → Nat)
    {name joinTemp countCol seqCol : String} {cols : List String} {maxCount : Nat} {p : Ops} {frame t0 : Table}
    (hlog : ∀ c, 1 ≤ c → c ≤ maxCount → powerOf c = clog2 c)
    (hpow : PowerSem Θ countCol powerOf maxCount) (hlt : LtSem Θ)
    (hcols : cols.Nodup)
    (hbuild : replicateRowsQuery powerOf (.table name cols) countCol seqCol joinTemp maxCount = .ok (p, frame))
    (henv : env.lookup name = some t0) (hsub : subset cols t0.cols = true)
    (hjt : env.lookup joinTemp = some frame)
    (hcounts : ∀ r ∈ t0.rows, ∃ c : Nat, r.get countCol = Val.num (c : Nat) ∧ 1 ≤ c ∧ c ≤ maxCount) :
    sem Θ cfg env p = .ok (replicateSpec countCol seqCol (t0.selectCols cols)) := by
  obtain ⟨_, rfl, rfl, hok, hmax⟩ := C21_replicate_tree hbuild
  exact sem_repTree cfg env name joinTemp t0 hok hcols hlt hpow hlog hmax henv hsub hjt hcounts

/-- the hypotheses on `Θ` are satisfiable: the Pandas-side and the SQLite-side executable interpretations used by the
driver evaluate the power expression to `p⌈log₂ c⌉` (with the stand-in for `log` of `Solutions/ReplicateInterp.lean`,
so `hlog` holds by construction for `powerOf = clog2`) -/
theorem C21_replicate_interp_instances (cv : RecMap → Table → Except Err Table) (cc : String) (maxCount : Nat) :
    PowerSem (thetaSol cv) cc clog2 maxCount ∧ LtSem (thetaSol cv) ∧
    PowerSem thetaSqlSol cc clog2 maxCount ∧ LtSem thetaSqlSol :=
  ⟨thetaSol_powerSem cv cc maxCount, thetaSol_ltSem cv, thetaSqlSol_powerSem cc maxCount, thetaSqlSol_ltSem⟩

/-! ## def_multi_column_map -/

/-- **The tree `def_multi_column_map` builds** over table descriptions, for `coalesce_value` absent or an int / float /
bool constant: `d` restricted to the row keys and the listed columns, un-pivoted (`unpivot_specification`), left-joined
with the mapping table restricted to its three columns on (column name, value), the mapped value coalesced if asked,
pivoted back (`pivot_specification`), the listed columns renamed if asked.  Side conditions from the helper's
assertions and the builders' checks: at least one row key, **at least two listed columns** (a single one makes the
real helper raise: finding C21-multi-map-single-column), all the name lists duplicate free and pairwise disjoint as
asserted, the columns exist in the two tables. -/
theorem C21_multi_column_map_tree {dn mn : String} {dcols mcols keys cmap : List String} {nk vk mk : String}
    {cv : Option Lit} {back : Option (List String)} {p : Ops} (hcv : ∀ v, cv = some v → coalesceLitOk v = true)
    (h : defMultiColumnMap (.table dn dcols) (.table mn mcols) keys cmap nk vk mk cv back = .ok p) :
    p = mcmTree (.table dn dcols) (.table mn mcols) keys cmap nk vk mk cv back ∧
    McmOK dcols mcols keys cmap nk vk mk cv back :=
  mcm_ok hcv h

/-- **def_multi_column_map maps every listed column through the mapping table** (Pandas configuration of the
executor model; the record transforms are those `Solutions/MultiColumnMap.lean` transcribes from the Pandas
executor for the helper's two record maps).  For all table descriptions `d` and `mapping_table`, every accepted
parameter choice (coalesce value absent or numeric / boolean), every environment holding the two tables, **if `d` is
uniquely keyed by `row_keys` and the mapping table by (`col_name_key`, `col_value_key`)** – the documented
preconditions – the pipeline evaluates to a table that is, up to row order, `multiMapSpec`: one row per row of `d`
with its row keys and, for every listed column under its (new) name, the mapped value of the mapping row with that
column name and that cell value (`mapLookup`), replaced by the coalesce value when there is no such row or its
mapped value is missing.  (Cells are matched by equality; a missing cell matches a mapping row whose value is
missing, as Pandas `merge` does.) -/
theorem C21_multi_column_map (env : Env) {dn mn : String} {dcols mcols keys cmap : List String} {nk vk mk : String}
    {cv : Option Lit} {back : Option (List String)} {p : Ops} {D0 M0 : Table}
    (hcv : ∀ v, cv = some v → coalesceLitOk v = true)
    (hbuild : defMultiColumnMap (.table dn dcols) (.table mn mcols) keys cmap nk vk mk cv back = .ok p)
    (hdenv : env.lookup dn = some D0) (hdsub : subset dcols D0.cols = true)
    (hmenv : env.lookup mn = some M0) (hmsub : subset mcols M0.cols = true)
    (hD : ((D0.selectCols dcols).rows.map (fun r => r.vals keys)).Nodup)
    (hM : ((M0.selectCols mcols).rows.map (fun r => r.vals [nk, vk])).Nodup) :
    ∃ t, sem (Theta.concrete (mcmConvert keys nk vk mk cmap)) SemCfg.pandas env p = .ok t ∧
      t ≈ multiMapSpec nk vk mk (M0.selectCols mcols).rows keys (cmap.zip (back.getD cmap)) (cv.map Lit.toVal)
        (D0.selectCols dcols) := by
  obtain ⟨rfl, hok⟩ := C21_multi_column_map_tree hcv hbuild
  exact sem_mcmTree hok env dn mn D0 M0 hdenv hdsub hmenv hmsub hD hM

/-! ## non-vacuity: concrete instances -/

namespace C21Ex
open DAVerif.Sql

def cvNone : RecMap → Table → Except Err Table := fun _ _ => .error .other

/-- the documentation's example `rank_to_average([1, 1, 2]) = [1.5, 1.5, 3]`, with a second partition -/
def tRank : Table :=
  ⟨["g", "x"], [[("g", .str "a"), ("x", .num 1)], [("g", .str "a"), ("x", .num 1)], [("g", .str "a"), ("x", .num 2)],
                [("g", .str "b"), ("x", .num 1)]]⟩
def envRank : Env := [("d", tRank)]

def pRank : Ops := rankTree (.table "d" ["g", "x"]) ["x"] ["g"] "rk" "rank_tie_breaker"

theorem pRank_built : rankToAverage (.table "d" ["g", "x"]) ["x"] (some ["g"]) "rk" = .ok pRank := by
  have hacc : (rankToAverage (.table "d" ["g", "x"]) ["x"] (some ["g"]) "rk").isOk = true := by decide +kernel
  cases hq : rankToAverage (.table "d" ["g", "x"]) ["x"] (some ["g"]) "rk" with
  | error e => rw [hq] at hacc; cases hacc
  | ok p => rw [(C21_rank_to_average_tree hq).1]; rfl

/-- the theorem applies and gives the documented ranks -/
example : sem (Theta.concrete cvNone) .pandas envRank pRank
    = .ok (rankSpec (rowLe ["x"] []) ["g"] "rk" (tRank.selectCols ["g", "x"])) := by
  have henv : envRank.lookup "d" = some tRank := by decide +kernel
  have hsub : subset ["g", "x"] tRank.cols = true := by decide +kernel
  have := C21_rank_to_average cvNone .pandas envRank pRank_built henv hsub
  exact this

example : (rankSpec (rowLe ["x"] []) ["g"] "rk" tRank).rows.map (fun r => r.get "rk")
    = [.num (3/2), .num (3/2), .num 3, .num 1] := by decide +kernel

/-- last_observed_carried_forward: two partitions, missing values at the start, in the middle and at the end -/
def tLocf : Table :=
  ⟨["g", "o", "v"],
   [[("g", .str "a"), ("o", .num 1), ("v", .null)], [("g", .str "a"), ("o", .num 2), ("v", .num 5)],
    [("g", .str "a"), ("o", .num 3), ("v", .null)], [("g", .str "b"), ("o", .num 1), ("v", .num 7)],
    [("g", .str "b"), ("o", .num 2), ("v", .null)]]⟩
def envLocf : Env := [("d", tLocf)]

/-- the helper accepts these parameters and the theorem applies -/
example : ∃ p, lastObservedCarriedForward (.table "d" ["g", "o", "v"]) ["o"] (some ["g"]) "v" = .ok p ∧
    ∃ (tb : Nat → Nat) (t : Table), sem (Theta.concrete cvNone) .pandas envLocf p = .ok t ∧ t.cols = ["g", "o", "v"] ∧
      t.rows.Perm (locfSpec (rowLe ["o"] []) tb ["g"] "v" tLocf.rows) := by
  have hacc : (lastObservedCarriedForward (.table "d" ["g", "o", "v"]) ["o"] (some ["g"]) "v").isOk = true := by
    decide +kernel
  cases hq : lastObservedCarriedForward (.table "d" ["g", "o", "v"]) ["o"] (some ["g"]) "v" with
  | error e => rw [hq] at hacc; cases hacc
  | ok p =>
    refine ⟨p, rfl, ?_⟩
    have henv : envLocf.lookup "d" = some tLocf := by decide +kernel
    have hsub : subset ["g", "o", "v"] tLocf.cols = true := by decide +kernel
    obtain ⟨tb, t, _, _, hsem, hcols, hperm⟩ := C21_locf cvNone envLocf hq (by decide) (by decide) henv hsub
    have hrows : (tLocf.selectCols ["g", "o", "v"]).rows = tLocf.rows := by decide +kernel
    rw [hrows] at hperm
    exact ⟨tb, t, hsem, hcols, hperm⟩

/-- with any tie-breaking numbers (there are no ties here) the promised values are `-, 5, 5, 7, 7` -/
example : (locfSpec (rowLe ["o"] []) (fun j => j) ["g"] "v" tLocf.rows).map (fun r => r.get "v")
    = [.null, .num 5, .num 5, .num 7, .num 7] := by decide +kernel

/-- def_multi_column_map: two columns mapped, one unmapped value coalesced to `0` -/
def tMcmD : Table :=
  ⟨["id", "a", "b"], [[("id", .num 1), ("a", .str "x"), ("b", .str "y")], [("id", .num 2), ("a", .str "y"), ("b", .str "q")]]⟩
def tMcmM : Table :=
  ⟨["column_name", "column_value", "mapped_value"],
   [[("column_name", .str "a"), ("column_value", .str "x"), ("mapped_value", .num 10)],
    [("column_name", .str "a"), ("column_value", .str "y"), ("mapped_value", .num 20)],
    [("column_name", .str "b"), ("column_value", .str "y"), ("mapped_value", .num 30)]]⟩
def envMcm : Env := [("d", tMcmD), ("m", tMcmM)]

example : ∃ p, defMultiColumnMap (.table "d" ["id", "a", "b"]) (.table "m" ["column_name", "column_value", "mapped_value"])
      ["id"] ["a", "b"] "column_name" "column_value" "mapped_value" (some (.int 0)) none = .ok p ∧
    ∃ t, sem (Theta.concrete (mcmConvert ["id"] "column_name" "column_value" "mapped_value" ["a", "b"])) .pandas envMcm p
        = .ok t ∧
      t ≈ multiMapSpec "column_name" "column_value" "mapped_value" tMcmM.rows ["id"] [("a", "a"), ("b", "b")]
        (some (.num 0)) tMcmD := by
  have hacc : (defMultiColumnMap (.table "d" ["id", "a", "b"])
      (.table "m" ["column_name", "column_value", "mapped_value"]) ["id"] ["a", "b"] "column_name" "column_value"
      "mapped_value" (some (.int 0)) none).isOk = true := by decide +kernel
  cases hq : defMultiColumnMap (.table "d" ["id", "a", "b"])
      (.table "m" ["column_name", "column_value", "mapped_value"]) ["id"] ["a", "b"] "column_name" "column_value"
      "mapped_value" (some (.int 0)) none with
  | error e => rw [hq] at hacc; cases hacc
  | ok p =>
    refine ⟨p, rfl, ?_⟩
    have henvd : envMcm.lookup "d" = some tMcmD := by decide +kernel
    have henvm : envMcm.lookup "m" = some tMcmM := by decide +kernel
    obtain ⟨t, hsem, heq⟩ := C21_multi_column_map envMcm (D0 := tMcmD) (M0 := tMcmM)
      (by intro v hv; cases hv; rfl) hq henvd (by decide +kernel) henvm (by decide +kernel)
      (by decide +kernel) (by decide +kernel)
    refine ⟨t, hsem, ?_⟩
    have h1 : (tMcmM.selectCols ["column_name", "column_value", "mapped_value"]).rows = tMcmM.rows := by decide +kernel
    have h2 : tMcmD.selectCols ["id", "a", "b"] = tMcmD := by decide +kernel
    rw [h1, h2] at heq
    exact heq

example : (multiMapSpec "column_name" "column_value" "mapped_value" tMcmM.rows ["id"] [("a", "a"), ("b", "b")]
    (some (.num 0)) tMcmD).rows
    = [[("id", .num 1), ("a", .num 10), ("b", .num 30)], [("id", .num 2), ("a", .num 20), ("b", .num 0)]] := by
  decide +kernel

/-- replicate: counts 1, 3, 4 with `max_count = 4` -/
def tRep : Table :=
  ⟨["k", "n"], [[("k", .str "a"), ("n", .num 1)], [("k", .str "b"), ("n", .num 3)], [("k", .str "c"), ("n", .num 4)]]⟩
def envRep : Env := [("d", tRep), ("jt", countFrame "i" 2)]

/-- the helper accepts these parameters, and the theorem applies to what it returns -/
example : ∃ p frame, replicateRowsQuery clog2 (.table "d" ["k", "n"]) "n" "i" "jt" 4 = .ok (p, frame) ∧
    frame = countFrame "i" 2 ∧
    sem (thetaSol cvNone) .pandas envRep p = .ok (replicateSpec "n" "i" (tRep.selectCols ["k", "n"])) := by
  have hacc : (replicateRowsQuery clog2 (.table "d" ["k", "n"]) "n" "i" "jt" 4).isOk = true := by decide +kernel
  cases hq : replicateRowsQuery clog2 (.table "d" ["k", "n"]) "n" "i" "jt" 4 with
  | error e => rw [hq] at hacc; cases hacc
  | ok pf =>
    obtain ⟨p, frame⟩ := pf
    have hfr : frame = countFrame "i" 2 := (C21_replicate_tree hq).2.2.1
    refine ⟨p, frame, rfl, hfr, ?_⟩
    refine C21_replicate_partial (thetaSol cvNone) .pandas envRep clog2 (fun _ _ _ => rfl)
      (thetaSol_powerSem cvNone "n" 4) (thetaSol_ltSem cvNone) (by decide) hq (t0 := tRep) rfl rfl
      (by rw [hfr]; rfl) ?_
    intro r hr
    simp only [tRep, List.mem_cons, List.not_mem_nil, or_false] at hr
    rcases hr with rfl | rfl | rfl
    · exact ⟨1, rfl, by omega, by omega⟩
    · exact ⟨3, rfl, by omega, by omega⟩
    · exact ⟨4, rfl, by omega, by omega⟩

example : (replicateSpec "n" "i" tRep).rows.length = 8 := by decide +kernel

end C21Ex

end DAVerif
