import DAVerif.Proofs.RefJoin
import DAVerif.Proofs.SemBasic
import DAVerif.Sem.Theta
/-!
# C16  natural_join matches SQL join semantics  (executor model)

Specification side (`Spec/Ref.lean`): `Ref.refJoin jt onA onB ta tb` – the standard SQL joins as a textbook
nested loop (key equality in three-valued logic, so a null key never matches; LEFT/RIGHT/FULL add the unmatched
rows of the respective side padded with nulls; CROSS = all pairs; output columns = left columns then the new
right columns; every output cell is `COALESCE(left cell, right cell)`), and the guard `Ref.G_nonNullKeys` of
finding D18.

Theorems here are about the executor model `semJoin` (the join step of `sem`):
* `SemCfg.ref` computes exactly `refJoin` (`C16_ref_is_sql`, `C16_sem_ref_join`);
* `SemCfg.pandas` (what `pandas_base.py` computes: `pandas.merge`) computes it **under the guard** `G_nonNullKeys`
  (`C16_pandas_partial`, every join type), the guard is necessary (`C16_pandas_nullkeys_necessary`, finding D18);
  CROSS is the plain product without any guard (`C16_pandas_cross`, after fix 1a3e0a8 of /repo);
* the executor *before* fix 1a3e0a8 (`crossAsOuter = true`: CROSS as an outer merge on a constant key) computed the
  product only when both sides have rows or neither has (`C16_cross_as_outer_partial`), and that guard was necessary
  (`C16_cross_as_outer_necessary`: one empty side gives the other side padded – the defect the fix repaired);
* `jointype="outer"` is evaluated as a FULL join by `sem` in both configurations (`C16_outer_is_full`); it is
  not one of the five types of the property (Appendix B of DESIGN.md);
* differently named keys keep both key columns with null padding (`C16_diffkeys`); shared columns are coalesced
  left-then-right (`C16_coalesce`).
The SQL-side theorems (SQLite emulations, native joins) are in the `DAVerif.Sql` development.

Full statement that does **not** hold for the Pandas configuration (kept for the record):
  `∀ jt onA onB ta tb, semJoin SemCfg.pandas jt onA onB ta tb (appendNew ta.cols tb.cols) ≈ refJoin jt onA onB ta tb`
-/
namespace DAVerif
open RefSem

/-- **C16, the reference configuration is the SQL join.**  With as many left as right key columns (the builder
asserts it) and distinct right column names, the join step of the reference semantics returns the columns and
exactly the rows (as a multiset) of the standard SQL join, for INNER, LEFT, RIGHT, FULL, CROSS (and OUTER, which is
evaluated as FULL): duplicate keys give all combinations, a null key never matches. -/
theorem C16_ref_is_sql (jt : JoinType) {onA onB : List String} (hlen : onA.length = onB.length) (ta tb : Table)
    (hb : tb.cols.Nodup) :
    semJoin SemCfg.ref jt onA onB ta tb (appendNew ta.cols tb.cols) ≈ Ref.refJoin jt onA onB ta tb := by
  rw [appendNew_eq_filter hb]
  exact semJoin_ref_equiv_refJoin jt hlen ta tb

/-- **C16 for a `natural_join` node of a pipeline** (reference semantics): the result is the reference join of the
results of the two sub-pipelines, its columns arranged as the node declares them. -/
theorem C16_sem_ref_join (Θ : Interp) (hΘ : ConvertOK Θ) (env : Env) (a b : Ops) {onA onB : List String}
    (jt : JoinType) (hlen : onA.length = onB.length) (hb : b.cols.Nodup) {t : Table}
    (h : sem Θ SemCfg.ref env (.join a b onA onB jt) = .ok t) :
    ∃ ta tb, sem Θ SemCfg.ref env a = .ok ta ∧ sem Θ SemCfg.ref env b = .ok tb ∧
      t ≈ (Ref.refJoin jt onA onB ta tb).selectCols (Ops.join a b onA onB jt).cols := by
  simp only [sem, bind, Except.bind] at h
  split at h
  · cases h
  · rename_i ta hta
    split at h
    · cases h
    · rename_i tb htb
      cases h
      refine ⟨ta, tb, hta, htb, ?_⟩
      have hca := (sem_cols_wf Θ hΘ _ env a ta hta).1
      have hcb := (sem_cols_wf Θ hΘ _ env b tb htb).1
      rw [← hca, ← hcb]
      exact (C16_ref_is_sql jt hlen ta tb (hcb ▸ hb)).selectCols _

/-- `jointype="outer"` is evaluated exactly like `"full"`, by the executor model in both configurations and by
the reference join -/
theorem C16_outer_is_full (cfg : SemCfg) (onA onB : List String) (ta tb : Table) (oc : List String) :
    semJoin cfg .outer onA onB ta tb oc = semJoin cfg .full onA onB ta tb oc ∧
    Ref.refJoin .outer onA onB ta tb = Ref.refJoin .full onA onB ta tb := by
  constructor
  · simp only [semJoin]
    rfl
  · simp only [Ref.refJoin, Ref.joins, Ref.keepsLeft, Ref.keepsRight]
    rfl

/-- a null key never matches: if the SQL key condition holds, no key cell on either side is null -/
theorem C16_null_keys_never_match {onA onB : List String} {ra rb : Row}
    (h : Ref.keysEqual onA onB ra rb = true) :
    ∀ ab ∈ onA.zip onB, (ra.get ab.1).isNull = false ∧ (rb.get ab.2).isNull = false ∧ ra.get ab.1 = rb.get ab.2 := by
  intro ab hab
  have := List.all_eq_true.mp h ab hab
  simp only [Bool.and_eq_true, Bool.not_eq_eq_eq_not, Bool.not_true, beq_iff_eq] at this
  exact ⟨this.1.1, this.1.2, this.2⟩

/-- **C16, Pandas executor, guarded.**  When no pair of key columns has a null on both sides
(`Ref.G_nonNullKeys`), the Pandas executor's joins – all types – are exactly the joins of the reference
configuration, hence (`C16_pandas_is_sql_partial`) the standard SQL joins. -/
theorem C16_pandas_partial {jt : JoinType} {onA onB : List String} {ta tb : Table} (oc : List String)
    (hg : Ref.G_nonNullKeys ta tb onA onB) :
    semJoin SemCfg.pandas jt onA onB ta tb oc ≈ semJoin SemCfg.ref jt onA onB ta tb oc :=
  Table.Equiv.of_eq (semJoin_pandas_eq_ref oc hg)

theorem C16_pandas_is_sql_partial {jt : JoinType} {onA onB : List String} (hlen : onA.length = onB.length)
    {ta tb : Table} (hb : tb.cols.Nodup) (hg : Ref.G_nonNullKeys ta tb onA onB) :
    semJoin SemCfg.pandas jt onA onB ta tb (appendNew ta.cols tb.cols) ≈ Ref.refJoin jt onA onB ta tb :=
  (C16_pandas_partial _ hg).trans (C16_ref_is_sql jt hlen ta tb hb)

/-- **C16, CROSS on the Pandas executor** (after fix 1a3e0a8: an inner merge on a constant key) is the plain
product, for all inputs – empty sides and null cells included; a CROSS join has no keys, but even if it had they
would be ignored. -/
theorem C16_pandas_cross (onA onB : List String) (ta tb : Table) (oc : List String) :
    semJoin SemCfg.pandas .cross onA onB ta tb oc ≈ semJoin SemCfg.ref .cross onA onB ta tb oc :=
  Table.Equiv.of_eq (semJoin_cross_eq_ref true onA onB ta tb oc)

theorem C16_pandas_cross_is_sql (ta tb : Table) (hb : tb.cols.Nodup) :
    semJoin SemCfg.pandas .cross [] [] ta tb (appendNew ta.cols tb.cols) ≈ Ref.refJoin .cross [] [] ta tb :=
  (C16_pandas_cross [] [] ta tb _).trans (C16_ref_is_sql .cross rfl ta tb hb)

/-- **CROSS as an outer merge on a constant key** – the executor *before* fix 1a3e0a8 (`crossAsOuter = true`) – is
the plain product exactly under the guard "both inputs have rows or neither has". -/
theorem C16_cross_as_outer_partial (n : Bool) {onA onB : List String} {ta tb : Table} (oc : List String)
    (h : ta.rows = [] ↔ tb.rows = []) :
    semJoin ⟨n, true⟩ .cross onA onB ta tb oc ≈ semJoin SemCfg.ref .cross onA onB ta tb oc :=
  Table.Equiv.of_eq (semJoin_crossAsOuter_eq_ref n oc h)

/-! ### differently named keys, shared columns -/

theorem coalesce_null_right (x : Val) : Ref.coalesce x .null = x := by cases x <;> rfl
theorem coalesce_null_left (x : Val) : Ref.coalesce .null x = x := rfl

theorem get_of_keyOf_eq : ∀ {onA onB : List String} {ra rb : Row} {a b : String},
    keyOf ra onA = keyOf rb onB → (a, b) ∈ onA.zip onB → ra.get a = rb.get b
  | [], _, _, _, _, _, _, h => by simp at h
  | _ :: _, [], _, _, _, _, _, h => by simp at h
  | x :: xs, y :: ys, ra, rb, a, b, hk, h => by
    simp only [keyOf, Row.vals, List.map_cons, List.cons.injEq] at hk
    simp only [List.zip_cons_cons, List.mem_cons, Prod.mk.injEq] at h
    rcases h with ⟨rfl, rfl⟩ | h
    · exact hk.1
    · exact get_of_keyOf_eq (onA := xs) (onB := ys) hk.2 h

/-- **C16, differently named keys.**  For a key pair `(a, b)` with `a` a column of the left side only and `b` a
column of the right side only, both key columns are in the result (reference configuration, INNER/LEFT/RIGHT/FULL),
and every result row is of one of three kinds: a matched pair – both cells carry the common non-null key value –,
an unmatched left row – `a` from the left row, `b` padded with null –, or an unmatched right row – `a` padded with
null, `b` from the right row. -/
theorem C16_diffkeys {jt : JoinType} {onA onB : List String} {ta tb : Table} {oc : List String} {a b : String}
    (hab : (a, b) ∈ onA.zip onB) (ha : a ∈ ta.cols) (ha' : a ∉ tb.cols) (hb : b ∈ tb.cols) (hb' : b ∉ ta.cols)
    (hoa : a ∈ oc) (hob : b ∈ oc) (hjt : jt ≠ .cross) :
    ∀ r ∈ (semJoin SemCfg.ref jt onA onB ta tb oc).rows,
      (∃ ra ∈ ta.rows, ∃ rb ∈ tb.rows, r.get a = ra.get a ∧ r.get b = rb.get b ∧ ra.get a = rb.get b ∧
        (ra.get a).isNull = false) ∨
      (∃ ra ∈ ta.rows, r.get a = ra.get a ∧ r.get b = .null) ∨
      (∃ rb ∈ tb.rows, r.get a = .null ∧ r.get b = rb.get b) := by
  have hca : ta.cols.contains a = true := List.contains_iff_mem.mpr ha
  have hcb : tb.cols.contains b = true := List.contains_iff_mem.mpr hb
  have hca' : tb.cols.contains a = false := by
    rw [Bool.eq_false_iff]; exact fun h => ha' (List.contains_iff_mem.mp h)
  have hcb' : ta.cols.contains b = false := by
    rw [Bool.eq_false_iff]; exact fun h => hb' (List.contains_iff_mem.mp h)
  intro r hr
  rcases mem_semJoin_rows hr with ⟨ra, hra, rb, hrb, hm, rfl⟩ | ⟨ra, hra, rfl⟩ | ⟨rb, hrb, rfl⟩
  · refine Or.inl ⟨ra, hra, rb, hrb, ?_, ?_, ?_, ?_⟩
    · rw [get_joinRow hoa]
      simp only [Ref.sideCell, hca, hca', if_true, Bool.false_eq_true, if_false, coalesce_null_right]
    · rw [get_joinRow hob]
      simp only [Ref.sideCell, hcb, hcb', if_true, Bool.false_eq_true, if_false, coalesce_null_left]
    all_goals
      have hne : onA.isEmpty = false := by
        cases onA with
        | nil => simp at hab
        | cons => rfl
      have hcr : (jt == JoinType.cross) = false := by cases jt <;> first | rfl | exact absurd rfl hjt
      simp only [hcr, hne, Bool.or_self, Bool.false_or, keyMatch, SemCfg.ref, Bool.and_eq_true,
        beq_iff_eq] at hm
    · exact get_of_keyOf_eq hm.1 hab
    · have := List.all_eq_true.mp hm.2 (ra.get a)
        (List.mem_map.mpr ⟨a, (List.of_mem_zip hab).1, rfl⟩)
      simpa using this
  · refine Or.inr (Or.inl ⟨ra, hra, ?_, ?_⟩)
    · rw [get_joinRow hoa]
      simp only [Ref.sideCell, hca, if_true, coalesce_null_right]
    · rw [get_joinRow hob]
      simp only [Ref.sideCell, hcb', Bool.false_eq_true, if_false, coalesce_null_left]
  · refine Or.inr (Or.inr ⟨rb, hrb, ?_, ?_⟩)
    · rw [get_joinRow hoa]
      simp only [Ref.sideCell, hca', Bool.false_eq_true, if_false, coalesce_null_left]
    · rw [get_joinRow hob]
      simp only [Ref.sideCell, hcb, if_true, coalesce_null_left]

/-- **C16, shared columns.**  For a column `c` of both sides (a same-named key or a shared non-key column), in
both configurations and for every join type: a row made from a left row and a right row carries the left value,
or the right value where the left is null; an unmatched left (right) row carries its own value. -/
theorem C16_coalesce {cfg : SemCfg} {jt : JoinType} {onA onB : List String} {ta tb : Table} {oc : List String}
    {c : String} (ha : c ∈ ta.cols) (hb : c ∈ tb.cols) (hoc : c ∈ oc) :
    ∀ r ∈ (semJoin cfg jt onA onB ta tb oc).rows,
      (∃ ra ∈ ta.rows, ∃ rb ∈ tb.rows,
        r.get c = if (ra.get c).isNull then rb.get c else ra.get c) ∨
      (∃ ra ∈ ta.rows, r.get c = ra.get c) ∨
      (∃ rb ∈ tb.rows, r.get c = rb.get c) := by
  have hca : ta.cols.contains c = true := List.contains_iff_mem.mpr ha
  have hcb : tb.cols.contains c = true := List.contains_iff_mem.mpr hb
  intro r hr
  rcases mem_semJoin_rows hr with ⟨ra, hra, rb, hrb, _, rfl⟩ | ⟨ra, hra, rfl⟩ | ⟨rb, hrb, rfl⟩
  · refine Or.inl ⟨ra, hra, rb, hrb, ?_⟩
    rw [get_joinRow hoc]
    simp only [Ref.sideCell, hca, hcb, if_true, Ref.coalesce]
  · refine Or.inr (Or.inl ⟨ra, hra, ?_⟩)
    rw [get_joinRow hoc]
    simp only [Ref.sideCell, hca, if_true, coalesce_null_right]
  · refine Or.inr (Or.inr ⟨rb, hrb, ?_⟩)
    rw [get_joinRow hoc]
    simp only [Ref.sideCell, hcb, if_true, coalesce_null_left]

/-! ## Non-vacuity and necessity of the guards -/
namespace C16Ex

/-- `L(k, a, v)`: duplicate key 1, a null key -/
def L : Table := ⟨["k", "a", "v"],
  [[("k", .num 1), ("a", .num 10), ("v", .null)], [("k", .num 1), ("a", .num 11), ("v", .num 7)],
   [("k", .null), ("a", .num 12), ("v", .num 8)], [("k", .num 3), ("a", .num 13), ("v", .num 9)]]⟩
/-- `R(k, b, v)`: key 1, key 2, no null key -/
def R : Table := ⟨["k", "b", "v"],
  [[("k", .num 1), ("b", .num 20), ("v", .num 5)], [("k", .num 2), ("b", .num 21), ("v", .num 6)]]⟩
/-- `Rn`: as `R` with a null key -/
def Rn : Table := ⟨["k", "b", "v"],
  [[("k", .num 1), ("b", .num 20), ("v", .num 5)], [("k", .null), ("b", .num 21), ("v", .num 6)]]⟩
/-- `R'(j, b)`: differently named key -/
def R' : Table := ⟨["j", "b"], [[("j", .num 1), ("b", .num 20)], [("j", .num 2), ("b", .num 21)]]⟩

/-- the guard holds for `L`, `R` (the right key column has no null) although the left one has a null -/
example : Ref.G_nonNullKeys L R ["k"] ["k"] := by decide
example : ¬ Ref.G_nonNullKeys L Rn ["k"] ["k"] := by decide

/-- the FULL reference join of `L` and `R`: 2 matched rows (shared `v` coalesced: 5 where the left is null,
else the left 7), 2 unmatched left rows (one with the null key), 1 unmatched right row -/
example : (Ref.refJoin .full ["k"] ["k"] L R).rows =
    [[("k", .num 1), ("a", .num 10), ("v", .num 5), ("b", .num 20)],
     [("k", .num 1), ("a", .num 11), ("v", .num 7), ("b", .num 20)],
     [("k", .null), ("a", .num 12), ("v", .num 8), ("b", .null)],
     [("k", .num 3), ("a", .num 13), ("v", .num 9), ("b", .null)],
     [("k", .num 2), ("a", .null), ("v", .num 6), ("b", .num 21)]] := by decide

example : semJoin SemCfg.pandas .full ["k"] ["k"] L R (appendNew L.cols R.cols) ≈ Ref.refJoin .full ["k"] ["k"] L R :=
  C16_pandas_is_sql_partial rfl (by decide) (by decide)

/-- differently named keys: both key columns are kept, null padded -/
example : (Ref.refJoin .full ["k"] ["j"] L R').rows =
    [[("k", .num 1), ("a", .num 10), ("v", .null), ("j", .num 1), ("b", .num 20)],
     [("k", .num 1), ("a", .num 11), ("v", .num 7), ("j", .num 1), ("b", .num 20)],
     [("k", .null), ("a", .num 12), ("v", .num 8), ("j", .null), ("b", .null)],
     [("k", .num 3), ("a", .num 13), ("v", .num 9), ("j", .null), ("b", .null)],
     [("k", .null), ("a", .null), ("v", .null), ("j", .num 2), ("b", .num 21)]] := by decide

def N1 : Table := ⟨["k", "a"], [[("k", .null), ("a", .num 1)]]⟩
def N2 : Table := ⟨["k", "b"], [[("k", .null), ("b", .num 2)]]⟩
def E : Table := ⟨["b"], []⟩
def A1 : Table := ⟨["a"], [[("a", .num 1)]]⟩

end C16Ex

open C16Ex in
/-- **The guard `G_nonNullKeys` is necessary** (finding D18: `pandas.merge` matches null keys).  An INNER join of
`(k = null, a = 1)` with `(k = null, b = 2)` on `k`: the Pandas executor returns one row, the standard join none
(the real library does the same on this input). -/
theorem C16_pandas_nullkeys_necessary :
    ¬ ∀ (jt : JoinType) (onA onB : List String) (ta tb : Table),
        semJoin SemCfg.pandas jt onA onB ta tb (appendNew ta.cols tb.cols)
          ≈ semJoin SemCfg.ref jt onA onB ta tb (appendNew ta.cols tb.cols) := by
  intro h
  exact absurd (h .inner ["k"] ["k"] N1 N2) (by decide)

open C16Ex in
/-- **The guard of `C16_cross_as_outer_partial` was necessary** (the defect repaired by fix 1a3e0a8, pipegen's
N11).  A CROSS join of a one-row table with an empty table: evaluated as an outer merge on a constant key it
returns the row padded with null; the product is empty. -/
theorem C16_cross_as_outer_necessary :
    ¬ ∀ (ta tb : Table), semJoin ⟨true, true⟩ .cross [] [] ta tb (appendNew ta.cols tb.cols)
        ≈ semJoin SemCfg.ref .cross [] [] ta tb (appendNew ta.cols tb.cols) := by
  intro h
  exact absurd (h A1 E) (by decide)

/-- on the same input the executor after the fix returns no rows -/
example : (semJoin SemCfg.pandas .cross [] [] C16Ex.A1 C16Ex.E (appendNew C16Ex.A1.cols C16Ex.E.cols)).rows = [] := by
  decide

end DAVerif
