import DAVerif.Proofs.EqSem
import DAVerif.Proofs.EqBuild
/-!
# C11 — Pipelines that compare equal behave identically

Property theorems only.  Model of `==`: `Eq.eqOps` (Ops/Eq.lean: `ViewRepresentation.__eq__`, every
`_equiv_nodes`, `is_equal`, `RecordMap.__eq__` of /repo with the fixes D8 D9 D10 D28 and the three C11 fixes).
Specification side: `Term.erase` / `Ops.erase` (Spec/Erase.lean) forget the one thing `==` ignores on purpose,
the `method` flag of expressions; "structurally identical up to ignored data" is `erase p = erase q`.
Semantics: `sem` (Sem/Eval.lean) for every interpretation `Θ`, both configurations, every environment.

Side conditions.  They are invariants of the Python representation, not restrictions of the claim:
* `DictWF p`   — the assignments of each extend/project step have distinct keys (they are `dict`s; the
                 builders reject duplicate keys: `parseAssignments`);
* `RecCoherent p q` — record maps with the same printed specifications need the same columns (`needed` is
                 computed from the specifications; the model's `RecMap` is an abstract summary).
Both are shown necessary *in the model* below (association lists can have duplicate keys, abstract summaries
can disagree); neither can be violated by real objects.

The SQL half of the property ("the same SQL in every dialect") has no Lean model of the generator yet.  It is
reduced here to: equal pipelines are structurally identical up to `method` flags (`C11_sound_struct`); that
`to_sql` does not look at `method` is checked on the real code by the oracle of `harness/props/c11.py`.
-/
namespace DAVerif.C11
open DAVerif

/-! ## 1. `==` is an equivalence -/

/-- `p == p` for every pipeline. -/
theorem C11_refl (p : Ops) (h : p.DictWF) : Eq.eqOps p p = true := Eq.eqOps_refl p h

/-- `(p == q) = (q == p)` for all pipelines (dict invariant on one of them suffices). -/
theorem C11_symm (p q : Ops) (h : p.DictWF ∨ q.DictWF) : Eq.eqOps p q = Eq.eqOps q p := Eq.eqOps_symm p q h

/-- `p == q` and `q == r` imply `p == r`. -/
theorem C11_trans (p q r : Ops) (h : p.DictWF) (h1 : Eq.eqOps p q = true) (h2 : Eq.eqOps q r = true) :
    Eq.eqOps p r = true := Eq.eqOps_trans h h1 h2

/-! ## 2. Equal pipelines are structurally identical up to the `method` flags -/

/-- If `p == q` then `p` and `q` are the same tree once the `method` flags are forgotten. -/
theorem C11_sound_struct (p q : Ops) (h : p.DictWF ∨ q.DictWF) (hc : Ops.RecCoherent p q)
    (he : Eq.eqOps p q = true) : p.erase = q.erase := (Eq.eqOps_iff_erase p q h hc).1 he

/-- Conversely `==` is complete for that relation: trees that differ only in `method` flags compare equal
(`==` never separates two pipelines that are the same up to ignored data). -/
theorem C11_complete_struct (p q : Ops) (h : p.DictWF ∨ q.DictWF) (he : p.erase = q.erase) :
    Eq.eqOps p q = true := (Eq.eqOps_iff_norm p q h).2 (Eq.norm_eq_of_erase_eq he)

/-- The semantics does not look at the ignored data: `sem` factors through `erase`. -/
theorem C11_sem_erase (Θ : Interp) (cfg : SemCfg) (env : Env) (p : Ops) :
    sem Θ cfg env p.erase = sem Θ cfg env p := sem_erase Θ cfg env p

/-- The declared column names do not look at the ignored data either. -/
theorem C11_cols_erase (p : Ops) : p.erase.cols = p.cols := Ops.cols_erase p

/-! ## 3. Equal pipelines produce the same result on every input -/

/-- If `p == q` then `p` and `q` evaluate to the same outcome (table or error) for every interpretation of
the function symbols, in both semantic configurations (Pandas executor / reference), on every environment. -/
theorem C11_sound_sem (p q : Ops) (h : p.DictWF ∨ q.DictWF) (hc : Ops.RecCoherent p q) (he : Eq.eqOps p q = true) :
    ∀ (Θ : Interp) (cfg : SemCfg) (env : Env), sem Θ cfg env p = sem Θ cfg env q := by
  intro Θ cfg env
  rw [← sem_erase Θ cfg env p, ← sem_erase Θ cfg env q, C11_sound_struct p q h hc he]

/-- … and declare the same columns. -/
theorem C11_sound_cols (p q : Ops) (h : p.DictWF ∨ q.DictWF) (he : Eq.eqOps p q = true) : p.cols = q.cols :=
  Ops.cols_eq_of_norm_eq ((Eq.eqOps_iff_norm p q h).1 he)

/-! ## 3b. Pipelines made by the builders

`ReachableC11 p`: `p` is obtained from table descriptions by builder calls (`build`, Ops/Builder.lean; the `b`
arguments of joins and concats are built the same way).  For such pipelines the dict invariant is a theorem,
not a hypothesis: `parse_assignments_in_context` rejects duplicate keys and `try_to_merge_ops` keeps the keys of
a merged extend distinct. -/

/-- every pipeline the builders can produce has dict-like assignments -/
theorem C11_reachable_dictWF {p : Ops} (h : ReachableC11 p) : p.DictWF := reachable_dictWF h

/-- `p == p` for every pipeline the builders can produce -/
theorem C11_refl_reachable {p : Ops} (h : ReachableC11 p) : Eq.eqOps p p = true :=
  C11_refl p (reachable_dictWF h)

/-- `(p == q) = (q == p)` as soon as one side was made by the builders -/
theorem C11_symm_reachable {p : Ops} (q : Ops) (h : ReachableC11 p) : Eq.eqOps p q = Eq.eqOps q p :=
  C11_symm p q (.inl (reachable_dictWF h))

/-- equal pipelines, one of them made by the builders, evaluate to the same outcome everywhere -/
theorem C11_sound_sem_reachable {p : Ops} (q : Ops) (h : ReachableC11 p) (hc : Ops.RecCoherent p q)
    (he : Eq.eqOps p q = true) :
    ∀ (Θ : Interp) (cfg : SemCfg) (env : Env), sem Θ cfg env p = sem Θ cfg env q :=
  C11_sound_sem p q (.inl (reachable_dictWF h)) hc he

/-! ## 4. The side conditions are necessary in the model -/

private def tX : Ops := .table "d" ["x"]
private def F : Term := .app "f" [.col "x"] false true
private def G : Term := .app "g" [.col "x"] false true

/-- duplicate keys: `eqOps` is not reflexive on an association list that is not a dict -/
theorem C11_refl_dict_necessary : ¬ ∀ p : Ops, Eq.eqOps p p = true := by
  intro h
  exact absurd (h (.project tX [("a", F), ("a", G)] [])) (by decide)

/-- duplicate keys: `eqOps` is not symmetric on association lists that are not dicts -/
theorem C11_symm_dict_necessary : ¬ ∀ p q : Ops, Eq.eqOps p q = Eq.eqOps q p := by
  intro h
  exact absurd (h (.project tX [("a", G), ("a", G)] []) (.project tX [("a", F), ("a", G)] [])) (by decide)

private def Θs : Interp :=
  { scalar := fun _ _ => .null, agg := fun op _ => .str op, win := fun _ _ _ _ => .null,
    convert := fun rm t => .ok ⟨rm.needed, t.rows⟩ }

/-- duplicate keys: without `DictWF`, `==` does not imply equal results (the aggregation keeps the first entry of
a duplicated key, `ops[k]` reads the last) -/
theorem C11_sound_sem_dict_necessary :
    ¬ ∀ (p q : Ops), Ops.RecCoherent p q → Eq.eqOps p q = true →
      ∀ (Θ : Interp) (cfg : SemCfg) (env : Env), sem Θ cfg env p = sem Θ cfg env q := by
  intro h
  have := h (.project tX [("a", G), ("a", G)] []) (.project tX [("a", F), ("a", G)] [])
    (by intro r1 h1; simp [Ops.recmaps, tX] at h1) (by decide) Θs SemCfg.ref [("d", ⟨["x"], []⟩)]
  exact absurd this (by decide)

private def rm1 : RecMap := ⟨["x"], ["y"], "spec"⟩
private def rm2 : RecMap := ⟨["z"], ["y"], "spec"⟩

/-- record maps: without `RecCoherent`, `==` does not imply equal results, nor structural identity -/
theorem C11_sound_sem_rec_necessary :
    ¬ ∀ (p q : Ops), (p.DictWF ∨ q.DictWF) → Eq.eqOps p q = true →
      ∀ (Θ : Interp) (cfg : SemCfg) (env : Env), sem Θ cfg env p = sem Θ cfg env q := by
  intro h
  have := h (.convert tX rm1) (.convert tX rm2) (by simp [Ops.DictWF, tX]) (by decide) Θs SemCfg.ref
    [("d", ⟨["x"], []⟩)]
  exact absurd this (by decide)

/-! ## 5. Why the list/dict comparison had to change (about the shared `Term.isEqual`, Expr/Term.lean)

Comparing list constants with Python's `==` on the payloads (`[1] == [True] == [1.0]`) would make `==`
unsound for the semantics: the two pipelines below compare equal under `Ops.eqOps` and evaluate differently. -/
private def inT (l : Lit) : Ops :=
  .selectRows tX (.app "is_in" [.col "x", .list [l]] false true)

private def Θin : Interp :=
  { scalar := fun _ args => match args with
      | [.v x, .l ys] => .bool (ys.contains x)
      | _ => .null,
    agg := fun _ _ => .null, win := fun _ _ _ _ => .null, convert := fun _ t => .ok t }

theorem C11_list_constant_types_matter :
    Ops.eqOps (inT (.int 1)) (inT (.bool true)) = false ∧
    sem Θin SemCfg.ref [("d", ⟨["x"], [[("x", .num 1)]]⟩)] (inT (.int 1)) ≠
    sem Θin SemCfg.ref [("d", ⟨["x"], [[("x", .num 1)]]⟩)] (inT (.bool true)) := by decide

/-- the fixed comparison separates them -/
example : Eq.eqOps (inT (.int 1)) (inT (.bool true)) = false := by decide

/-! ## 6. Non-vacuity: the hypotheses hold on concrete non-trivial pipelines -/

private def d : Ops := .table "d" ["g", "x", "y"]
/-- `d.extend({'z': 'x.max()'}, partition_by=['g']).select_rows('z > 1').order_rows(['x'], limit=2)`,
once written with method calls and once with function calls -/
private def pipe (m : Bool) : Ops :=
  .order (.selectRows
    (.extend d [("z", .app "max" [.col "x"] false m)] ["g"] [] [] true)
    (.app ">" [.col "z", .value (.int 1)] true false)) ["x"] [] (some 2)

example : (pipe true).DictWF := by simp [pipe, d, Ops.DictWF]
example : Ops.RecCoherent (pipe true) (pipe false) := by intro r1 h1; simp [pipe, d, Ops.recmaps] at h1
example : Eq.eqOps (pipe true) (pipe false) = true :=
  C11_complete_struct _ _ (.inl (by simp [pipe, d, Ops.DictWF])) (by simp [pipe, d, Ops.erase, eraseAssign, Term.erase, Term.eraseList])
example : pipe true ≠ pipe false := by simp [pipe]
example : (pipe true).erase = (pipe false).erase :=
  C11_sound_struct _ _ (.inl (by simp [pipe, d, Ops.DictWF])) (by intro r1 h1; simp [pipe, d, Ops.recmaps] at h1)
    (C11_complete_struct _ _ (.inl (by simp [pipe, d, Ops.DictWF]))
      (by simp [pipe, d, Ops.erase, eraseAssign, Term.erase, Term.eraseList]))
/-- the pipeline is one the builders produce: `d.extend({'z': 'x + 1'}).order_rows(['x'], limit=2)` -/
example : ReachableC11 (.order (.extend d [("z", .app "+" [.col "x", .value (.int 1)] true false)] [] [] [] false)
    ["x"] [] (some 2)) :=
  .step (st := .order ["x"] [] (some 2))
    (p := .extend d [("z", .app "+" [.col "x", .value (.int 1)] true false)] [] [] [] false)
    (.step (st := .extend [("z", .app "+" [.col "x", .value (.int 1)] true false)] .none [] [])
      (p := d) (ReachableC11.table "d" ["g", "x", "y"]) (by simp [Step.arg]) (by rfl))
    (by simp [Step.arg]) (by rfl)
/-- a different limit is seen -/
example : Eq.eqOps (pipe true) (.order (.selectRows
    (.extend d [("z", .app "max" [.col "x"] false true)] ["g"] [] [] true)
    (.app ">" [.col "z", .value (.int 1)] true false)) ["x"] [] (some 3)) = false := by
  decide
/-- a constant of another type is seen (D9) -/
example : Eq.termEq (.value (.int 1)) (.value (.flt 1)) = false := by decide

end DAVerif.C11
