import DAVerif.Props.C05
import DAVerif.Proofs.MethodsAggOrder
import DAVerif.Proofs.MethodsAggStat
import DAVerif.Proofs.MethodsAggWin
import DAVerif.Proofs.MethodsAggFmt
/-!
# C05, part 2 — group aggregates, window functions and aggregate formatters against the documentation

`Props/C05.lean` proves the row-wise methods, `sum count size mean all any any_value` (Pandas) and the cumulative
windows.  This file closes the rest of the catalogue's provable classes:

* **order statistics and distinct counts** `max min median var nunique` on Pandas (`ThetaX.agg`) and SQLite
  (`ThetaSqlX.agg`), `any_value` on SQLite (`MAX` of a constant group) – for every group (list of cells);
* one statement per backend over **every operator name** (`C05_pandas_agg_full`: no list of names in the hypothesis);
* **window functions** `first last ffill bfill rank` on Pandas (the catalogue claims them for no SQL backend) and every
  group aggregate used as a window function; again one statement over every name except `cumcount`
  (known finding C05-pandas-cumcount-is-row-index);
* **aggregate formatters**: the SQL text the code emits now for `count size mean any all any_value`, evaluated over the
  rows of a group (`Sql3.evalSqlG`), equals `ThetaSqlX.agg` for every group, and – composed – the documented value.

Specification side: `Doc.docAgg` / `Doc.docWin` (`Spec/DocSem.lean`, unchanged; each clause quotes its docstring).  To
show that those clauses mean what the words say, §1 and §3 also prove *independent readings* of the documented value
(`C05_max_documented_is_greatest`, `C05_nunique_documented_counts_distinct`, `C05_median_documented_is_middle`,
`C05_ffill_documented_is_nearest_before`, `C05_bfill_documented_is_nearest_after`).

Where the documentation names no value (`docAgg … = none`) nothing is claimed; the places where the backends then
still answer are listed with a witness each (`C05_silent_*`), they coincide with the known findings
C05-polars-first-null / C03-polars-first-last-keep-null (first / last over a missing end item).
-/
namespace DAVerif
open DAVerif.Doc DAVerif.C05 DAVerif.C05A DAVerif.Sql3

/-! ## 1. Group aggregates -/

/-- "Return max (vectorized)."  **Pandas, every group**: when the non-missing items of the group are of one kind and
there is at least one, the executor's `max` is the documented maximum. -/
theorem C05_max_pandas (vs : List Val) (v : Val) (h : docAgg "max" vs = some v) : ThetaX.agg "max" vs = v :=
  pandas_max vs v h

/-- "Return min (vectorized)."  **Pandas, every group.** -/
theorem C05_min_pandas (vs : List Val) (v : Val) (h : docAgg "min" vs = some v) : ThetaX.agg "min" vs = v :=
  pandas_min vs v h

/-- **SQLite `MAX`, every group** -/
theorem C05_max_sqlite (vs : List Val) (v : Val) (h : docAgg "max" vs = some v) : ThetaSqlX.agg "max" vs = v :=
  sqlite_max vs v h

/-- **SQLite `MIN`, every group** -/
theorem C05_min_sqlite (vs : List Val) (v : Val) (h : docAgg "min" vs = some v) : ThetaSqlX.agg "min" vs = v :=
  sqlite_min vs v h

/-- the documented maximum, read independently of `Doc.leastBy`: it is a non-missing item of the group and no
non-missing item is greater -/
theorem C05_max_documented_is_greatest (vs : List Val) (m : Val) (h : docAgg "max" vs = some m) :
    m ∈ vs ∧ m ≠ .null ∧ ∀ z ∈ vs, z ≠ .null → Doc.lt m z = false := docMax_spec vs m h

/-- the documented minimum is a non-missing item of the group and no non-missing item is smaller -/
theorem C05_min_documented_is_least (vs : List Val) (m : Val) (h : docAgg "min" vs = some m) :
    m ∈ vs ∧ m ≠ .null ∧ ∀ z ∈ vs, z ≠ .null → Doc.lt z m = false := docMin_spec vs m h

/-- a group without a non-missing item ("missing when there is none"): the docstring names no value; both backends
answer missing, so they agree -/
theorem C05_max_min_no_item_agree (vs : List Val) (h : Doc.nonNull vs = []) :
    docAgg "max" vs = none ∧ docAgg "min" vs = none ∧
    ThetaX.agg "max" vs = .null ∧ ThetaX.agg "min" vs = .null ∧
    ThetaSqlX.agg "max" vs = .null ∧ ThetaSqlX.agg "min" vs = .null := max_min_of_no_item vs h

/-- "Return number of unique items (vectorized)."  **Pandas, every group** (missing items are not counted) -/
theorem C05_nunique_pandas (vs : List Val) (v : Val) (h : docAgg "nunique" vs = some v) : ThetaX.agg "nunique" vs = v :=
  pandas_nunique vs v h

/-- **SQLite `COUNT(DISTINCT x)`, every group** -/
theorem C05_nunique_sqlite (vs : List Val) (v : Val) (h : docAgg "nunique" vs = some v) :
    ThetaSqlX.agg "nunique" vs = v := sqlite_nunique vs v h

/-- the documented `nunique`, read independently of `eraseDups`: the length of **any** duplicate-free list whose
members are exactly the non-missing items of the group -/
theorem C05_nunique_documented_counts_distinct (vs ds : List Val) (hnd : ds.Nodup)
    (hmem : ∀ v, v ∈ ds ↔ (v ∈ vs ∧ v ≠ .null)) : docAgg "nunique" vs = some (.num ds.length) :=
  docNunique_spec vs ds hnd hmem

/-- "Return median (vectorized)."  **Pandas, every group of numbers and missing values with at least one number**:
the middle item of the ascending arrangement, the mean of the two middle items for an even count -/
theorem C05_median_pandas (vs : List Val) (v : Val) (h : docAgg "median" vs = some v) : ThetaX.agg "median" vs = v :=
  pandas_median vs v h

/-- **SQLite `median` (project only)** -/
theorem C05_median_sqlite (vs : List Val) (v : Val) (h : docAgg "median" vs = some v) : ThetaSqlX.agg "median" vs = v :=
  sqlite_median vs v h

/-- the specification's sort, read independently: **any** ascending rearrangement of the numbers is the list whose
middle the documented median takes -/
theorem C05_median_documented_is_middle (xs s : List Rat) (hp : s.Perm xs) (hs : s.Pairwise (· ≤ ·)) :
    Doc.sortQ xs = s := sortQ_unique xs s hp hs

/-- "Return sample variance (vectorized)."  **Pandas, every group with at least two numbers**: the sum of squared
deviations from the mean divided by `n - 1` -/
theorem C05_var_pandas (vs : List Val) (v : Val) (h : docAgg "var" vs = some v) : ThetaX.agg "var" vs = v :=
  pandas_var vs v h

/-- **SQLite `var` (project only)** -/
theorem C05_var_sqlite (vs : List Val) (v : Val) (h : docAgg "var" vs = some v) : ThetaSqlX.agg "var" vs = v :=
  sqlite_var vs v h

/-- "Return any_value (vectorized)."  **SQLite (`MAX(x)`), every group on which the column is constant**
(Appendix B scope; a group of missing values gives NULL) -/
theorem C05_any_value_sqlite (vs : List Val) (v : Val) (h : docAgg "any_value" vs = some v) :
    ThetaSqlX.agg "any_value" vs = v := sqlite_any_value vs v h

/-- **Pandas, every aggregate, every operator name, every group (full strength)**: whenever the documentation
determines the value of aggregate `op` on the group `vs`, the Pandas executor computes it.
(`sum count size _size mean max min median var nunique all any any_value`; for any other name the documentation
determines nothing.) -/
theorem C05_pandas_agg_full (op : String) (vs : List Val) (v : Val) (h : docAgg op vs = some v) :
    ThetaX.agg op vs = v := by
  unfold docAgg at h
  split at h
  · exact pandas_sum vs v h
  · exact pandas_count vs v h
  · exact pandas_size vs v h
  · exact pandas__size vs v h
  · exact pandas_mean vs v h
  · exact pandas_max vs v h
  · exact pandas_min vs v h
  · exact pandas_median vs v h
  · exact pandas_var vs v h
  · exact pandas_nunique vs v h
  · exact pandas_all vs v h
  · exact pandas_any vs v h
  · exact pandas_any_value vs v h
  · simp at h

/-- scope (C01's documented destination difference, per operator): `SUM` and the repaired `all` need a non-missing item
in the group, the `CASE` sums `count size _size` and `any` need a row; the order statistics need nothing -/
def S_groupOp (op : String) (vs : List Val) : Prop :=
  ((op = "sum" ∨ op = "all") → Doc.nonNull vs ≠ []) ∧
  ((op = "count" ∨ op = "size" ∨ op = "_size" ∨ op = "any") → vs ≠ [])

theorem S_groupOp_of_S_group (op : String) {vs : List Val} (h : S_group vs) : S_groupOp op vs :=
  ⟨fun _ => h, fun _ => nonempty_of_S_group h⟩

/- Full statement (false, `C05_S_groupOp_necessary`):  docAgg op vs = some v → ThetaSqlX.agg op vs = v -/
/-- **SQLite, every aggregate, every operator name, every group** under the documented difference `S_groupOp` -/
theorem C05_sqlite_agg_full_partial (op : String) (vs : List Val) (v : Val) (h : docAgg op vs = some v)
    (hg : S_groupOp op vs) : ThetaSqlX.agg op vs = v := by
  unfold docAgg at h
  split at h
  · exact sqlite_sum vs v h (hg.1 (Or.inl rfl))
  · exact sqlite_count vs v h (hg.2 (Or.inl rfl))
  · exact sqlite_size vs v h (hg.2 (Or.inr (Or.inl rfl)))
  · exact sqlite__size vs v h (hg.2 (Or.inr (Or.inr (Or.inl rfl))))
  · exact sqlite_mean vs v h
  · exact sqlite_max vs v h
  · exact sqlite_min vs v h
  · exact sqlite_median vs v h
  · exact sqlite_var vs v h
  · exact sqlite_nunique vs v h
  · exact sqlite_all vs v h (hg.1 (Or.inr rfl))
  · exact sqlite_any vs v h (hg.2 (Or.inr (Or.inr (Or.inr rfl))))
  · exact sqlite_any_value vs v h
  · simp at h

/-- every clause of `S_groupOp` excludes a real difference: over no row (`count size any`), resp. over no non-missing
item (`sum all`), the documentation and Pandas say 0 / 0 / False / 0 / True, SQL says NULL
(the `any` / `all` lines are known finding N29-any-all-over-no-rows of C01/C02) -/
theorem C05_S_groupOp_necessary :
    (docAgg "count" [] = some (.num 0) ∧ ThetaX.agg "count" [] = .num 0 ∧ ThetaSqlX.agg "count" [] = .null) ∧
    (docAgg "size" [] = some (.num 0) ∧ ThetaX.agg "size" [] = .num 0 ∧ ThetaSqlX.agg "size" [] = .null) ∧
    (docAgg "any" [] = some (.bool false) ∧ ThetaX.agg "any" [] = .bool false ∧ ThetaSqlX.agg "any" [] = .null) ∧
    (docAgg "sum" [.null] = some (.num 0) ∧ ThetaX.agg "sum" [.null] = .num 0 ∧ ThetaSqlX.agg "sum" [.null] = .null) ∧
    (docAgg "all" [.null] = some (.bool true) ∧ ThetaX.agg "all" [.null] = .bool true ∧
      ThetaSqlX.agg "all" [.null] = .null) := by decide +kernel

/-- corollary: where the documentation determines the value, the two backends agree on every aggregate -/
theorem C05_agg_backends_agree (op : String) (vs : List Val) (v : Val) (h : docAgg op vs = some v)
    (hg : S_groupOp op vs) : ThetaX.agg op vs = ThetaSqlX.agg op vs := by
  rw [C05_pandas_agg_full op vs v h, C05_sqlite_agg_full_partial op vs v h hg]

/-! ## 2. Window functions -/

/-- "Return first (vectorized)."  **Pandas, every window whose first item is not missing**: that item.
(Over a missing first item the docstring names no value: `C05_silent_first_last_missing_end`.) -/
theorem C05_first_pandas (cargs vs : List Val) (pos : Nat) (v : Val) (h : docWin "first" cargs vs pos = some v) :
    ThetaX.win "first" cargs vs pos = v := pandas_first cargs vs pos v h

/-- "Return last (vectorized)."  **Pandas, every window whose last item is not missing** -/
theorem C05_last_pandas (cargs vs : List Val) (pos : Nat) (v : Val) (h : docWin "last" cargs vs pos = some v) :
    ThetaX.win "last" cargs vs pos = v := pandas_last cargs vs pos v h

/-- the domain restriction of `first` / `last` is where the executors part (known findings C05-polars-first-null,
C03-polars-first-last-keep-null: Polars answers the missing end item itself): the docstring names no value, Pandas
answers the first / last *non-missing* item -/
theorem C05_silent_first_last_missing_end :
    docWin "first" [] [.null, .num 1, .num 2] 0 = none ∧ ThetaX.win "first" [] [.null, .num 1, .num 2] 0 = .num 1 ∧
    docWin "last" [] [.num 1, .num 2, .null] 0 = none ∧ ThetaX.win "last" [] [.num 1, .num 2, .null] 0 = .num 2 := by
  decide +kernel

/-- "Return vector with missing vallues filled (vectorized)."  **Pandas `ffill`, every window, every row** -/
theorem C05_ffill_pandas (cargs vs : List Val) (pos : Nat) (v : Val) (h : docWin "ffill" cargs vs pos = some v) :
    ThetaX.win "ffill" cargs vs pos = v := pandas_ffill cargs vs pos v h

/-- **Pandas `bfill`, every window, every row** -/
theorem C05_bfill_pandas (cargs vs : List Val) (pos : Nat) (v : Val) (h : docWin "bfill" cargs vs pos = some v) :
    ThetaX.win "bfill" cargs vs pos = v := pandas_bfill cargs vs pos v h

/-- the documented forward fill, read independently: the value at row `pos` is the item of the nearest row `j ≤ pos`
that is not missing … -/
theorem C05_ffill_documented_is_nearest_before (cargs vs : List Val) (pos j : Nat) (hp : pos < vs.length) (hj : j ≤ pos)
    (hnn : vs.getD j .null ≠ .null) (hgap : ∀ k, j < k → k ≤ pos → vs.getD k .null = .null) :
    docWin "ffill" cargs vs pos = some (vs.getD j .null) := docFfill_spec cargs vs pos j hp hj hnn hgap

/-- … and missing when there is no such row -/
theorem C05_ffill_documented_missing_before (cargs vs : List Val) (pos : Nat) (hp : pos < vs.length)
    (hall : ∀ k, k ≤ pos → vs.getD k .null = .null) : docWin "ffill" cargs vs pos = some .null :=
  docFfill_none cargs vs pos hp hall

/-- the documented backward fill: the item of the nearest row `j ≥ pos` that is not missing -/
theorem C05_bfill_documented_is_nearest_after (cargs vs : List Val) (pos j : Nat) (hj : pos ≤ j) (hjl : j < vs.length)
    (hnn : vs.getD j .null ≠ .null) (hgap : ∀ k, pos ≤ k → k < j → vs.getD k .null = .null) :
    docWin "bfill" cargs vs pos = some (vs.getD j .null) := docBfill_spec cargs vs pos j hj hjl hnn hgap

/-- "Return item rangings (vectorized)."  The docstring names no tie rule and says nothing about missing items:
**Pandas, every window of pairwise different numbers, every row**: one plus the number of smaller items
(the executor's average rank is that number when nothing is tied). -/
theorem C05_rank_pandas (cargs vs : List Val) (pos : Nat) (v : Val) (h : docWin "rank" cargs vs pos = some v) :
    ThetaX.win "rank" cargs vs pos = v := pandas_rank cargs vs pos v h

/-- outside that domain (a tie) the docstring names no value; Pandas answers the average rank, a fraction -/
theorem C05_silent_rank_tie :
    docWin "rank" [] [.num 5, .num 5, .num 7] 0 = none ∧ ThetaX.win "rank" [] [.num 5, .num 5, .num 7] 0 = .num (3/2) := by
  decide +kernel

/- Full statement (false for `cumcount`, `C05_G_cumcount_necessary` in Props/C05.lean):
     docWin op cargs vs pos = some v → ThetaX.win op cargs vs pos = v -/
/-- **Pandas, every window function and every group aggregate used as a window function, every operator name, every
window, every row** – guard `G_cumcount` (known finding C05-pandas-cumcount-is-row-index) -/
theorem C05_pandas_win_full_partial (op : String) (hcc : op ≠ "cumcount") (cargs vs : List Val) (pos : Nat) (v : Val)
    (h : docWin op cargs vs pos = some v) : ThetaX.win op cargs vs pos = v := by
  unfold docWin at h
  split at h
  · exact pandas_cumsum cargs vs pos v h
  · exact pandas_cumprod cargs vs pos v h
  · exact pandas_cummax cargs vs pos v h
  · exact pandas_cummin cargs vs pos v h
  · exact absurd rfl hcc
  · exact pandas_row_number cargs vs pos v h
  · exact pandas_shift cargs vs pos v h
  · exact pandas_ffill cargs vs pos v h
  · exact pandas_bfill cargs vs pos v h
  · exact pandas_rank cargs vs pos v h
  · exact pandas_first cargs vs pos v h
  · exact pandas_last cargs vs pos v h
  · -- a group aggregate: every row of the partition gets the aggregate of the partition
    unfold docAgg at h
    split at h
    · exact pandas_sum vs v h
    · exact pandas_count vs v h
    · exact pandas_size vs v h
    · exact pandas__size vs v h
    · exact pandas_mean vs v h
    · exact pandas_max vs v h
    · exact pandas_min vs v h
    · exact pandas_median vs v h
    · exact pandas_var vs v h
    · exact pandas_nunique vs v h
    · exact pandas_all vs v h
    · exact pandas_any vs v h
    · exact pandas_any_value vs v h
    · simp at h

/-- the window functions and windowed aggregates the catalogue claims for SQLite -/
def sqliteWinOps : List String :=
  ["cumsum", "cummax", "cummin", "_row_number", "shift",
   "sum", "count", "size", "_size", "mean", "max", "min", "median", "var", "nunique", "all", "any", "any_value"]

/-- **SQLite, every claimed window function / windowed aggregate, every window, every row** under `S_groupOp` -/
theorem C05_sqlite_win_full_partial (op : String) (hop : op ∈ sqliteWinOps) (cargs vs : List Val) (pos : Nat) (v : Val)
    (h : docWin op cargs vs pos = some v) (hg : S_groupOp op vs) : ThetaSqlX.win op cargs vs pos = v := by
  simp only [sqliteWinOps, List.mem_cons, List.mem_nil_iff, or_false] at hop
  rcases hop with rfl | rfl | rfl | rfl | rfl | rfl | rfl | rfl | rfl | rfl | rfl | rfl | rfl | rfl | rfl | rfl | rfl | rfl
  · exact sqlite_cumsum cargs vs pos v h
  · exact sqlite_cummax cargs vs pos v h
  · exact sqlite_cummin cargs vs pos v h
  · exact sqlite_row_number cargs vs pos v h
  · exact sqlite_shift cargs vs pos v h
  · exact C05_sqlite_agg_full_partial "sum" vs v h hg
  · exact C05_sqlite_agg_full_partial "count" vs v h hg
  · exact C05_sqlite_agg_full_partial "size" vs v h hg
  · exact C05_sqlite_agg_full_partial "_size" vs v h hg
  · exact C05_sqlite_agg_full_partial "mean" vs v h hg
  · exact C05_sqlite_agg_full_partial "max" vs v h hg
  · exact C05_sqlite_agg_full_partial "min" vs v h hg
  · exact C05_sqlite_agg_full_partial "median" vs v h hg
  · exact C05_sqlite_agg_full_partial "var" vs v h hg
  · exact C05_sqlite_agg_full_partial "nunique" vs v h hg
  · exact C05_sqlite_agg_full_partial "all" vs v h hg
  · exact C05_sqlite_agg_full_partial "any" vs v h hg
  · exact C05_sqlite_agg_full_partial "any_value" vs v h hg

/-! ## 3. Aggregate formatters, regenerated from the code: group evaluation -/

/-- `SUM(CASE WHEN "x" IS NOT NULL THEN 1 ELSE 0 END)` over the rows of **every** group is the SQL model of `count`
(both dialects) -/
theorem C05_formatter_count (d : String) (hd : Dialect d) (vs : List Val) :
    evalSqlG (Gen.formatter d "count") (rowsOf "x" vs) = ThetaSqlX.agg "count" vs := formatter_count d hd vs

/-- `SUM(1)` over **any** rows is the SQL model of `size` -/
theorem C05_formatter_size (d : String) (hd : Dialect d) (rows : List (String → Val)) :
    evalSqlG (Gen.formatter d "size") rows = ThetaSqlX.agg "size" (rows.map (fun ρ => ρ "x")) := formatter_size d hd rows

/-- `AVG("x")` over every group of a column without strings is the SQL model of `mean` -/
theorem C05_formatter_mean (d : String) (hd : Dialect d) (vs : List Val) (hns : NoStr vs) :
    evalSqlG (Gen.formatter d "mean") (rowsOf "x" vs) = ThetaSqlX.agg "mean" vs := formatter_mean d hd vs hns

/-- `(MAX(CASE WHEN "a" THEN 1 ELSE 0 END) >= 1)` over **every** group is the SQL model of `any` -/
theorem C05_formatter_any (d : String) (hd : Dialect d) (vs : List Val) :
    evalSqlG (Gen.formatter d "any") (rowsOf "a" vs) = ThetaSqlX.agg "any" vs := formatter_any d hd vs

/-- `(MIN(CASE WHEN "a" THEN 1 WHEN NOT "a" THEN 0 ELSE NULL END) >= 1)` (the repaired formatter, fix
C05-sql-all-ignores-null) over every group of a column without strings is the SQL model of `all`: NULL items are skipped -/
theorem C05_formatter_all (d : String) (hd : Dialect d) (vs : List Val) (hns : NoStr vs) :
    evalSqlG (Gen.formatter d "all") (rowsOf "a" vs) = ThetaSqlX.agg "all" vs := formatter_all d hd vs hns

/-- `MAX("x")` over **every** group (cells of any kind) is the SQL model of `any_value` -/
theorem C05_formatter_any_value (d : String) (hd : Dialect d) (vs : List Val) :
    evalSqlG (Gen.formatter d "any_value") (rowsOf "x" vs) = ThetaSqlX.agg "any_value" vs := formatter_any_value d hd vs

/-- the hypothesis `NoStr` of the `mean` / `all` formatter theorems is needed (outside the documented domain, where the
two layers of the SQL model part): `AVG` counts a string as an item of value 0, the `CASE` of `all` maps it to NULL -/
theorem C05_formatter_NoStr_necessary :
    evalSqlG (Gen.formatter "sqlite" "mean") (rowsOf "x" [.str "a"]) = .num 0 ∧ ThetaSqlX.agg "mean" [.str "a"] = .null ∧
    evalSqlG (Gen.formatter "sqlite" "all") (rowsOf "a" [.str "a"]) = .null ∧
    ThetaSqlX.agg "all" [.str "a"] = .bool false := by decide +kernel

theorem noStr_of_numItems {vs : List Val} {xs : List Rat} (h : numItems? vs = some xs) : NoStr vs := by
  intro v hv s hs
  subst hs
  have hm : Val.str s ∈ Doc.nonNull vs := by unfold Doc.nonNull; rw [List.mem_filter]; exact ⟨hv, rfl⟩
  rw [(nums_of_nums? h).2] at hm
  obtain ⟨q, _, hq⟩ := List.mem_map.mp hm
  cases hq

theorem bools_of_bools? : ∀ {ws : List Val} {bs : List Bool}, bools? ws = some bs → ws = bs.map Val.bool
  | [], bs, h => by simp [bools?] at h; subst h; rfl
  | .bool b :: r, bs, h => by
    cases hr : bools? r with
    | none => simp [bools?, hr] at h
    | some ys => simp [bools?, hr] at h; subst h; simp [bools_of_bools? hr]
  | .null :: _, _, h => by simp [bools?] at h
  | .num _ :: _, _, h => by simp [bools?] at h
  | .str _ :: _, _, h => by simp [bools?] at h

theorem noStr_of_boolItems {vs : List Val} {bs : List Bool} (h : boolItems? vs = some bs) : NoStr vs := by
  intro v hv s hs
  subst hs
  have hm : Val.str s ∈ Doc.nonNull vs := by unfold Doc.nonNull; rw [List.mem_filter]; exact ⟨hv, rfl⟩
  rw [bools_of_bools? h] at hm
  obtain ⟨q, _, hq⟩ := List.mem_map.mp hm
  cases hq

/-- formatter and documentation composed: on the documented domain (and the scope `S_groupOp`) the **generated** SQL
text of each aggregate formatter, evaluated over the rows of the group, computes the docstring -/
theorem C05_formatter_count_doc (d : String) (hd : Dialect d) (vs : List Val) (v : Val)
    (h : docAgg "count" vs = some v) (hg : S_groupOp "count" vs) :
    evalSqlG (Gen.formatter d "count") (rowsOf "x" vs) = v := by
  rw [C05_formatter_count d hd vs]; exact C05_sqlite_agg_full_partial "count" vs v h hg

theorem C05_formatter_size_doc (d : String) (hd : Dialect d) (vs : List Val) (v : Val)
    (h : docAgg "size" vs = some v) (hg : S_groupOp "size" vs) :
    evalSqlG (Gen.formatter d "size") (rowsOf "x" vs) = v := by
  rw [C05_formatter_size d hd (rowsOf "x" vs)]
  have : (rowsOf "x" vs).map (fun ρ => ρ "x") = vs := by
    unfold rowsOf; rw [List.map_map]
    have : ((fun ρ : String → Val => ρ "x") ∘ fun v => env [("x", v)]) = id := by funext v; rfl
    rw [this, List.map_id]
  rw [this]; exact C05_sqlite_agg_full_partial "size" vs v h hg

theorem C05_formatter_mean_doc (d : String) (hd : Dialect d) (vs : List Val) (v : Val)
    (h : docAgg "mean" vs = some v) : evalSqlG (Gen.formatter d "mean") (rowsOf "x" vs) = v := by
  have hns : NoStr vs := by
    have hd' : docAgg "mean" vs = (numItems? vs).bind (fun xs => if xs.isEmpty then none else some (.num (Doc.sumQ xs / xs.length))) := rfl
    rw [hd'] at h
    cases hn : numItems? vs with
    | none => rw [hn] at h; simp at h
    | some xs => exact noStr_of_numItems hn
  rw [C05_formatter_mean d hd vs hns]; exact sqlite_mean vs v h

theorem C05_formatter_any_doc (d : String) (hd : Dialect d) (vs : List Val) (v : Val)
    (h : docAgg "any" vs = some v) (hg : S_groupOp "any" vs) :
    evalSqlG (Gen.formatter d "any") (rowsOf "a" vs) = v := by
  rw [C05_formatter_any d hd vs]; exact C05_sqlite_agg_full_partial "any" vs v h hg

theorem C05_formatter_all_doc (d : String) (hd : Dialect d) (vs : List Val) (v : Val)
    (h : docAgg "all" vs = some v) (hg : S_groupOp "all" vs) :
    evalSqlG (Gen.formatter d "all") (rowsOf "a" vs) = v := by
  have hns : NoStr vs := by
    have hd' : docAgg "all" vs = (boolItems? vs).map (fun bs => .bool (bs.all id)) := rfl
    rw [hd'] at h
    cases hn : boolItems? vs with
    | none => rw [hn] at h; simp at h
    | some bs => exact noStr_of_boolItems hn
  rw [C05_formatter_all d hd vs hns]; exact C05_sqlite_agg_full_partial "all" vs v h hg

theorem C05_formatter_any_value_doc (d : String) (hd : Dialect d) (vs : List Val) (v : Val)
    (h : docAgg "any_value" vs = some v) : evalSqlG (Gen.formatter d "any_value") (rowsOf "x" vs) = v := by
  rw [C05_formatter_any_value d hd vs]; exact sqlite_any_value vs v h

/-- the defect repaired by fix C05-sql-all-ignores-null, on the generated text: a NULL item no longer counts as False -/
theorem C05_formatter_all_skips_null :
    evalSqlG (Gen.formatter "sqlite" "all") (rowsOf "a" [.bool true, .null]) = .bool true ∧
    evalSqlG (Gen.formatter "postgres" "all") (rowsOf "a" [.bool true, .null]) = .bool true := by decide +kernel

/-! ## 4. The catalogue: nothing of the provable classes is left "modelled only" -/

/-- the aggregates and window functions with theorems in this file -/
def provedAggWinOps : List String :=
  ["max", "min", "median", "var", "nunique", "rank", "ffill", "bfill", "first", "last"]

/-- every operator `Props/C05.lean` lists as modelled-but-not-proved has its theorem here -/
theorem C05_modelled_now_proved : ∀ op ∈ modelledOps, op ∈ provedAggWinOps := by decide +kernel

/-- every operator of the provable classes named by the specification is proved (Props/C05.lean or here) -/
theorem C05_provable_all_proved : ∀ op ∈ Doc.provableOps, op ∈ provedOps ∨ op ∈ provedAggWinOps := by decide +kernel

/-! ## 5. Non-vacuity -/

example : docAgg "max" [.num 1, .null, .num 3, .num 2] = some (.num 3) := by decide +kernel
example : docAgg "min" [.str "b", .null, .str "a"] = some (.str "a") := by decide +kernel
example : ThetaSqlX.agg "max" [.num 1, .null, .num 3, .num 2] = .num 3 := C05_max_sqlite _ _ (by decide +kernel)
example : docAgg "max" [.num 1, .str "a"] = none := by decide +kernel           -- mixed kinds: no documented value
example : docAgg "nunique" [.num 1, .null, .num 1, .num 2] = some (.num 2) := by decide +kernel
example : docAgg "median" [.num 3, .null, .num 1, .num 2, .num 10] = some (.num (5/2)) := by decide +kernel
example : docAgg "var" [.num 1, .num 2, .null, .num 3] = some (.num 1) := by decide +kernel
example : docAgg "any_value" [.str "k", .str "k"] = some (.str "k") := by decide +kernel
example : S_groupOp "max" [] := ⟨fun h => absurd h (by decide), fun h => absurd h (by decide)⟩
example : S_groupOp "sum" [.null, .num 2] := ⟨fun _ => by decide +kernel, fun _ => by decide⟩
example : docWin "first" [] [.num 4, .null] 1 = some (.num 4) := by decide +kernel
example : docWin "last" [] [.null, .num 4] 0 = some (.num 4) := by decide +kernel
example : docWin "ffill" [] [.num 1, .null, .null, .num 2] 2 = some (.num 1) := by decide +kernel
example : docWin "bfill" [] [.num 1, .null, .null, .num 2] 1 = some (.num 2) := by decide +kernel
example : docWin "ffill" [] [.num 1, .null, .null, .num 2] 2 = some (.num 1) :=
  C05_ffill_documented_is_nearest_before [] _ 2 0 (by decide) (by decide) (by decide)
    (fun k h1 h2 => by
      have : k = 1 ∨ k = 2 := by omega
      rcases this with rfl | rfl <;> rfl)
example : docWin "rank" [] [.num 30, .num 10, .num 20] 0 = some (.num 3) := by decide +kernel
example : docWin "max" [] [.num 1, .num 5] 0 = some (.num 5) ∧ ("max" : String) ≠ "cumcount" := by decide +kernel
example : evalSqlG (Gen.formatter "sqlite" "count") (rowsOf "x" [.num 1, .null, .num 3]) = .num 2 := by decide +kernel
example : NoStr [.num 1, .null, .bool true] := fun v hv s hs => by
  subst hs; simp at hv

end DAVerif
