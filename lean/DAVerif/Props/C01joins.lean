import DAVerif.Proofs.SqlJoinSqlite
import DAVerif.Proofs.SqlJoinReach
import DAVerif.Props.C01core
/-!
# C01 / C02 / C16 — `natural_join` and `concat_rows` in the SQL translation

Property theorems only.  Fragment: the unary fragment of `Props/C01core.lean` ∪ `natural_join` ∪ `concat_rows`
(`Sql.InFragJ`: everything but `convert_records`), translation **without the extend merge** (`cfg.merges = false`),
nested form, both engines' NULL placement (`ec` arbitrary), one interpretation `Θ` on both sides.  The reference side is
`semE ec Θ SemCfg.ref env p` (stage A: the engine's NULL placement in `order_rows` / window orders) resp.
`sem Θ SemCfg.ref env p` (stage B) – **standard SQL joins: null keys never match, unmatched rows padded with NULL,
common columns `COALESCE(a.c, b.c)`**.

Scope (all Boolean, bundled in `Sql.Good cfg env p`, `Proofs/SqlJoinMain.lean`):
`InFragJ p`, `WF p` (C26), `SqlWF p`, `MapsOK p` (as in C01core), `JoinWF p` (join keys are columns of their side; the
sides of a `concat_rows` have the same column set – `C16_reachable_joinwf`: every reachable pipeline),
`JoinTypesSql p` (no join of type `OUTER`: not SQL, the engine rejects the text), `JoinsNative cfg p` (the dialect
renders every join natively: always on the generic dialect; INNER / LEFT / CROSS on SQLite), `LabelSidesPlain p` (the
sides of a `concat_rows` **with id column** do not end in an `order_rows` without limit: the builder call that adds
the label column drops such a node, only the row multiset of that side survives – outside the row-list invariant of
stage A), `EnvOK false env p`.

SQLite's emulated joins change the row order; they are stated for a join at the root of the pipeline over two
arbitrary pipelines of the fragment, up to row order:
* RIGHT = LEFT join of the swapped sources with `COALESCE(second, first)`: **full strength** (`C16_sqlite_right_as_left`);
* FULL = key union ⟕ left ⟕ right: see `Props/C16full.lean`.
-/
namespace DAVerif
open DAVerif.Sql

/-! ## 1. Stage A: the translation is exact for the engine's row ordering -/

/-- **C01/C02, stage A, with joins and `concat_rows`.**  For every pipeline `p` in scope (`Good cfg env p`), every `Θ`,
both engines: if `to_sql` (no extend merges) produces the query `q`, then `q` evaluates, its result has exactly the
declared column set, and its rows restricted to the declared columns are **exactly, in order** the rows of the table
`p` denotes under the engine's NULL placement and the standard SQL join semantics.  No hypothesis on data or `Θ`. -/
theorem C01_joins_engine_order (Θ : Interp) (ec : EngineCfg) (env : Env) (cfg : SqlCfg) (hm : cfg.merges = false)
    (p : Ops) (hg : Good cfg env p) {q : Near} (h : toNearSql cfg p = .ok q) :
    ∃ T tp, semSql Θ ec env q = .ok T ∧ semE ec Θ SemCfg.ref env p = .ok tp ∧ tp.cols = p.cols ∧
      (∀ c, c ∈ T.cols ↔ c ∈ p.cols) ∧ T.rows.map (fun r => r.select p.cols) = tp.rows := by
  obtain ⟨st', hrun⟩ := toNearSql_ok h
  obtain ⟨tp, htp⟩ := semG_ok_fragJ (sqlRowLe ec) Θ SemCfg.ref env p hg.frag false hg.env
  obtain ⟨T, h1, h2, h4⟩ := stageA_root_ju Θ ec env cfg hm p hg hrun htp
  exact ⟨T, tp, h1, htp, (semG_cols_wf_fragJ _ Θ SemCfg.ref env p hg.frag tp htp).1, h2, h4⟩

/-! ## 2. Against the reference semantics -/

/-- **C01_translation_sound_joins.**  Fragment = unary ∪ `natural_join` ∪ `concat_rows`, `cfg.merges = false`, any
dialect configuration for which the pipeline's joins are rendered natively (`Good` contains `JoinsNative cfg p`).
Within the scope of C18 (order-free aggregates, total window orders, clean limit cuts) and `SqlScope` (null-free order
columns at ordered windows and at `order_rows` with limit): the query `to_sql` produces evaluates, the reference
semantics evaluates, and the two tables have the **same column set and the same multiset of rows**. -/
theorem C01_translation_sound_joins (Θ : Interp) (ec : EngineCfg) (env : Env) (cfg : SqlCfg) (hm : cfg.merges = false)
    (p : Ops) (hg : Good cfg env p) (hA : AggsOrderFree Θ p) (hW : WindowsTotal Θ SemCfg.ref env p)
    (hS : SqlScope Θ SemCfg.ref env p) {q : Near} (h : toNearSql cfg p = .ok q) :
    ∃ T t, semSql Θ ec env q = .ok T ∧ sem Θ SemCfg.ref env p = .ok t ∧ t.cols = p.cols ∧ T.EquivS t := by
  obtain ⟨T, tp, h1, h2, h3, h4, h6⟩ := C01_joins_engine_order Θ ec env cfg hm p hg h
  have hB := sem_equiv_semE_fragJ ec Θ SemCfg.ref env p hg.frag hA hW hS
  rw [h2] at hB
  cases hs : sem Θ SemCfg.ref env p with
  | error e => rw [hs] at hB; exact hB.elim
  | ok t =>
    rw [hs] at hB
    have heq : t ≈ tp := hB
    have hc : t.cols = p.cols := heq.1.trans h3
    refine ⟨T, t, h1, rfl, hc, ?_, ?_⟩
    · intro c; rw [hc]; exact h4 c
    · rw [hc, h6]; exact heq.2.symm

/-- the scope bundle on a dialect with native RIGHT / FULL joins (generic dialect, PostgreSQL, …): `JoinsNative` holds
for every pipeline -/
theorem Sql.Good.of_generic {cfg : SqlCfg} (hgen : cfg.emulateRightFull = false) {env : Env} {p : Ops}
    (hf : InFragJ p = true) (hwf : WF p) (hsq : SqlWF p) (hmp : MapsOK p) (hj : JoinWF p) (ht : JoinTypesSql p)
    (hl : LabelSidesPlain p) (he : EnvOK false env p) : Good cfg env p :=
  ⟨hf, hwf, hsq, hmp, hj, ht, joinsNative_of_generic hgen p, hl, he⟩

/-- **C01_translation_sound_joins, generic dialect**: all five SQL join types (INNER, LEFT, RIGHT, FULL, CROSS) -/
theorem C01_translation_sound_joins_generic (Θ : Interp) (ec : EngineCfg) (env : Env) (cfg : SqlCfg)
    (hm : cfg.merges = false) (hgen : cfg.emulateRightFull = false) (p : Ops)
    (hf : InFragJ p = true) (hwf : WF p) (hsq : SqlWF p) (hmp : MapsOK p) (hj : JoinWF p) (ht : JoinTypesSql p)
    (hl : LabelSidesPlain p) (he : EnvOK false env p)
    (hA : AggsOrderFree Θ p) (hW : WindowsTotal Θ SemCfg.ref env p) (hS : SqlScope Θ SemCfg.ref env p)
    {q : Near} (h : toNearSql cfg p = .ok q) :
    ∃ T t, semSql Θ ec env q = .ok T ∧ sem Θ SemCfg.ref env p = .ok t ∧ t.cols = p.cols ∧ T.EquivS t :=
  C01_translation_sound_joins Θ ec env cfg hm p (Good.of_generic hgen hf hwf hsq hmp hj ht hl he) hA hW hS h

/-- **C01_translation_sound_joins, SQLite dialect** (`emulateRightFull = true`): pipelines whose joins are INNER, LEFT
or CROSS (`JoinsNative`); for RIGHT and FULL joins see `C16_sqlite_right_as_left`, `C16_sqlite_full_partial`. -/
theorem C01_translation_sound_joins_sqlite (Θ : Interp) (ec : EngineCfg) (env : Env) (cfg : SqlCfg)
    (hm : cfg.merges = false) (_hemu : cfg.emulateRightFull = true) (p : Ops)
    (hf : InFragJ p = true) (hwf : WF p) (hsq : SqlWF p) (hmp : MapsOK p) (hj : JoinWF p) (ht : JoinTypesSql p)
    (hn : JoinsNative cfg p) (hl : LabelSidesPlain p) (he : EnvOK false env p)
    (hA : AggsOrderFree Θ p) (hW : WindowsTotal Θ SemCfg.ref env p) (hS : SqlScope Θ SemCfg.ref env p)
    {q : Near} (h : toNearSql cfg p = .ok q) :
    ∃ T t, semSql Θ ec env q = .ok T ∧ sem Θ SemCfg.ref env p = .ok t ∧ t.cols = p.cols ∧ T.EquivS t :=
  C01_translation_sound_joins Θ ec env cfg hm p ⟨hf, hwf, hsq, hmp, hj, ht, hn, hl, he⟩ hA hW hS h

/-- **Strong scope: list equality.**  With null-free order columns at every `order_rows` and ordered window the SQL
result and the reference result have the same rows in the same order – joins and `concat_rows` included, any `Θ`. -/
theorem C01_translation_exact_joins (Θ : Interp) (ec : EngineCfg) (env : Env) (cfg : SqlCfg) (hm : cfg.merges = false)
    (p : Ops) (hg : Good cfg env p) (hN : OrdersNullFree Θ SemCfg.ref env p) {q : Near} (h : toNearSql cfg p = .ok q) :
    ∃ T t, semSql Θ ec env q = .ok T ∧ sem Θ SemCfg.ref env p = .ok t ∧ t.cols = p.cols ∧ T.EqS t := by
  obtain ⟨T, tp, h1, h2, h3, h4, h6⟩ := C01_joins_engine_order Θ ec env cfg hm p hg h
  rw [semE_eq_sem_of_nullFree ec Θ SemCfg.ref env p hN] at h2
  refine ⟨T, tp, h1, h2, h3, ?_, ?_⟩
  · intro c; rw [h3]; exact h4 c
  · rw [h3]; exact h6

/-- **For pipelines built by the builders**: `Reachable p` replaces `WF`, `SqlWF` and `JoinWF`
(`C26_reachable_wf`, `C01_reachable_sqlwf`, `C16_reachable_joinwf`). -/
theorem C01_translation_sound_joins_reachable (Θ : Interp) (ec : EngineCfg) (env : Env) (cfg : SqlCfg)
    (hm : cfg.merges = false) (p : Ops) (hr : Reachable p) (hf : InFragJ p = true) (hmp : MapsOK p)
    (ht : JoinTypesSql p) (hn : JoinsNative cfg p) (hl : LabelSidesPlain p) (he : EnvOK false env p)
    (hA : AggsOrderFree Θ p) (hW : WindowsTotal Θ SemCfg.ref env p) (hS : SqlScope Θ SemCfg.ref env p)
    {q : Near} (h : toNearSql cfg p = .ok q) :
    ∃ T t, semSql Θ ec env q = .ok T ∧ sem Θ SemCfg.ref env p = .ok t ∧ t.cols = p.cols ∧ T.EquivS t :=
  C01_translation_sound_joins Θ ec env cfg hm p
    ⟨hf, C26_reachable_wf hr, C01_reachable_sqlwf hr, hmp, C16_reachable_joinwf hr, ht, hn, hl, he⟩ hA hW hS h

/-- C08 / C09 with joins: exactly the declared columns, as many rows as the reference table – unconditionally -/
theorem C08_sql_cols_joins (Θ : Interp) (ec : EngineCfg) (env : Env) (cfg : SqlCfg) (hm : cfg.merges = false)
    (p : Ops) (hg : Good cfg env p) {q : Near} (h : toNearSql cfg p = .ok q) :
    ∃ T tp, semSql Θ ec env q = .ok T ∧ semE ec Θ SemCfg.ref env p = .ok tp ∧ (∀ c, c ∈ T.cols ↔ c ∈ p.cols) ∧
      T.rows.length = tp.rows.length := by
  obtain ⟨T, tp, h1, h2, _, h4, h6⟩ := C01_joins_engine_order Θ ec env cfg hm p hg h
  refine ⟨T, tp, h1, h2, h4, ?_⟩
  have := congrArg List.length h6
  simpa using this

/-! ## 3. C16: `natural_join` matches SQL join semantics -/

/-- **C16_sql_native.**  A join the dialect renders natively – on the generic dialect all five SQL join types – over
two pipelines of the fragment: the SQL returns, row by row **in order**, the reference join `semJoin SemCfg.ref` of the
two sides' tables (matched pairs left-major, then unmatched left rows, then unmatched right rows; null keys never
match; common columns `COALESCE(a.c, b.c)`; every other column qualified by its side), on exactly the columns of the
two sides. -/
theorem C16_sql_native (Θ : Interp) (ec : EngineCfg) (env : Env) (cfg : SqlCfg) (hm : cfg.merges = false)
    (a b : Ops) (onA onB : List String) (jt : JoinType) (hg : Good cfg env (.join a b onA onB jt))
    {q : Near} (h : toNearSql cfg (.join a b onA onB jt) = .ok q) :
    ∃ T ta tb, semSql Θ ec env q = .ok T ∧ semE ec Θ SemCfg.ref env a = .ok ta ∧ semE ec Θ SemCfg.ref env b = .ok tb ∧
      (∀ c, c ∈ T.cols ↔ c ∈ a.cols ∨ c ∈ b.cols) ∧
      T.rows.map (fun r => r.select (Ops.join a b onA onB jt).cols) =
        ((semJoin SemCfg.ref jt onA onB ta tb (appendNew a.cols b.cols)).selectCols (Ops.join a b onA onB jt).cols).rows := by
  obtain ⟨T, tp, h1, h2, _, h4, h6⟩ := C01_joins_engine_order Θ ec env cfg hm _ hg h
  obtain ⟨ta, tb, hta, htb, rfl⟩ := semG_join_ok h2
  exact ⟨T, ta, tb, h1, hta, htb, fun c => (h4 c).trans (mem_joinNodeCols a b onA onB jt c), h6⟩

/-- **C16_sql_native on the generic dialect**, hypotheses spelled out: any of INNER, LEFT, RIGHT, FULL, CROSS. -/
theorem C16_sql_native_generic (Θ : Interp) (ec : EngineCfg) (env : Env) (cfg : SqlCfg) (hm : cfg.merges = false)
    (hgen : cfg.emulateRightFull = false) (a b : Ops) (onA onB : List String) (jt : JoinType) (hjt : jt ≠ .outer)
    (hga : Good cfg env a) (hgb : Good cfg env b) (hoa : ∀ c ∈ onA, c ∈ a.cols) (hob : ∀ c ∈ onB, c ∈ b.cols)
    {q : Near} (h : toNearSql cfg (.join a b onA onB jt) = .ok q) :
    ∃ T ta tb, semSql Θ ec env q = .ok T ∧ semE ec Θ SemCfg.ref env a = .ok ta ∧ semE ec Θ SemCfg.ref env b = .ok tb ∧
      (∀ c, c ∈ T.cols ↔ c ∈ a.cols ∨ c ∈ b.cols) ∧
      T.rows.map (fun r => r.select (Ops.join a b onA onB jt).cols) =
        ((semJoin SemCfg.ref jt onA onB ta tb (appendNew a.cols b.cols)).selectCols (Ops.join a b onA onB jt).cols).rows := by
  refine C16_sql_native Θ ec env cfg hm a b onA onB jt ?_ h
  refine Good.of_generic hgen ?_ ⟨hga.wf, hgb.wf⟩ ?_ ?_ ?_ ?_ ?_ ?_
  · simp [InFragJ, hga.frag, hgb.frag]
  · have h1 := hga.sqlwf; have h2 := hgb.sqlwf
    simp only [SqlWF] at h1 h2 ⊢
    simp [sqlWFb, h1, h2]
  · have h1 := hga.maps; have h2 := hgb.maps
    simp only [MapsOK] at h1 h2 ⊢
    simp [mapsOKb, h1, h2]
  · have h1 := hga.jwf; have h2 := hgb.jwf
    simp only [JoinWF] at h1 h2 ⊢
    simp only [joinWFb, h1, h2, Bool.and_eq_true, subset_iff]
    exact ⟨⟨⟨trivial, trivial⟩, hoa⟩, hob⟩
  · have h1 := hga.types; have h2 := hgb.types
    simp only [JoinTypesSql] at h1 h2 ⊢
    simp [joinTypesSqlb, h1, h2, hjt]
  · have h1 := hga.label; have h2 := hgb.label
    simp only [LabelSidesPlain] at h1 h2 ⊢
    simp [labelSidesPlainb, h1, h2]
  · intro nc hnc
    simp only [Ops.tables, List.mem_append] at hnc
    rcases hnc with hnc | hnc
    · exact hga.env nc hnc
    · exact hgb.env nc hnc

/-- **C16_sqlite_inner_left_cross.**  On SQLite (`emulateRightFull = true`) INNER, LEFT and CROSS joins are rendered
natively: same statement as `C16_sql_native` (row list, in order). -/
theorem C16_sqlite_inner_left_cross (Θ : Interp) (ec : EngineCfg) (env : Env) (cfg : SqlCfg) (hm : cfg.merges = false)
    (_hemu : cfg.emulateRightFull = true) (a b : Ops) (onA onB : List String) (jt : JoinType)
    (_hjt : jt = .inner ∨ jt = .left ∨ jt = .cross) (hg : Good cfg env (.join a b onA onB jt))
    {q : Near} (h : toNearSql cfg (.join a b onA onB jt) = .ok q) :
    ∃ T ta tb, semSql Θ ec env q = .ok T ∧ semE ec Θ SemCfg.ref env a = .ok ta ∧ semE ec Θ SemCfg.ref env b = .ok tb ∧
      (∀ c, c ∈ T.cols ↔ c ∈ a.cols ∨ c ∈ b.cols) ∧
      T.rows.map (fun r => r.select (Ops.join a b onA onB jt).cols) =
        ((semJoin SemCfg.ref jt onA onB ta tb (appendNew a.cols b.cols)).selectCols (Ops.join a b onA onB jt).cols).rows :=
  C16_sql_native Θ ec env cfg hm a b onA onB jt hg h

/-- **C16_sqlite_right_as_left.**  On SQLite a RIGHT join is rendered as the LEFT join of the swapped sources with
swapped keys (fix D31) and `COALESCE(second.c, first.c)`.  Over two pipelines of the fragment, for **every** data
(null keys included): the SQL evaluates, has exactly the columns of the two sides, and returns the rows of the
reference RIGHT join **as a multiset** (the emulation lists matched pairs right-row-major). -/
theorem C16_sqlite_right_as_left (Θ : Interp) (ec : EngineCfg) (env : Env) (cfg : SqlCfg) (hm : cfg.merges = false)
    (hemu : cfg.emulateRightFull = true) (a b : Ops) (onA onB : List String)
    (hga : Good cfg env a) (hgb : Good cfg env b) (hoa : ∀ c ∈ onA, c ∈ a.cols) (hob : ∀ c ∈ onB, c ∈ b.cols)
    (hlen : onA.length = onB.length) {q : Near} (h : toNearSql cfg (.join a b onA onB .right) = .ok q) :
    ∃ T ta tb, semSql Θ ec env q = .ok T ∧ semE ec Θ SemCfg.ref env a = .ok ta ∧ semE ec Θ SemCfg.ref env b = .ok tb ∧
      (∀ c, c ∈ T.cols ↔ c ∈ a.cols ∨ c ∈ b.cols) ∧
      (T.rows.map (fun r => r.select (Ops.join a b onA onB .right).cols)).Perm
        ((semJoin SemCfg.ref .right onA onB ta tb (appendNew a.cols b.cols)).selectCols
          (Ops.join a b onA onB .right).cols).rows := by
  obtain ⟨st', hrun⟩ := toNearSql_ok h
  have hfr : InFragJ (.join a b onA onB .right) = true := by simp [InFragJ, hga.frag, hgb.frag]
  rw [toNear_none_eq_ju _ _ _ hfr] at hrun
  obtain ⟨ta, hta⟩ := semG_ok_fragJ (sqlRowLe ec) Θ SemCfg.ref env a hga.frag false hga.env
  obtain ⟨tb, htb⟩ := semG_ok_fragJ (sqlRowLe ec) Θ SemCfg.ref env b hgb.frag false hgb.env
  have hsem : semE ec Θ SemCfg.ref env (.join a b onA onB .right) =
      .ok ((semJoin SemCfg.ref .right onA onB ta tb (appendNew a.cols b.cols)).selectCols
        (Ops.join a b onA onB .right).cols) := by
    simp only [semG, hta, htb]; rfl
  have hle : onA.isEmpty = onB.isEmpty := by
    cases onA <;> cases onB <;> simp_all
  have hwf : WF (.join a b onA onB .right) := ⟨hga.wf, hgb.wf⟩
  have hfuel : 6 * (Ops.join a b onA onB .right).size + 6 = (6 * (Ops.join a b onA onB .right).size + 5) + 1 := rfl
  rw [hfuel] at hrun
  obtain ⟨hju, u₁, hu₁, _, hsound⟩ :=
    transOK_join_sqlite_right (G := fun q => q.isJU = true) (fun _ h => h) _ a b onA onB hemu hoa hob hle
      (fun t ht => (semG_cols_wf_fragJ _ Θ SemCfg.ref env a hga.frag t ht).1)
      (fun t ht => (semG_cols_wf_fragJ _ Θ SemCfg.ref env b hgb.frag t ht).1)
      (transOK_fragJ Θ ec env cfg hm a.size a (Nat.le_refl _) hga _)
      (transOK_fragJ Θ ec env cfg hm b.size b (Nat.le_refl _) hgb _)
      _ 0 q st' _ (fun c hc => hc) hrun hsem
  obtain ⟨T, t1, t2, t3⟩ := root_of_soundP hsound hju hu₁ hwf.cols_ne_nil
  refine ⟨T, ta, tb, t1, hta, htb, fun c => (t2 c).trans (mem_joinNodeCols a b onA onB .right c), ?_⟩
  refine t3.trans ?_
  simp only [Table.selectCols]
  rw [select_map_select _ (fun c hc => hc)]

/-- **C16_diffkeys_sql.**  Differently named join keys (`on_a ≠ on_b`; the condition `joinKeysSane` of `Sem/Eval.lean`
is not needed on the SQL side): both key columns are kept – every key column of either side is a column of the SQL
result, rendered as a qualified pass-through of its own side (for an unmatched left row the right key is NULL) – and
the rows are those of the reference join. -/
theorem C16_diffkeys_sql (Θ : Interp) (ec : EngineCfg) (env : Env) (cfg : SqlCfg) (hm : cfg.merges = false)
    (a b : Ops) (onA onB : List String) (jt : JoinType) (hg : Good cfg env (.join a b onA onB jt))
    {q : Near} (h : toNearSql cfg (.join a b onA onB jt) = .ok q) :
    ∃ T ta tb, semSql Θ ec env q = .ok T ∧ semE ec Θ SemCfg.ref env a = .ok ta ∧ semE ec Θ SemCfg.ref env b = .ok tb ∧
      (∀ c ∈ onA ++ onB, c ∈ T.cols) ∧
      T.rows.map (fun r => r.select (Ops.join a b onA onB jt).cols) =
        ((semJoin SemCfg.ref jt onA onB ta tb (appendNew a.cols b.cols)).selectCols (Ops.join a b onA onB jt).cols).rows := by
  obtain ⟨T, ta, tb, h1, h2, h3, h4, h5⟩ := C16_sql_native Θ ec env cfg hm a b onA onB jt hg h
  refine ⟨T, ta, tb, h1, h2, h3, ?_, h5⟩
  have hj := hg.jwf
  simp only [JoinWF, joinWFb, Bool.and_eq_true, subset_iff] at hj
  intro c hc
  rcases List.mem_append.mp hc with hc | hc
  · exact (h4 c).mpr (Or.inl (hj.1.2 c hc))
  · exact (h4 c).mpr (Or.inr (hj.2 c hc))

/-! ## 4. Non-vacuity -/

namespace C01JEx
open C18Ex (Θc)

/-- generic dialect / SQLite dialect, no extend merges -/
def cfgG : SqlCfg := ⟨false, false⟩
def cfgS : SqlCfg := ⟨false, true⟩

def a1 : Row := [("k", .num 1), ("x", .num 10)]
def a2 : Row := [("k", .null), ("x", .num 20)]
def a3 : Row := [("k", .num 2), ("x", .num 30)]
def b1 : Row := [("k", .num 1), ("y", .num 5)]
def b2 : Row := [("k", .null), ("y", .num 6)]
def b3 : Row := [("k", .num 3), ("y", .num 7)]
def c1 : Row := [("k2", .num 1), ("y", .num 5)]
def envJ : Env := [("A", ⟨["k", "x"], [a1, a2, a3]⟩), ("B", ⟨["k", "y"], [b1, b2, b3]⟩), ("C", ⟨["k2", "y"], [c1]⟩),
  ("A2", ⟨["k", "x"], [a3]⟩)]
def tA : Ops := .table "A" ["k", "x"]
def tB : Ops := .table "B" ["k", "y"]
def tC : Ops := .table "C" ["k2", "y"]
def tA2 : Ops := .table "A2" ["k", "x"]

theorem wfA : WF tA := ⟨by decide, by decide⟩
theorem wfB : WF tB := ⟨by decide, by decide⟩
theorem wfC : WF tC := ⟨by decide, by decide⟩
theorem wfA2 : WF tA2 := ⟨by decide, by decide⟩

theorem env_ok (p : Ops) (h : ∀ nc ∈ p.tables, nc ∈ [("A", ["k", "x"]), ("B", ["k", "y"]), ("C", ["k2", "y"]),
    ("A2", ["k", "x"])]) : EnvOK false envJ p := by
  intro nc hnc
  have := h nc hnc
  simp only [List.mem_cons, List.not_mem_nil, or_false] at this
  rcases this with rfl | rfl | rfl | rfl <;> exact ⟨_, rfl, by decide, fun h => by cases h⟩

/-- `A.natural_join(B, on=['k'], jointype=jt)`, null keys on both sides -/
def pJ (jt : JoinType) : Ops := .join tA tB ["k"] ["k"] jt

theorem good_pJ (cfg : SqlCfg) (jt : JoinType) (hjt : jt ≠ .outer)
    (hn : cfg.emulateRightFull = false ∨ (jt ≠ .right ∧ jt ≠ .full)) : Good cfg envJ (pJ jt) := by
  refine ⟨rfl, ⟨wfA, wfB⟩, rfl, rfl, rfl, ?_, ?_, rfl, env_ok _ (by
      intro nc h
      simp only [pJ, tA, tB, Ops.tables, List.cons_append, List.nil_append, List.mem_cons, List.not_mem_nil, or_false] at h ⊢
      rcases h with h | h
      · exact Or.inl h
      · exact Or.inr (Or.inl h))⟩
  · simp [JoinTypesSql, joinTypesSqlb, pJ, tA, tB, hjt]
  · rcases hn with h | ⟨h1, h2⟩
    · simp [JoinsNative, joinsNativeb, pJ, tA, tB, h]
    · simp [JoinsNative, joinsNativeb, pJ, tA, tB, h1, h2]

/-- a FULL join on the generic dialect: the translation succeeds, and the SQL returns the five rows of the standard
FULL join (the two null-key rows do **not** match each other) -/
example : ∃ q T, toNearSql cfgG (pJ .full) = .ok q ∧ semSql Θc EngineCfg.sqlite envJ q = .ok T ∧
    T.rows = [[("k", .num 1), ("x", .num 10), ("y", .num 5)], [("k", .null), ("x", .num 20), ("y", .null)],
      [("k", .num 2), ("x", .num 30), ("y", .null)], [("k", .null), ("x", .null), ("y", .num 6)],
      [("k", .num 3), ("x", .null), ("y", .num 7)]] := ⟨_, _, rfl, rfl, by decide⟩

example (ec : EngineCfg) (jt : JoinType) (hjt : jt ≠ .outer) {q : Near} (h : toNearSql cfgG (pJ jt) = .ok q) :
    ∃ T ta tb, semSql Θc ec envJ q = .ok T ∧ semE ec Θc SemCfg.ref envJ tA = .ok ta ∧
      semE ec Θc SemCfg.ref envJ tB = .ok tb ∧ (∀ c, c ∈ T.cols ↔ c ∈ tA.cols ∨ c ∈ tB.cols) ∧
      T.rows.map (fun r => r.select (pJ jt).cols) =
        ((semJoin SemCfg.ref jt ["k"] ["k"] ta tb (appendNew tA.cols tB.cols)).selectCols (pJ jt).cols).rows :=
  C16_sql_native Θc ec envJ cfgG rfl tA tB ["k"] ["k"] jt (good_pJ cfgG jt hjt (Or.inl rfl)) h

/-- the same pipeline on SQLite with a LEFT join (rendered natively) -/
example (ec : EngineCfg) {q : Near} (h : toNearSql cfgS (pJ .left) = .ok q) :
    ∃ T t, semSql Θc ec envJ q = .ok T ∧ sem Θc SemCfg.ref envJ (pJ .left) = .ok t ∧ t.cols = (pJ .left).cols ∧
      T.EquivS t :=
  C01_translation_sound_joins Θc ec envJ cfgS rfl (pJ .left)
    (good_pJ cfgS .left (by decide) (Or.inr ⟨by decide, by decide⟩)) ⟨trivial, trivial⟩ ⟨trivial, trivial⟩
    ⟨trivial, trivial⟩ h

/-- SQLite, RIGHT join: the translation succeeds; the SQL (swapped LEFT join) lists the rows in another order and
another column order than the reference RIGHT join, the multiset is the same (`C16_sqlite_right_as_left`) -/
example : ∃ q T, toNearSql cfgS (pJ .right) = .ok q ∧ semSql Θc EngineCfg.sqlite envJ q = .ok T ∧
    T.rows = [[("k", .num 1), ("y", .num 5), ("x", .num 10)], [("k", .null), ("y", .num 6), ("x", .null)],
      [("k", .num 3), ("y", .num 7), ("x", .null)]] := ⟨_, _, rfl, rfl, by decide⟩

example (ec : EngineCfg) {q : Near} (h : toNearSql cfgS (pJ .right) = .ok q) :
    ∃ T ta tb, semSql Θc ec envJ q = .ok T ∧ semE ec Θc SemCfg.ref envJ tA = .ok ta ∧
      semE ec Θc SemCfg.ref envJ tB = .ok tb ∧ (∀ c, c ∈ T.cols ↔ c ∈ tA.cols ∨ c ∈ tB.cols) ∧
      (T.rows.map (fun r => r.select (pJ .right).cols)).Perm
        ((semJoin SemCfg.ref .right ["k"] ["k"] ta tb (appendNew tA.cols tB.cols)).selectCols (pJ .right).cols).rows :=
  C16_sqlite_right_as_left Θc ec envJ cfgS rfl rfl tA tB ["k"] ["k"]
    ⟨rfl, wfA, by decide, by decide, by decide, by decide, by decide, by decide, env_ok _ (by decide)⟩
    ⟨rfl, wfB, by decide, by decide, by decide, by decide, by decide, by decide, env_ok _ (by decide)⟩
    (by decide) (by decide) rfl h

/-- differently named keys: `A.natural_join(C, on={'k': 'k2'}, jointype='left')` keeps `k` and `k2`; the unmatched
left rows have `k2 = NULL` -/
def pD : Ops := .join tA tC ["k"] ["k2"] .left

theorem good_pD : Good cfgS envJ pD :=
  ⟨rfl, ⟨wfA, wfC⟩, by decide, by decide, by decide, by decide, by decide, by decide, env_ok _ (by decide)⟩

example : ∃ q T, toNearSql cfgS pD = .ok q ∧ semSql Θc EngineCfg.sqlite envJ q = .ok T ∧
    T.rows = [[("k", .num 1), ("x", .num 10), ("k2", .num 1), ("y", .num 5)],
      [("k", .null), ("x", .num 20), ("k2", .null), ("y", .null)],
      [("k", .num 2), ("x", .num 30), ("k2", .null), ("y", .null)]] := ⟨_, _, rfl, rfl, by decide⟩

example (ec : EngineCfg) {q : Near} (h : toNearSql cfgS pD = .ok q) :
    ∃ T ta tb, semSql Θc ec envJ q = .ok T ∧ semE ec Θc SemCfg.ref envJ tA = .ok ta ∧
      semE ec Θc SemCfg.ref envJ tC = .ok tb ∧ (∀ c ∈ ["k"] ++ ["k2"], c ∈ T.cols) ∧
      T.rows.map (fun r => r.select pD.cols) =
        ((semJoin SemCfg.ref .left ["k"] ["k2"] ta tb (appendNew tA.cols tC.cols)).selectCols pD.cols).rows :=
  C16_diffkeys_sql Θc ec envJ cfgS rfl tA tC ["k"] ["k2"] .left good_pD h

/-- `concat_rows` with an id column over a side that is an `extend` node (the builder merges the label assignment
into it) and a plain table, below a `select_rows`; and a join of the result with `B` -/
def pU : Ops :=
  .join
    (.selectRows
      (.concat (.extend tA [("z", .value (.int 1))] [] [] [] false)
        (.extend tA2 [("z", .value (.int 2))] [] [] [] false) (some "src") "a" "b")
      (.app ">" [.col "x", .value (.int 5)] true false))
    tB ["k"] ["k"] .inner

theorem wf_ext (t : Ops) (ht : WF t) (v : Lit) : WF (.extend t [("z", .value v)] [] [] [] false) := by
  refine ⟨ht, ?_, ?_, ?_, ?_, ?_, ?_, ?_⟩
  · intro c hc; simp [Rules26.usedBy, Term.colsRaw] at hc
  · intro c hc; cases hc
  · intro c hc; cases hc
  · intro c hc; cases hc
  · intro k _; exact ⟨by simp, by simp⟩
  · intro _; exact ⟨rfl, rfl, rfl⟩
  · intro h; cases h

theorem good_pU : Good cfgS envJ pU := by
  refine ⟨rfl, ⟨⟨wf_ext tA wfA _, wf_ext tA2 wfA2 _, ?_⟩, wfB⟩, by decide, by decide,
    by decide, by decide, by decide, by decide, env_ok _ (by decide)⟩
  intro c hc
  cases hc
  decide

example : ∃ q, toNearSql cfgS pU = .ok q := ⟨_, rfl⟩

example (ec : EngineCfg) {q : Near} (h : toNearSql cfgS pU = .ok q) :
    ∃ T t, semSql Θc ec envJ q = .ok T ∧ sem Θc SemCfg.ref envJ pU = .ok t ∧ t.cols = pU.cols ∧ T.EquivS t :=
  C01_translation_sound_joins Θc ec envJ cfgS rfl pU good_pU ⟨⟨trivial, trivial⟩, trivial⟩
    ⟨⟨⟨trivial, fun h => by cases h⟩, ⟨trivial, fun h => by cases h⟩⟩, trivial⟩
    ⟨⟨⟨trivial, fun h => by cases h⟩, ⟨trivial, fun h => by cases h⟩⟩, trivial⟩ h

end C01JEx

end DAVerif
