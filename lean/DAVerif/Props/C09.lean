import DAVerif.Proofs.RefSem
import DAVerif.Proofs.BuilderBasics
import DAVerif.Sem.Theta
/-!
# C09  Aggregation returns one row per group, and one row without grouping  (executor model)

Specification side (`Spec/Ref.lean`): `Ref.keyTuple group r` – the cells of a row in the group columns, a null
cell being a value like any other – and `Ref.distinctKeys group rows` – how many different key tuples occur
(`C09_distinctKeys_card`: the size of *any* duplicate-free enumeration of the key tuples).  For windows:
`Ref.windowOf` / `Ref.windowRef` (the partition of a row = the rows that agree with it on every partition
column, null agreeing with null).

The theorems are about `sem` for both configurations and every interpretation `Θ`; they need no hypothesis on
`Θ`.  (The model is of /repo after the fixes D13/D13b: `groupby(..., dropna=False)`.)  The SQL-side theorems,
including the "project in a pruning context" statement, are in the `DAVerif.Sql` development.
-/
namespace DAVerif
open RefSem

/-- `distinctKeys` is the number of different key tuples: the length of **any** duplicate-free list that
enumerates exactly the key tuples occurring among the rows -/
theorem C09_distinctKeys_card (group : List String) (rows : List Row) (ks : List (List Val)) (hn : ks.Nodup)
    (hk : ∀ k, k ∈ ks ↔ ∃ r ∈ rows, Ref.keyTuple group r = k) : ks.length = Ref.distinctKeys group rows := by
  have : ks.Perm ((rows.map (Ref.keyTuple group)).eraseDups) :=
    (List.perm_ext_iff_of_nodup hn (nodup_eraseDups _)).mpr (fun k => by
      rw [hk k, List.mem_eraseDups, List.mem_map])
  exact this.length_eq

/-- **C09, one row per group.**  A `project` with a non-empty `group_by` returns exactly as many rows as there
are different combinations of group-key values in its input; a null key value is a value like any other, so the
rows whose key is (or contains) null form groups of their own. -/
theorem C09_project_groups {Θ : Interp} {cfg : SemCfg} {env : Env} {q : Ops} {ops : Assign} {g : List String}
    {t tq : Table} (h : sem Θ cfg env (.project q ops g) = .ok t) (hq : sem Θ cfg env q = .ok tq)
    (hg : g ≠ []) : t.rows.length = Ref.distinctKeys g tq.rows := by
  obtain ⟨tq', hq', rfl⟩ := sem_project_ok h
  rw [hq] at hq'
  cases hq'
  have : g.isEmpty = false := by cases g <;> simp_all
  simp only [semProject, this, Bool.false_eq_true, if_false, List.length_map, Ref.distinctKeys]
  rfl

/-- **C09, one row without grouping.**  A `project` without `group_by` returns exactly one row – whatever its
input, in particular when the input has no rows, and whatever happens to its outputs later. -/
theorem C09_project_ungrouped {Θ : Interp} {cfg : SemCfg} {env : Env} {q : Ops} {ops : Assign} {t : Table}
    (h : sem Θ cfg env (.project q ops []) = .ok t) : t.rows.length = 1 := by
  obtain ⟨tq, _, rfl⟩ := sem_project_ok h
  simp [semProject]

/-- the key tuple of the output row of the group with key `k` is `k` -/
theorem keyTuple_project_row {g : List String} {k : List Val} {r0 : Row} (hk : k = Ref.keyTuple g r0)
    (A : Row) {oc : List String} (hsub : ∀ c ∈ g, c ∈ oc) :
    Ref.keyTuple g (Row.select (g.zip k ++ A) oc) = k := by
  subst hk
  simp only [Ref.keyTuple]
  apply List.map_congr_left
  intro c hc
  rw [Row.select_get_of_mem (hsub c hc)]
  simp only [Row.get, List.lookup_append, lookup_zip_map hc, Option.some_or]
  rfl

/-- **C09, the rows are the groups.**  With a non-empty `group_by`: every output row carries the key values of
some input row, every input row's key values are carried by some output row, and no two output rows carry the
same key values (the group columns are a key of the result). -/
theorem C09_project_keys {Θ : Interp} {cfg : SemCfg} {env : Env} {q : Ops} {ops : Assign} {g : List String}
    {t tq : Table} (h : sem Θ cfg env (.project q ops g) = .ok t) (hq : sem Θ cfg env q = .ok tq)
    (hg : g ≠ []) :
    (∀ r ∈ t.rows, ∃ r0 ∈ tq.rows, Ref.keyTuple g r = Ref.keyTuple g r0) ∧
    (∀ r0 ∈ tq.rows, ∃ r ∈ t.rows, Ref.keyTuple g r = Ref.keyTuple g r0) ∧
    t.rows.Pairwise (fun a b => Ref.keyTuple g a ≠ Ref.keyTuple g b) := by
  obtain ⟨tq', hq', rfl⟩ := sem_project_ok h
  rw [hq] at hq'
  cases hq'
  have hsub : ∀ c ∈ g, c ∈ (Ops.project q ops g).cols := fun c hc => mem_appendNew_left _ _ hc
  refine ⟨?_, ?_, semProject_isKey Θ ops g tq _ hsub⟩
  all_goals
    have hne : g.isEmpty = false := by cases g <;> simp_all
    simp only [semProject, hne, Bool.false_eq_true, if_false, List.mem_map, List.mem_eraseDups]
  · rintro r ⟨k, ⟨r0, hr0, rfl⟩, rfl⟩
    exact ⟨r0, hr0, keyTuple_project_row rfl _ hsub⟩
  · intro r0 hr0
    exact ⟨_, ⟨keyOf r0 g, ⟨r0, hr0, rfl⟩, rfl⟩, keyTuple_project_row rfl _ hsub⟩

/-- **C09, aggregate values.**  The output row of a group carries, in each aggregate column, the aggregate
`Θ.agg` of the argument values of exactly the input rows with that group's key (in input order); assignment
targets being pairwise different and different from the group columns, as the builder checks. -/
theorem C09_project_value {Θ : Interp} {cfg : SemCfg} {env : Env} {q : Ops} {ops : Assign} {g : List String}
    {t tq : Table} (h : sem Θ cfg env (.project q ops g) = .ok t) (hq : sem Θ cfg env q = .ok tq)
    (hg : g ≠ []) (hn : (ops.map (·.1)).Nodup) (hd : ∀ kv ∈ ops, kv.1 ∉ g) :
    ∀ r ∈ t.rows, ∀ kv ∈ ops, r.get kv.1 = Θ.agg (opName kv.2)
      ((tq.rows.filter (fun r0 => Ref.keyTuple g r0 == Ref.keyTuple g r)).map (Ref.callArg kv.2)) := by
  obtain ⟨tq', hq', rfl⟩ := sem_project_ok h
  rw [hq] at hq'
  cases hq'
  have hsub : ∀ c ∈ g, c ∈ (Ops.project q ops g).cols := fun c hc => mem_appendNew_left _ _ hc
  have hne : g.isEmpty = false := by cases g <;> simp_all
  simp only [semProject, hne, Bool.false_eq_true, if_false, List.mem_map, List.mem_eraseDups]
  rintro r ⟨k, ⟨r0, hr0, rfl⟩, rfl⟩ kv hkv
  have hk : ∀ A, Ref.keyTuple g (Row.select (g.zip (keyOf r0 g) ++ A) (Ops.project q ops g).cols) = keyOf r0 g :=
    fun A => keyTuple_project_row (r0 := r0) rfl A hsub
  rw [hk]
  have hmem : kv.1 ∈ (Ops.project q ops g).cols :=
    mem_appendNew.mpr (Or.inr (List.mem_map_of_mem hkv))
  rw [Row.select_get_of_mem hmem]
  simp only [Row.get, List.lookup_append]
  have h1 : List.lookup kv.1 (g.zip (keyOf r0 g)) = none := by
    rw [List.lookup_eq_none_iff]
    intro p hp
    have : p.1 ∈ g := (List.of_mem_zip hp).1
    simp only [bne_iff_ne, ne_eq]
    intro e
    exact hd kv hkv (e ▸ this)
  rw [h1, Option.none_or]
  have h2 : ∀ (l : List (String × Term)) (f : String × Term → Val), (l.map (·.1)).Nodup → kv ∈ l →
      List.lookup kv.1 (l.map (fun kv => (kv.1, f kv))) = some (f kv) := by
    intro l f
    induction l with
    | nil => intro _ h; cases h
    | cons x l ih =>
      intro hn hm
      simp only [List.map_cons, List.nodup_cons] at hn
      simp only [List.map_cons, List.lookup_cons]
      rcases List.mem_cons.mp hm with e | e
      · subst e; simp
      · have : (kv.1 == x.1) = false := by
          simp only [beq_eq_false_iff_ne, ne_eq]
          intro e'
          exact hn.1 (e' ▸ List.mem_map_of_mem e)
        rw [this]
        exact ih hn.2 e
  rw [h2 ops _ hn hkv]
  simp only [Option.getD_some, argValues_eq_map]
  congr 1

/-- **C09, a windowed extend keeps every row.**  The result has as many rows as the input, in the same order,
and each output row agrees with its input row on every column that is not an assignment target. -/
theorem C09_window_rows {Θ : Interp} {cfg : SemCfg} {env : Env} {q : Ops} {ops : Assign}
    {part od rv : List String} {t tq : Table} (h : sem Θ cfg env (.extend q ops part od rv true) = .ok t)
    (hq : sem Θ cfg env q = .ok tq) :
    t.rows.length = tq.rows.length ∧
    ∀ i < tq.rows.length, ∀ c ∈ q.cols, c ∉ ops.map (·.1) →
      (t.rows.getD i []).get c = (tq.rows.getD i []).get c := by
  obtain ⟨tq', hq', rfl⟩ := sem_extend_window_ok h
  rw [hq] at hq'
  cases hq'
  rw [semExtendWindow_rows_ref]
  refine ⟨by simp, ?_⟩
  intro i hi c hc hnot
  have hmem : c ∈ (Ops.extend q ops part od rv true).cols := mem_appendNew_left _ _ hc
  rw [List.getD_eq_getElem?_getD, List.getElem?_map, List.getElem?_range hi]
  simp only [Option.map_some, Option.getD_some]
  rw [Row.select_get_of_mem hmem, Row.get_setAll_of_not_mem]
  simpa [List.map_map, Function.comp_def] using hnot

/-- **C09, each row's value is computed over that row's group.**  In the result of a windowed extend, the cell
of row `i` in an assigned column is the window function applied to the argument values of the rows of *its
partition* – the rows that agree with row `i` on every partition column, a null key value agreeing with a null
key value (so the rows whose key is null are a partition like any other) – in window order, and to the row's
position in that order (`Ref.windowRef`, `mem_windowOf`).  Assignment targets pairwise different, as the
builder checks. -/
theorem C09_window_value {Θ : Interp} {cfg : SemCfg} {env : Env} {q : Ops} {ops : Assign}
    {part od rv : List String} {t tq : Table} (h : sem Θ cfg env (.extend q ops part od rv true) = .ok t)
    (hq : sem Θ cfg env q = .ok tq) (hn : (ops.map (·.1)).Nodup) :
    ∀ i < tq.rows.length, ∀ kv ∈ ops,
      (t.rows.getD i []).get kv.1 =
        Ref.windowRef Θ (opName kv.2) (constArgs kv.2) (Ref.callArg kv.2) part od rv tq.rows i ∧
      (∀ j, j ∈ Ref.windowOf part od rv tq.rows i ↔
        j < tq.rows.length ∧ ∀ c ∈ part, (tq.rows.getD j []).get c = (tq.rows.getD i []).get c) := by
  obtain ⟨tq', hq', rfl⟩ := sem_extend_window_ok h
  rw [hq] at hq'
  cases hq'
  intro i hi kv hkv
  refine ⟨?_, fun j => mem_windowOf⟩
  exact semExtendWindow_get_ref Θ part od rv tq hn hi hkv
    (mem_appendNew.mpr (Or.inr (List.mem_map_of_mem hkv)))

/-! ## Non-vacuity -/
namespace C09Ex

def Θc : Interp := Theta.concrete (fun _ t => .ok t)

/-- `g = a, null, a, null`, `x = 1, 2, 3, 4` (the witness of finding D13) -/
def rows : List Row :=
  [[("g", .str "a"), ("x", .num 1)], [("g", .null), ("x", .num 2)],
   [("g", .str "a"), ("x", .num 3)], [("g", .null), ("x", .num 4)]]
def env : Env := [("d", ⟨["g", "x"], rows⟩)]
def envEmpty : Env := [("d", ⟨["g", "x"], []⟩)]
def d : Ops := .table "d" ["g", "x"]

/-- two groups: `a` and null -/
example : Ref.distinctKeys ["g"] rows = 2 := by decide

example (cfg : SemCfg) : ∃ t,
    sem Θc cfg env (.project d [("s", .app "sum" [.col "x"] false true)] ["g"]) = .ok t ∧
    t = ⟨["g", "s"], [[("g", .str "a"), ("s", .num 4)], [("g", .null), ("s", .num 6)]]⟩ :=
  ⟨_, rfl, by decide +kernel⟩

/-- an ungrouped project of an empty input, whose output is then overwritten: one row -/
example (cfg : SemCfg) : ∃ t,
    sem Θc cfg envEmpty (.extend (.project d [("s", .app "sum" [.col "x"] false true)] [])
      [("s", .value (.int 1))] [] [] [] false) = .ok t ∧ t = ⟨["s"], [[("s", .num 1)]]⟩ :=
  ⟨_, rfl, by decide +kernel⟩

/-- the window of row 1 (key null) is the partition of the two null-key rows -/
example : Ref.windowOf ["g"] [] [] rows 1 = [1, 3] := by
  rw [windowOf_unordered]; decide

def p : Ops := .project d [("s", .app "sum" [.col "x"] false true)] ["g"]
def w : Ops := .extend d [("s", .app "sum" [.col "x"] false true)] ["g"] [] [] true

/-- the theorems apply to `p` and `w` on `env` (the tables they speak about exist, both configurations) -/
example (cfg : SemCfg) : ∃ t, sem Θc cfg env p = .ok t ∧ t.rows.length = Ref.distinctKeys ["g"] rows :=
  ⟨_, rfl, C09_project_groups (cfg := cfg) (env := env) (q := d) (tq := ⟨["g", "x"], rows⟩) rfl rfl (by decide)⟩

example (cfg : SemCfg) : ∃ t, sem Θc cfg env w = .ok t ∧ t.rows.length = 4 ∧
    ∀ i < 4, (t.rows.getD i []).get "s" =
      Ref.windowRef Θc "sum" [] (Ref.callArg (.app "sum" [.col "x"] false true)) ["g"] [] [] rows i :=
  ⟨_, rfl,
   (C09_window_rows (cfg := cfg) (env := env) (q := d) (tq := ⟨["g", "x"], rows⟩) rfl rfl).1,
   fun i hi => (C09_window_value (cfg := cfg) (env := env) (q := d) (tq := ⟨["g", "x"], rows⟩) rfl rfl (by decide) i hi
     ("s", .app "sum" [.col "x"] false true) (by simp)).1⟩

end C09Ex
end DAVerif
