import DAVerif.Spec.Perm
import DAVerif.Proofs.Order
import DAVerif.Proofs.Perm
import DAVerif.Sem.Theta
/-!
# C18  Results ignore input row order, and `order_rows` orders and limits

Specification-side vocabulary is in `DAVerif/Spec/Perm.lean` (`t ≈ t'`, `Env.Equiv`, `ResEquiv`, the laws
`AggOrderFree`/`WinOrderFree`/`ConvertPermInvariant` on the interpretation `Θ`, the scope `WindowsTotal`);
the per-operator lemmas are in `DAVerif/Proofs/Perm.lean`, the order theory in `DAVerif/Proofs/Order.lean`.
This file has the property theorems, their non-vacuity examples and the necessity of the scope conditions.
-/
namespace DAVerif

/-! ## Part 1: the result does not depend on the order of the input rows -/

/-- **C18, row order (general form).**  For every interpretation `Θ` of the function symbols whose record
transforms respect row order, every backend configuration, every pipeline `p` whose `project` nodes use order
free aggregates, and every pair of environments with the same tables up to row order: if `p` is in scope on
`env` (`WindowsTotal`: each windowed `extend` has a window order that is total within each partition – or only
order free window functions –, each `order_rows` with a limit does not cut through a tie; both stated on the
intermediate tables computed from `env`), then evaluating `p` on the two environments gives the same error, or
two tables with the same columns and the same multiset of rows. -/
theorem C18_perm_invariant_gen (Θ : Interp) (cfg : SemCfg) {env env' : Env} (p : Ops)
    (hA : AggsOrderFree Θ p) (hC : ConvertPermInvariant Θ) (hW : WindowsTotal Θ cfg env p)
    (hE : Env.Equiv env env') : ResEquiv (sem Θ cfg env p) (sem Θ cfg env' p) := by
  induction p with
  | table name cs => exact semTable_equiv Θ cfg hE name cs
  | extend src ops part od rv w ih =>
    obtain ⟨hW1, hW2⟩ := hW
    cases w with
    | true =>
      simp only [sem, if_true]
      exact ResEquiv.bind (ih hA hW1) (fun t t' hx ht =>
        semExtendWindow_equiv Θ ops part od rv ht _ (hW2 rfl t hx))
    | false =>
      simp only [sem, Bool.false_eq_true, if_false]
      exact ResEquiv.bind (ih hA hW1) (fun t t' _ ht => semExtendPlain_equiv Θ ops ht _)
  | project src ops g ih =>
    simp only [sem]
    exact ResEquiv.bind (ih hA.1 hW) (fun t t' _ ht => semProject_equiv Θ ops g ht _ hA.2)
  | selectRows src e ih =>
    simp only [sem]
    exact ResEquiv.bind (ih hA hW) (fun t t' _ ht => semSelectRows_equiv Θ e ht)
  | selectCols src cs ih =>
    simp only [sem]
    exact ResEquiv.bind (ih hA hW) (fun t t' _ ht => ht.selectCols cs)
  | dropCols src dels ih =>
    simp only [sem]
    exact ResEquiv.bind (ih hA hW) (fun t t' _ ht => ht.selectCols _)
  | order src cs rv lim ih =>
    obtain ⟨hW1, hW2⟩ := hW
    simp only [sem]
    refine ResEquiv.bind (ih hA hW1) (fun t t' hx ht => ?_)
    cases lim with
    | none => exact semOrder_equiv cs rv ht
    | some n => exact semOrder_limit_equiv cs rv n ht (hW2 n rfl t hx)
  | rename src m ih =>
    simp only [sem]
    exact ResEquiv.bind (ih hA hW) (fun t t' _ ht => semRename_equiv ht _ _)
  | mapCols src m dels ih =>
    simp only [sem]
    exact ResEquiv.bind (ih hA hW) (fun t t' _ ht => semMapCols_equiv ht _ dels _)
  | join a b oa ob jt iha ihb =>
    simp only [sem]
    refine ResEquiv.bind (iha hA.1 hW.1) (fun ta ta' _ hta => ?_)
    exact ResEquiv.bind (ihb hA.2 hW.2) (fun tb tb' _ htb =>
      (semJoin_equiv cfg jt oa ob hta htb _).selectCols _)
  | concat a b idc an bn iha ihb =>
    simp only [sem]
    refine ResEquiv.bind (iha hA.1 hW.1) (fun ta ta' _ hta => ?_)
    exact ResEquiv.bind (ihb hA.2 hW.2) (fun tb tb' _ htb => semConcat_equiv idc an bn hta htb _)
  | convert src rm ih =>
    simp only [sem]
    exact ResEquiv.bind (ih hA hW) (fun t t' _ ht => hC rm t t' ht)

/-- **C18, row order.**  With aggregates that only depend on the multiset of their arguments and record
transforms that respect row order: permuting the rows of the input tables of a pipeline in scope
(`WindowsTotal`) leaves the result unchanged as a multiset (same error, or same columns and same multiset of
rows) – for the Pandas configuration and for the reference (SQL) configuration alike. -/
theorem C18_perm_invariant (Θ : Interp) (cfg : SemCfg) {env env' : Env} (p : Ops)
    (hA : AggPermInvariant Θ) (hC : ConvertPermInvariant Θ) (hW : WindowsTotal Θ cfg env p)
    (hE : Env.Equiv env env') : ResEquiv (sem Θ cfg env p) (sem Θ cfg env' p) :=
  C18_perm_invariant_gen Θ cfg p (aggsOrderFree_of_permInvariant hA p) hC hW hE

/-- the scope condition is itself independent of the input row order -/
theorem WindowsTotal.of_envEquiv (Θ : Interp) (cfg : SemCfg) {env env' : Env} (p : Ops)
    (hA : AggsOrderFree Θ p) (hC : ConvertPermInvariant Θ) (hW : WindowsTotal Θ cfg env p)
    (hE : Env.Equiv env env') : WindowsTotal Θ cfg env' p := by
  have back : ∀ (q : Ops), AggsOrderFree Θ q → WindowsTotal Θ cfg env q → ∀ t', sem Θ cfg env' q = .ok t' →
      ∃ t, sem Θ cfg env q = .ok t ∧ t ≈ t' := by
    intro q hAq hWq t' ht'
    obtain ⟨t, h1, h2⟩ := (C18_perm_invariant_gen Θ cfg q hAq hC hWq hE).symm.of_ok ht'
    exact ⟨t, h1, h2.symm⟩
  induction p with
  | table => trivial
  | extend src ops part od rv w ih =>
    refine ⟨ih hA hW.1, fun hw t' ht' => ?_⟩
    obtain ⟨t, h1, h2⟩ := back src hA hW.1 t' ht'
    exact (hW.2 hw t h1).perm h2.2
  | order src cs rv lim ih =>
    refine ⟨ih hA hW.1, fun n hn t' ht' => ?_⟩
    obtain ⟨t, h1, h2⟩ := back src hA hW.1 t' ht'
    exact (hW.2 n hn t h1).perm h2.2
  | project src ops g ih => exact ih hA.1 hW
  | join a b oa ob jt iha ihb => exact ⟨iha hA.1 hW.1, ihb hA.2 hW.2⟩
  | concat a b idc an bn iha ihb => exact ⟨iha hA.1 hW.1, ihb hA.2 hW.2⟩
  | selectRows src e ih => exact ih hA hW
  | selectCols src cs ih => exact ih hA hW
  | dropCols src dels ih => exact ih hA hW
  | rename src m ih => exact ih hA hW
  | mapCols src m dels ih => exact ih hA hW
  | convert src rm ih => exact ih hA hW

/-! ### syntactic criteria for the scope conditions, and the partition columns as a set -/

/-- **Syntactic criterion (windows).**  A window evaluated directly on the result of a `project` is total
within each partition as soon as its partition and order columns together include all the group columns. -/
theorem C18_window_after_project_total {Θ : Interp} {cfg : SemCfg} {env : Env} {src : Ops} {aops : Assign}
    {group part od rv : List String} (hsub : ∀ c ∈ group, c ∈ part ∨ c ∈ od) {t : Table}
    (ht : sem Θ cfg env (.project src aops group) = .ok t) : WinTotal part od rv t.rows := by
  simp only [sem, bind, Except.bind] at ht
  split at ht
  · cases ht
  · cases ht
    exact winTotal_of_isKey hsub
      (semProject_isKey Θ aops group _ _ (fun c hc => mem_appendNew_left _ _ hc))

/-- **Syntactic criterion (limit).**  An ordering of the result of a `project` by columns that include all the
group columns is total. -/
theorem C18_order_after_project_total {Θ : Interp} {cfg : SemCfg} {env : Env} {src : Ops} {aops : Assign}
    {group cs rv : List String} (hsub : ∀ c ∈ group, c ∈ cs) {t : Table}
    (ht : sem Θ cfg env (.project src aops group) = .ok t) : TotalOn cs rv t.rows := by
  simp only [sem, bind, Except.bind] at ht
  split at ht
  · cases ht
  · cases ht
    exact totalOn_of_isKey hsub
      (semProject_isKey Θ aops group _ _ (fun c hc => mem_appendNew_left _ _ hc))

/-- **C18, the partition columns are a set.**  A windowed `extend` does not depend on the order (or
multiplicity) in which the partition columns are listed – the executor iterates over a Python `set`, the only
hash-seed dependent choice in it. -/
theorem C18_partition_list_order (Θ : Interp) (cfg : SemCfg) (env : Env) (src : Ops) (ops : Assign)
    {p p' : List String} (h : ∀ c, c ∈ p ↔ c ∈ p') (o rv : List String) (w : Bool) :
    sem Θ cfg env (.extend src ops p o rv w) = sem Θ cfg env (.extend src ops p' o rv w) := by
  cases w with
  | true => simp only [sem, if_true, Ops.cols, semExtendWindow_partition_set Θ ops h]
  | false => simp only [sem, Ops.cols, Bool.false_eq_true, if_false]

/-! ## Part 2: `order_rows` orders and limits -/

/-- **C18, sorted.**  The rows of a pipeline that ends in `order_rows` (with or without a limit) come out
sorted: each row is before-or-tied-with every later row in the order given by the columns `cs` with the
reversals `rev` (`rowLe`; `C18_order_sorted_spec` unfolds it). -/
theorem C18_order_sorted {Θ : Interp} {cfg : SemCfg} {env : Env} {q : Ops} {cs rev : List String}
    {lim : Option Nat} {t : Table} (h : sem Θ cfg env (.order q cs rev lim) = .ok t) :
    t.rows.Pairwise (fun a b => rowLe cs rev a b = true) := by
  obtain ⟨tq, _, rfl⟩ := sem_order_ok h
  simp only [semOrder]
  cases lim with
  | none => exact sortRows_sorted cs rev tq.rows
  | some n => exact (sortRows_sorted cs rev tq.rows).sublist (List.take_sublist _ _)

/-- **C18, same rows.**  Without a limit the result of `order_rows` has the columns and exactly the rows of
its input (as a multiset). -/
theorem C18_order_perm {Θ : Interp} {cfg : SemCfg} {env : Env} {q : Ops} {cs rev : List String} {t : Table}
    (h : sem Θ cfg env (.order q cs rev none) = .ok t) : ∃ tq, sem Θ cfg env q = .ok tq ∧ t ≈ tq := by
  obtain ⟨tq, hq, rfl⟩ := sem_order_ok h
  exact ⟨tq, hq, rfl, sortRows_perm cs rev tq.rows⟩

/-- **C18, limit.**  With `limit = n` the result is exactly the first `n` rows of the sorted input. -/
theorem C18_order_limit {Θ : Interp} {cfg : SemCfg} {env : Env} {q : Ops} {cs rev : List String} {n : Nat}
    {t : Table} (h : sem Θ cfg env (.order q cs rev (some n)) = .ok t) :
    ∃ tq, sem Θ cfg env q = .ok tq ∧ t.cols = tq.cols ∧ t.rows = (sortRows cs rev tq.rows).take n := by
  obtain ⟨tq, hq, rfl⟩ := sem_order_ok h
  exact ⟨tq, hq, rfl, rfl⟩

/-- **C18, limit keeps the least rows.**  The `n` kept rows (all rows when there are fewer) together with the
dropped rows are the input rows, the kept rows are sorted, and every kept row is before-or-tied-with every
dropped row. -/
theorem C18_order_limit_least {Θ : Interp} {cfg : SemCfg} {env : Env} {q : Ops} {cs rev : List String}
    {n : Nat} {t : Table} (h : sem Θ cfg env (.order q cs rev (some n)) = .ok t) :
    ∃ tq dropped, sem Θ cfg env q = .ok tq ∧ (t.rows ++ dropped).Perm tq.rows ∧
      t.rows.length = min n tq.rows.length ∧ t.rows.Pairwise (fun a b => rowLe cs rev a b = true) ∧
      ∀ a ∈ t.rows, ∀ b ∈ dropped, rowLe cs rev a b = true := by
  obtain ⟨tq, hq, rfl⟩ := sem_order_ok h
  refine ⟨tq, (sortRows cs rev tq.rows).drop n, hq, ?_, ?_, ?_, ?_⟩
  · simp only [semOrder, List.take_append_drop]; exact sortRows_perm cs rev tq.rows
  · simp [semOrder, List.length_take]
  · exact (sortRows_sorted cs rev tq.rows).sublist (List.take_sublist _ _)
  · have := sortRows_sorted cs rev tq.rows
    rw [← List.take_append_drop n (sortRows cs rev tq.rows), List.pairwise_append] at this
    exact this.2.2

/-- **C18, the kept rows are determined.**  When no two different rows tie on the order columns, the limited
result is the *only* list with the properties of `C18_order_limit_least`: any way of splitting the input rows
into `min n (#rows)` sorted kept rows and dropped rows, no kept row after a dropped row, gives the same list. -/
theorem C18_order_limit_unique {Θ : Interp} {cfg : SemCfg} {env : Env} {q : Ops} {cs rev : List String}
    {n : Nat} {t tq : Table} (h : sem Θ cfg env (.order q cs rev (some n)) = .ok t)
    (hq : sem Θ cfg env q = .ok tq) (htot : TotalOn cs rev tq.rows) (kept dropped : List Row)
    (hp : (kept ++ dropped).Perm tq.rows) (hl : kept.length = min n tq.rows.length)
    (hs : kept.Pairwise (fun a b => rowLe cs rev a b = true))
    (hle : ∀ a ∈ kept, ∀ b ∈ dropped, rowLe cs rev a b = true) : t.rows = kept := by
  obtain ⟨tq', hq', rfl⟩ := sem_order_ok h
  rw [hq] at hq'
  cases hq'
  have hsorted : (kept ++ sortRows cs rev dropped).Pairwise (fun a b => rowLe cs rev a b = true) := by
    rw [List.pairwise_append]
    exact ⟨hs, sortRows_sorted cs rev dropped, fun a ha b hb => hle a ha b (mem_sortRows.mp hb)⟩
  have hperm : (kept ++ sortRows cs rev dropped).Perm tq.rows :=
    ((sortRows_perm cs rev dropped).append_left kept).trans hp
  simp only [semOrder]
  rw [sortRows_eq_of_sorted_perm htot hperm hsorted]
  have hlen : (kept ++ dropped).length = tq.rows.length := hp.length_eq
  rw [List.length_append] at hlen
  by_cases hn : n ≤ tq.rows.length
  · exact List.take_left' (by omega)
  · have hd : dropped = [] := List.eq_nil_of_length_eq_zero (by omega)
    subst hd
    rw [show sortRows cs rev [] = [] by simp [sortRows], List.append_nil]
    exact List.take_of_length_le (by omega)

/-! ### "sorted by the given columns with the given reversals, nulls last" (`LexLe`, `CellBefore` in `Spec/Perm.lean`) -/

/-- **C18, sorted (readable form).**  In the result of a pipeline ending in `order_rows`, for every row and
every later row: they agree on all order columns, or at the first order column where they differ the earlier
row has the smaller cell (the larger one for a reversed column), a null cell counting as larger than every
value in both directions ("nulls last"). -/
theorem C18_order_sorted_spec {Θ : Interp} {cfg : SemCfg} {env : Env} {q : Ops} {cs rev : List String}
    {lim : Option Nat} {t : Table} (h : sem Θ cfg env (.order q cs rev lim) = .ok t) :
    t.rows.Pairwise (LexLe cs rev) :=
  (C18_order_sorted h).imp (fun {a b} hab => (rowLe_iff_lexLe cs rev a b).mp hab)

/-! ## Non-vacuity: the hypotheses hold on concrete pipelines and tables, and none can be dropped -/
namespace C18Ex

/-- the driver's concrete interpretation, record transforms being the identity -/
def Θc : Interp := Theta.concrete (fun _ t => .ok t)

theorem convert_ok : ConvertPermInvariant Θc := fun _ _ _ h => h

theorem size_agg_orderFree : AggOrderFree Θc "size" := by
  intro vs vs' h
  simp [Θc, Theta.concrete, Theta.agg, h.length_eq]

/-- a group aggregate used as a window function is order free -/
theorem size_win_orderFree : WinOrderFree Θc "size" := by
  intro cargs vs vs' pos pos' h _ _
  simp [Θc, Theta.concrete, Theta.win, Theta.agg, h.length_eq]

def ra : Row := [("g", .num 1), ("o", .num 1), ("x", .num 10)]
def rb : Row := [("g", .num 1), ("o", .num 2), ("x", .num 20)]
def rc : Row := [("g", .num 2), ("o", .num 1), ("x", .num 5)]
def rd : Row := [("g", .num 2), ("o", .num 3), ("x", .null)]
def env : Env := [("d", ⟨["g", "o", "x"], [ra, rb, rc, rd]⟩)]
/-- the same table with its rows permuted -/
def env' : Env := [("d", ⟨["g", "o", "x"], [rc, ra, rd, rb]⟩)]
def d : Ops := .table "d" ["g", "o", "x"]

theorem env_equiv : Env.Equiv env env' := ⟨rfl, ⟨rfl, by decide⟩, trivial⟩

theorem sem_d (cfg : SemCfg) : sem Θc cfg env d = .ok ⟨["g", "o", "x"], [ra, rb, rc, rd]⟩ := rfl

/-- a running sum per group `g` in the order of `o` (the values of `o` tie across groups, not within a group),
joined with the group sizes -/
def p1 : Ops :=
  .join (.extend d [("c", .app "cumsum" [.col "x"] false true)] ["g"] ["o"] [] true)
    (.project d [("n", .app "size" [] false true)] ["g"]) ["g"] ["g"] .left

theorem p1_aggs : AggsOrderFree Θc p1 :=
  ⟨trivial, trivial, fun kv h => by
    simp only [List.mem_singleton] at h
    subst h
    exact size_agg_orderFree⟩

theorem p1_scope (cfg : SemCfg) : WindowsTotal Θc cfg env p1 := by
  refine ⟨⟨trivial, fun _ t ht => Or.inl ?_⟩, trivial⟩
  rw [sem_d] at ht
  cases ht
  decide

/-- the main theorem applies to `p1`, for both configurations -/
example (cfg : SemCfg) : ResEquiv (sem Θc cfg env p1) (sem Θc cfg env' p1) :=
  C18_perm_invariant_gen Θc cfg p1 p1_aggs convert_ok (p1_scope cfg) env_equiv

/-- and its conclusion is about a successful evaluation (four joined rows), not about two errors -/
example : ∃ t, sem Θc .pandas env p1 = .ok t ∧ t.cols = ["g", "o", "x", "c", "n"] ∧ t.rows.length = 4 :=
  ⟨_, rfl, by decide, by decide⟩

/-- descending by `x`, nulls last, first two rows: the order is total on the table -/
def p2 : Ops := .order d ["x"] ["x"] (some 2)

theorem p2_scope (cfg : SemCfg) : WindowsTotal Θc cfg env p2 :=
  ⟨trivial, fun n _ t ht => Or.inl (by rw [sem_d] at ht; cases ht; decide)⟩

example (cfg : SemCfg) : ResEquiv (sem Θc cfg env p2) (sem Θc cfg env' p2) :=
  C18_perm_invariant_gen Θc cfg p2 trivial convert_ok (p2_scope cfg) env_equiv

/-- the two largest `x` in descending order; the null `x` of `rd` would come last -/
example : sem Θc .pandas env p2 = .ok ⟨["g", "o", "x"], [rb, ra]⟩ := by
  have hs : sortRows ["x"] ["x"] [ra, rb, rc, rd] = [rb, ra, rc, rd] :=
    sortRows_eq_of_sorted_perm (by decide) (by decide) (by decide)
  have h : sem Θc .pandas env p2 = .ok (semOrder ["x"] ["x"] (some 2) ⟨["g", "o", "x"], [ra, rb, rc, rd]⟩) := rfl
  rw [h, semOrder, hs]
  rfl

/-- ascending by `o`, first two rows: `ra` and `rc` tie (`o = 1`), so the order is not total, but the cut falls
between `o = 1` and `o = 2` -/
def p3 : Ops := .order d ["o"] [] (some 2)

example : ¬ TotalOn ["o"] [] [ra, rb, rc, rd] := by decide

theorem p3_scope (cfg : SemCfg) : WindowsTotal Θc cfg env p3 :=
  ⟨trivial, fun n hn t ht => Or.inr (by
    cases hn
    rw [sem_d] at ht
    cases ht
    exact ⟨[ra, rc], [rb, rd], by decide, by decide, by decide⟩)⟩

example (cfg : SemCfg) : ResEquiv (sem Θc cfg env p3) (sem Θc cfg env' p3) :=
  C18_perm_invariant_gen Θc cfg p3 trivial convert_ok (p3_scope cfg) env_equiv

/-- a window without `order_by` over partitions of two rows: not total, but the function is order free -/
def p4 : Ops := .extend d [("n", .app "size" [] false true)] ["g"] [] [] true

example : ¬ WinTotal ["g"] [] [] [ra, rb, rc, rd] := by decide

theorem p4_scope (cfg : SemCfg) : WindowsTotal Θc cfg env p4 :=
  ⟨trivial, fun _ t _ => Or.inr (fun kv h => by
    simp only [List.mem_singleton] at h
    subst h
    exact size_win_orderFree)⟩

example (cfg : SemCfg) : ResEquiv (sem Θc cfg env p4) (sem Θc cfg env' p4) :=
  C18_perm_invariant_gen Θc cfg p4 trivial convert_ok (p4_scope cfg) env_equiv

/-- the syntactic criterion: `(g, o)` is a key of the table, so any window partitioned by `g` and ordered by
`o` is total, and so is any ordering that includes `g` and `o` -/
example : IsKey ["g", "o"] [ra, rb, rc, rd] := by decide
example : WinTotal ["g"] ["o"] [] [ra, rb, rc, rd] :=
  winTotal_of_isKey (ks := ["g", "o"]) (by decide) (by decide)
example : TotalOn ["o", "x", "g"] ["x"] [ra, rb, rc, rd] :=
  totalOn_of_isKey (ks := ["g", "o"]) (by decide) (by decide)

/-- the criterion for a pipeline, without looking at any data: group sizes, then (per group) a window ordered
by the group column, then the first row by the group column – in scope on **every** environment -/
def p5 : Ops :=
  .order (.extend (.project d [("n", .app "size" [] false true)] ["g"])
    [("k", .app "cumsum" [.col "n"] false true)] [] ["g"] [] true) ["g"] [] none

example (cfg : SemCfg) (e : Env) : WindowsTotal Θc cfg e p5 :=
  ⟨⟨trivial, fun _ _ ht => Or.inl (C18_window_after_project_total (by decide) ht)⟩, fun _ hn => by cases hn⟩

/-! ### the scope conditions cannot be dropped -/

def n1 : Row := [("o", .num 1), ("x", .num 1)]
def n2 : Row := [("o", .num 1), ("x", .num 10)]
def envN : Env := [("d", ⟨["o", "x"], [n1, n2]⟩)]
def envN' : Env := [("d", ⟨["o", "x"], [n2, n1]⟩)]
theorem envN_equiv : Env.Equiv envN envN' := ⟨rfl, ⟨rfl, by decide⟩, trivial⟩

/-- row numbers in the order of `o`, where both rows have `o = 1` -/
def pW : Ops := .extend (.table "d" ["o", "x"]) [("c", .app "_row_number" [] false false)] [] ["o"] [] true
/-- the first row in the order of `o`, where both rows have `o = 1` -/
def pL : Ops := .order (.table "d" ["o", "x"]) ["o"] [] (some 1)
/-- the first `x` per value of `o` -/
def pA : Ops := .project (.table "d" ["o", "x"]) [("f", .app "first" [.col "x"] false true)] ["o"]

end C18Ex

open C18Ex in
/-- **The window condition of `WindowsTotal` is necessary.**  With a tie in the window order the row numbers
depend on the input order: rows `(o,x) = (1,1), (1,10)` are numbered `x=1 ↦ 1, x=10 ↦ 2`, the permuted input
gives `x=10 ↦ 1, x=1 ↦ 2` (the real library does the same on this input). -/
theorem C18_scope_necessary_window :
    ¬ ∀ (Θ : Interp) (cfg : SemCfg) (env env' : Env) (p : Ops), AggsOrderFree Θ p → ConvertPermInvariant Θ →
        Env.Equiv env env' → ResEquiv (sem Θ cfg env p) (sem Θ cfg env' p) := by
  intro h
  have h0 := h Θc .pandas envN envN' pW trivial convert_ok envN_equiv
  have e1 : sem Θc .pandas envN pW = .ok (semExtendWindow Θc [("c", .app "_row_number" [] false false)] []
      ["o"] [] ⟨["o", "x"], [n1, n2]⟩ ["o", "x", "c"]) := rfl
  have e2 : sem Θc .pandas envN' pW = .ok (semExtendWindow Θc [("c", .app "_row_number" [] false false)] []
      ["o"] [] ⟨["o", "x"], [n2, n1]⟩ ["o", "x", "c"]) := rfl
  rw [e1, e2, semExtendWindow_of_allTied _ _ _ _ _ _ _ (by decide),
    semExtendWindow_of_allTied _ _ _ _ _ _ _ (by decide)] at h0
  exact absurd (ResEquiv.ok_iff.mp h0) (by decide +kernel)

open C18Ex in
/-- **The limit condition of `WindowsTotal` is necessary.**  With a tie at the cut, which row is kept depends on
the input order. -/
theorem C18_scope_necessary_limit :
    ¬ ∀ (Θ : Interp) (cfg : SemCfg) (env env' : Env) (p : Ops), AggsOrderFree Θ p → ConvertPermInvariant Θ →
        Env.Equiv env env' → ResEquiv (sem Θ cfg env p) (sem Θ cfg env' p) := by
  intro h
  have h0 := h Θc .pandas envN envN' pL trivial convert_ok envN_equiv
  have e1 : sem Θc .pandas envN pL = .ok (semOrder ["o"] [] (some 1) ⟨["o", "x"], [n1, n2]⟩) := rfl
  have e2 : sem Θc .pandas envN' pL = .ok (semOrder ["o"] [] (some 1) ⟨["o", "x"], [n2, n1]⟩) := rfl
  have s1 : sortRows ["o"] [] [n1, n2] = [n1, n2] := sortRows_of_sorted (by decide)
  have s2 : sortRows ["o"] [] [n2, n1] = [n2, n1] := sortRows_of_sorted (by decide)
  rw [e1, e2] at h0
  simp only [semOrder, s1, s2] at h0
  exact absurd (ResEquiv.ok_iff.mp h0) (by decide)

open C18Ex in
/-- **The law on aggregates is necessary.**  `first` is not order free, and a `project` using it depends on the
input order (`f = 1` against `f = 10`; the real library does the same on this input). -/
theorem C18_aggs_necessary :
    ¬ ∀ (Θ : Interp) (cfg : SemCfg) (env env' : Env) (p : Ops), ConvertPermInvariant Θ →
        WindowsTotal Θ cfg env p → Env.Equiv env env' → ResEquiv (sem Θ cfg env p) (sem Θ cfg env' p) := by
  intro h
  have h0 := h Θc .pandas envN envN' pA convert_ok trivial envN_equiv
  have e1 : sem Θc .pandas envN pA = .ok (semProject Θc [("f", .app "first" [.col "x"] false true)] ["o"]
      ⟨["o", "x"], [n1, n2]⟩ ["o", "f"]) := rfl
  have e2 : sem Θc .pandas envN' pA = .ok (semProject Θc [("f", .app "first" [.col "x"] false true)] ["o"]
      ⟨["o", "x"], [n2, n1]⟩ ["o", "f"]) := rfl
  rw [e1, e2] at h0
  exact absurd (ResEquiv.ok_iff.mp h0) (by decide)


end DAVerif
