import DAVerif.Proofs.C06Exact
import DAVerif.Props.C26
import DAVerif.Sem.Theta
/-!
# C06  Builder simplifications never change what a pipeline means

Specification-side vocabulary is in `DAVerif/Spec/Chain.lean`: `Reachable` (the pipelines a user can write; defined in `Props/C26.lean`),
`buildRaw` (a builder call without any simplification), `semStep` (the meaning of ONE step on a materialised
table: the raw node over a fresh description of the table), `t ≈ᶜ t'` (same table up to the order of rows and
of columns – the comparison rule for results), `StepScope` (C18's scope condition for the new step).
The model of the builders is `build` (`Ops/Builder.lean`, /repo after fixes D3, D4, D5, e8da488).

Main statements: `C06_chain_eq_sequential` (one step), `C06_chain` (n steps), `C06_accepts_iff` /
`C06_same_error` (accept / reject parity), and the three simplifications as separate lemmas
`merge_ops_sound` (+ `merge_ops_sound_window`), `trivial_order_elim_sound`, `select_collapse_sound`.
-/
namespace DAVerif

/-! ## reachable pipelines are valid -/

theorem stepArgs_eq_argOps (s : Step) : Rules26.stepArgs s = Step.argOps s := by
  cases s with
  | concat b _ _ _ => cases b <;> rfl
  | _ => rfl

/-- every pipeline a user can write (`Reachable`, `Props/C26.lean`) satisfies the structural invariant `valid`
(`Proofs/Valid.lean`) from which all of C06 / C07 is derived -/
theorem Reachable.valid {p : Ops} (h : Reachable p) : p.valid = true := by
  induction h with
  | table n cs _ hn => exact nodupB_iffC.mpr hn
  | step _ _ hb ih ihb =>
    exact valid_build ih (fun b hbm => ihb b (by rw [stepArgs_eq_argOps]; exact hbm)) hb

/-! ## the three simplifications -/

/-- **`merge_ops_sound`** (restated from `Proofs/Merge.lean`; see there for the windowed analogue
`merge_ops_sound_window`).  If `try_to_merge_ops` merges the assignments `o₁` (first `extend`) and `o₂` (second
`extend`) into `o`, then on every table `t` the single plain `extend` with `o` computes exactly the table the
two plain `extend`s compute one after the other, the columns being listed in the merged node's order `oc'`
(`oc1`: columns after the first step, containing the columns the second step reads; `oc2`: columns after the
second step). -/
theorem C06_merge_ops_sound (Θ : Interp) {o1 o2 o : Assign} (h : tryMergeOps o1 o2 = some o) (t : Table)
    (oc1 oc2 oc' : List String) (hu : ∀ c ∈ Term.colsUsedOps o2, c ∈ oc1)
    (h1 : ∀ c ∈ oc', c ∈ oc1 ∨ c ∈ o2.map (·.1)) (h2 : ∀ c ∈ oc', c ∈ oc2) :
    semExtendPlain Θ o t oc' = (semExtendPlain Θ o2 (semExtendPlain Θ o1 t oc1) oc2).selectCols oc' :=
  merge_ops_sound Θ h t oc1 oc2 oc' hu h1 h2

/-- **`trivial_order_elim_sound`.**  Removing the `order_rows` steps without limit at the top of a pipeline
(`Ops.strip`; what every builder does before it constructs its node) gives a pipeline that fails with the same
error, or evaluates to a table with the same columns and the same multiset of rows. -/
theorem trivial_order_elim_sound (Θ : Interp) (cfg : SemCfg) (env : Env) (p : Ops) :
    ResEquiv (sem Θ cfg env p.strip) (sem Θ cfg env p) ∧ p.strip.cols = p.cols ∧
      p.strip.isTrivialWhenIntermediate = false :=
  ⟨sem_strip Θ cfg env p, Ops.strip_cols p, Ops.strip_not_trivial p⟩

/-- **`select_collapse_sound`** (restated from `Proofs/C06Sem.lean`).  `select_columns(cs)` on a pipeline whose
top consists of column selections / deletions (and `order_rows` steps without limit) constructs its node below
them (`Ops.selectBase`), after checking `cs` against each of them (`Ops.selectGuards`): the collapsed pipeline
fails with the same error, or gives the same columns `cs` and the same multiset of rows (the same rows in the
same order when no `order_rows` is skipped), as selecting `cs` from the receiver. -/
theorem C06_select_collapse_sound (Θ : Interp) (cfg : SemCfg) (env : Env) (self : Ops) (cs : List String)
    (hg : self.selectGuards.all (fun g => subset cs g) = true) :
    ResEquiv (sem Θ cfg env (.selectCols self.selectBase cs)) (sem Θ cfg env (.selectCols self cs)) := by
  simp only [sem]
  exact select_collapse_sound Θ cfg env self cs hg

/-! ## the property -/

/-- **C06, one step.**  For every interpretation `Θ` of the function symbols (record transforms returning the
declared columns and respecting row / column order), both backend configurations, every environment, every
pipeline `p` a user can write and every builder call `s` (any step kind, any arguments; `n` a table name not
used by the step's own argument pipelines) that is accepted and returns `p'`: evaluating `p'` fails with the same
error, or gives the same table up to the order of rows and of columns, as evaluating `p` and applying the
**raw, unsimplified** step to the materialised result – provided the new step is in C18's scope on that result
(`StepScope`: total window order or order free window functions; order free aggregates; a limit that does not
cut through a tie).  This covers the `extend` merge, the `order_rows` elimination and the select collapse. -/
theorem C06_chain_eq_sequential (Θ : Interp) (cfg : SemCfg) (env : Env) (hΘ : ConvertOK Θ)
    (hC : ConvertInvariant Θ) {p p' : Ops} {s : Step} (n : String) (hp : Reachable p)
    (hb : ∀ b ∈ Step.argOps s, Reachable b) (h : build p s = .ok p') (hf : Step.Fresh n s)
    (hs : ∀ t, sem Θ cfg env p = .ok t → StepScope Θ s t.rows) :
    ResEquivC (sem Θ cfg env p') (sem Θ cfg env p >>= semStep Θ cfg env n s) :=
  build_sem hΘ hC n hp.valid (fun b hbm => (hb b hbm).valid) h hf hs

/-- **C06, one step, same column order.**  When the chained pipeline declares its columns in the order of the
raw step's node (always, except after an `extend` merge in which both steps assign a common column), the two
results also list their columns in the same order: same error, or same columns and same multiset of rows. -/
theorem C06_chain_eq_sequential_cols (Θ : Interp) (cfg : SemCfg) (env : Env) (hΘ : ConvertOK Θ)
    (hC : ConvertInvariant Θ) {p p' : Ops} {s : Step} (n : String) (hp : Reachable p)
    (hb : ∀ b ∈ Step.argOps s, Reachable b) (h : build p s = .ok p') (hf : Step.Fresh n s)
    (hs : ∀ t, sem Θ cfg env p = .ok t → StepScope Θ s t.rows)
    (hcols : ∀ N, buildRaw (.table n p.cols) s = .ok N → N.cols = p'.cols) :
    ResEquiv (sem Θ cfg env p') (sem Θ cfg env p >>= semStep Θ cfg env n s) := by
  apply (C06_chain_eq_sequential Θ cfg env hΘ hC n hp hb h hf hs).to_resEquiv
  intro t t' ht ht'
  obtain ⟨tp, htp, hst⟩ := except_bind_eq_ok.mp ht'
  simp only [semStep] at hst
  obtain ⟨N, hN, hsem⟩ := except_bind_eq_ok.mp hst
  rw [sem_cols hΘ ht, sem_cols hΘ hsem, sem_cols hΘ htp] at *
  exact (hcols N hN).symm

/-- **C06, one step, exact form.**  When moreover no `order_rows` without limit is skipped by the builder (none at
the top of `p`, nor below the column selections / deletions at its top: `Ops.noTrivialOrderTop`), the two
evaluations are *equal* – same error, or the same rows in the same order with the same column list – without any
scope hypothesis. -/
theorem C06_chain_eq_sequential_eq (Θ : Interp) (cfg : SemCfg) (env : Env) (hΘ : ConvertOK Θ)
    {p p' : Ops} {s : Step} (n : String) (hp : Reachable p) (hb : ∀ b ∈ Step.argOps s, Reachable b)
    (h : build p s = .ok p') (hf : Step.Fresh n s) (hno : p.noTrivialOrderTop = true)
    (hcols : ∀ N, buildRaw (.table n p.cols) s = .ok N → N.cols = p'.cols) :
    sem Θ cfg env p' = sem Θ cfg env p >>= semStep Θ cfg env n s :=
  build_sem_exact hΘ n hp.valid (fun b hbm => (hb b hbm).valid) h hf hno hcols

/-- **C06, acceptance.**  A builder call on a reachable pipeline is accepted exactly when the raw call on a table
description with the same column names is – provided the table descriptions of the pipeline and of the step's
argument pipelines are consistent (the materialised table being a *new* table, `n` fresh). -/
theorem C06_accepts_iff {p : Ops} (hp : Reachable p) (n : String) (s : Step) (hf : Step.Fresh n s)
    (ht : ∀ b ∈ Step.argOps s, tablesConsistent p.tables b.tables = true) :
    (build p s).isOk ↔ (buildRaw (.table n p.cols) s).isOk := by
  have := build_errOf hp.valid n s (fun b hb => ⟨ht b hb, tablesConsistent_fresh (hf b hb)⟩)
  cases h1 : build p s <;> cases h2 : buildRaw (.table n p.cols) s <;> simp_all [errOf, Except.isOk, Except.toBool]

/-- **C06, same error class.**  Under the same conditions the two calls fail with the same error class. -/
theorem C06_same_error {p : Ops} (hp : Reachable p) (n : String) (s : Step) (hf : Step.Fresh n s)
    (ht : ∀ b ∈ Step.argOps s, tablesConsistent p.tables b.tables = true) :
    errOf (build p s) = errOf (buildRaw (.table n p.cols) s) :=
  build_errOf hp.valid n s (fun b hb => ⟨ht b hb, tablesConsistent_fresh (hf b hb)⟩)

/-- **C06, chains.**  The pipeline built from a table description by any chain of accepted builder calls
evaluates – same error, or same table up to the order of rows and columns – to the raw steps applied one after
the other, each to the materialised result of the previous one (`semSteps`); each step being in C18's scope on
the result of the pipeline built from the steps before it (`ChainScope`). -/
theorem C06_chain (Θ : Interp) (cfg : SemCfg) (env : Env) (hΘ : ConvertOK Θ) (hC : ConvertInvariant Θ)
    (n : String) {start p' : Ops} (steps : List Step) (hstart : Reachable start)
    (hb : ∀ s ∈ steps, ∀ b ∈ Step.argOps s, Reachable b) (h : buildChain start steps = .ok p')
    (hf : ∀ s ∈ steps, Step.Fresh n s) (hs : ChainScope Θ cfg env start steps) :
    ResEquivC (sem Θ cfg env p') (sem Θ cfg env start >>= semSteps Θ cfg env n steps) :=
  buildChain_sem hΘ hC n hstart.valid steps (fun s hs b hbm => (hb s hs b hbm).valid) h hf hs

/-- every pipeline built by a chain of builder calls from a reachable pipeline is reachable -/
theorem Reachable.buildChain {start p' : Ops} {steps : List Step} (hstart : Reachable start)
    (hb : ∀ s ∈ steps, ∀ b ∈ Step.argOps s, Reachable b) (h : buildChain start steps = .ok p') :
    Reachable p' := by
  induction steps generalizing start with
  | nil => cases h; exact hstart
  | cons s rest ih =>
    simp only [DAVerif.buildChain, List.foldlM_cons] at h
    obtain ⟨p1, h1, h2⟩ := except_bind_eq_ok.mp h
    exact ih (Reachable.step hstart (fun b hbm => hb s (List.mem_cons_self ..) b
        (by rw [← stepArgs_eq_argOps]; exact hbm)) h1)
      (fun s' hs' => hb s' (List.mem_cons_of_mem _ hs')) h2

/-! ## Non-vacuity: the hypotheses hold on a concrete chain that triggers all three simplifications -/
namespace C06Ex

/-- a record transform that returns the declared columns (and no rows) – enough to instantiate the laws -/
def conv : RecMap → Table → Except Err Table :=
  fun rm _ => if nodupB rm.produced then .ok ⟨rm.produced, []⟩ else .error .other

/-- the driver's concrete interpretation of the function symbols -/
def Θc : Interp := Theta.concrete conv

theorem convertOK : ConvertOK Θc := by
  intro rm t t' h
  have h' : conv rm t = .ok t' := h
  simp only [conv] at h'
  split at h'
  · cases h'; exact ⟨rfl, fun _ hr => by cases hr⟩
  · cases h'

theorem convertInv : ConvertInvariant Θc := by
  intro rm t t' hn _
  show ResEquivC (conv rm t) (conv rm t')
  simp only [conv, nodupB_iffC.mpr hn, if_true]
  exact Table.EquivC.refl (fun _ hr => by cases hr) hn

def d : Ops := .table "d" ["g", "x"]
def env : Env := [("d", ⟨["g", "x"], [[("g", .num 1), ("x", .num 5)], [("g", .num 2), ("x", .num 3)]]⟩)]

/-- `order_rows(['x'])` (eliminated by the next step) -/
def s1 : Step := .order ["x"] [] none
/-- `extend({'a': 'x + 1', 'b': '2'})` -/
def s2 : Step :=
  .extend [("a", .app "+" [.col "x", .value (.int 1)] true false), ("b", .value (.int 2))] .none [] []
/-- `extend({'a': '3', 'c': 'g'})`: merged into the previous `extend`, `a` being assigned by both -/
def s3 : Step := .extend [("a", .value (.int 3)), ("c", .col "g")] .none [] []
/-- `select_columns(['a', 'c', 'g'])` -/
def s4 : Step := .selectCols ["a", "c", "g"]
/-- `select_columns(['c', 'a'])`: collapsed with the previous selection -/
def s5 : Step := .selectCols ["c", "a"]

def steps : List Step := [s1, s2, s3, s4, s5]

/-- the chain builds ONE `extend` node (merged assignments, `order_rows` gone) under ONE selection -/
theorem built : buildChain d steps = .ok (.selectCols (.extend d
    [("b", .value (.int 2)), ("a", .value (.int 3)), ("c", .col "g")] [] [] [] false) ["c", "a"]) := by
  rfl

theorem d_reachable : Reachable d := Reachable.table "d" ["g", "x"] (by decide) (by decide)

theorem scope_all : ∀ s ∈ steps, ∀ rows, StepScope Θc s rows := by
  intro s hs rows
  simp only [steps, List.mem_cons, List.not_mem_nil, or_false] at hs
  rcases hs with rfl | rfl | rfl | rfl | rfl
  · trivial
  · intro h; exact absurd h (by decide)
  · intro h; exact absurd h (by decide)
  · trivial
  · trivial

theorem chainScope : ChainScope Θc .pandas env d steps := by
  intro pre s post e _ _ t _
  exact scope_all s (by rw [e]; simp) t.rows

/-- the chain theorem applies, and it speaks about a successful evaluation -/
example : ResEquivC (sem Θc .pandas env (.selectCols (.extend d
      [("b", .value (.int 2)), ("a", .value (.int 3)), ("c", .col "g")] [] [] [] false) ["c", "a"]))
    (sem Θc .pandas env d >>= semSteps Θc .pandas env "m" steps) :=
  C06_chain Θc .pandas env convertOK convertInv "m" steps d_reachable
    (fun s hs b hb => by
      simp only [steps, List.mem_cons, List.not_mem_nil, or_false] at hs
      rcases hs with rfl | rfl | rfl | rfl | rfl <;> cases hb)
    built
    (fun s hs b hb => by
      simp only [steps, List.mem_cons, List.not_mem_nil, or_false] at hs
      rcases hs with rfl | rfl | rfl | rfl | rfl <;> cases hb)
    chainScope

example : ∃ t, sem Θc .pandas env (.selectCols (.extend d
      [("b", .value (.int 2)), ("a", .value (.int 3)), ("c", .col "g")] [] [] [] false) ["c", "a"]) = .ok t ∧
    t.cols = ["c", "a"] ∧ t.rows.length = 2 := ⟨_, rfl, by decide, by decide⟩

/-- the exact form applies to the first `extend` on the table (nothing is skipped, same column order) -/
example : sem Θc .pandas env (.extend d
      [("a", .app "+" [.col "x", .value (.int 1)] true false), ("b", .value (.int 2))] [] [] [] false)
    = sem Θc .pandas env d >>= semStep Θc .pandas env "m" s2 :=
  C06_chain_eq_sequential_eq Θc .pandas env convertOK "m" d_reachable (by intro b hb; cases hb) rfl
    (by intro b hb; cases hb) rfl (by
      intro N hN
      have : buildRaw (.table "m" d.cols) s2 = .ok (.extend (.table "m" ["g", "x"])
          [("a", .app "+" [.col "x", .value (.int 1)] true false), ("b", .value (.int 2))] [] [] [] false) := rfl
      rw [this] at hN
      cases hN
      rfl)

end C06Ex

/-! ## The column order can differ, and the table descriptions matter for acceptance -/

open C06Ex in
/-- **Column order is not preserved by the `extend` merge** (so the one-step statement cannot be strengthened to
`ResEquiv`, which compares the column lists): `.extend({'a': 'x + 1', 'b': '2'}).extend({'a': '3', 'c': 'g'})`
is merged into one node that declares `g, x, b, a, c`; the second step applied to the materialised first result
declares `g, x, a, b, c`.  The real library does the same. -/
theorem C06_column_order_not_preserved :
    ¬ ∀ (Θ : Interp) (cfg : SemCfg) (env : Env) (p p' : Ops) (s : Step) (n : String), ConvertOK Θ →
        ConvertInvariant Θ → Reachable p → build p s = .ok p' → Step.Fresh n s →
        (∀ t, sem Θ cfg env p = .ok t → StepScope Θ s t.rows) →
        ResEquiv (sem Θ cfg env p') (sem Θ cfg env p >>= semStep Θ cfg env n s) := by
  intro h
  have hp : buildChain d [s1, s2] = .ok (.extend d
      [("a", .app "+" [.col "x", .value (.int 1)] true false), ("b", .value (.int 2))] [] [] [] false) := by
    rfl
  have hreach := Reachable.buildChain d_reachable
    (fun s hs b hb => by
      simp only [List.mem_cons, List.not_mem_nil, or_false] at hs
      rcases hs with rfl | rfl <;> cases hb) hp
  have hb : build (.extend d
      [("a", .app "+" [.col "x", .value (.int 1)] true false), ("b", .value (.int 2))] [] [] [] false) s3
      = .ok (.extend d [("b", .value (.int 2)), ("a", .value (.int 3)), ("c", .col "g")] [] [] [] false) := by
    rfl
  have h0 := h Θc .pandas env _ _ s3 "m" convertOK convertInv hreach hb (fun b hb => by cases hb)
    (fun t _ hw => absurd hw (by decide))
  have e1 : (sem Θc .pandas env (.extend d [("b", .value (.int 2)), ("a", .value (.int 3)), ("c", .col "g")]
      [] [] [] false)).toOption.map Table.cols = some ["g", "x", "b", "a", "c"] := by decide +kernel
  have e2 : ((sem Θc .pandas env (.extend d
      [("a", .app "+" [.col "x", .value (.int 1)] true false), ("b", .value (.int 2))] [] [] [] false)
      >>= semStep Θc .pandas env "m" s3).toOption.map Table.cols) = some ["g", "x", "a", "b", "c"] := by
    decide +kernel
  revert h0 e1 e2
  generalize sem Θc .pandas env (.extend d [("b", .value (.int 2)), ("a", .value (.int 3)), ("c", .col "g")]
      [] [] [] false) = L
  generalize (sem Θc .pandas env (.extend d
      [("a", .app "+" [.col "x", .value (.int 1)] true false), ("b", .value (.int 2))] [] [] [] false)
      >>= semStep Θc .pandas env "m" s3) = R
  intro h0 e1 e2
  cases L with
  | error _ => cases e1
  | ok tl =>
    cases R with
    | error _ => cases e2
    | ok tr =>
      simp only [Except.toOption, Option.map_some, Option.some.injEq] at e1 e2
      have := h0.1
      rw [e1, e2] at this
      exact absurd this (by decide)

/-- **The consistency of the table descriptions is necessary for acceptance parity**: a join of the table `d(a)`
with another description `d(b)` of the same name is rejected (ValueError), the raw join on a fresh description
`m(a)` of the materialised left side is accepted. -/
theorem C06_accepts_tables_necessary :
    ¬ ∀ (p : Ops) (n : String) (s : Step), Reachable p → Step.Fresh n s →
        errOf (build p s) = errOf (buildRaw (.table n p.cols) s) := by
  intro h
  have := h (.table "d" ["a"]) "m" (.join (.table "d" ["b"]) [] [] "cross" false)
    (Reachable.table "d" ["a"] (by decide) (by decide)) (by
      intro b hb
      simp only [Step.argOps, List.mem_singleton] at hb
      subst hb
      decide)
  exact absurd this (by decide +kernel)

end DAVerif
