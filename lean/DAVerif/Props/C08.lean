import DAVerif.Proofs.SemBasic
import DAVerif.Props.C26
import DAVerif.Sem.Theta
/-!
# C08  Results have exactly the columns the pipeline declares  (executor model)

"Declared columns" is `Ops.cols` (`column_names`, recomputed per node as the constructors do); there is no other
specification-side definition.  The theorems are about `sem` for **both** configurations (`SemCfg.pandas` = what
`pandas_base.py` computes, `SemCfg.ref` = the standard meaning) and every interpretation `Θ` of the function
symbols whose record transforms return the columns their record map declares (`ConvertOK`, C17's theorem).
The SQL-side statements of C08 are in the `DAVerif.Sql` development.
-/
namespace DAVerif

/-- the record maps of the `convert_records` nodes of a pipeline -/
def Ops.recMaps : Ops → List RecMap
  | .table _ _ => []
  | .extend s _ _ _ _ _ | .project s _ _ | .selectRows s _ | .selectCols s _ | .dropCols s _
  | .order s _ _ _ | .rename s _ | .mapCols s _ _ => recMaps s
  | .join a b _ _ _ | .concat a b _ _ _ => recMaps a ++ recMaps b
  | .convert s rm => recMaps s ++ [rm]

/-- **C08, columns.**  Whatever the pipeline, the configuration and the inputs: a returned table has exactly
the declared columns – as a *list*, i.e. also in the declared order. -/
theorem C08_cols (Θ : Interp) (hΘ : ConvertOK Θ) (cfg : SemCfg) (env : Env) (p : Ops) {t : Table}
    (h : sem Θ cfg env p = .ok t) : t.cols = p.cols :=
  (sem_cols_wf Θ hΘ cfg env p t h).1

/-- **C08, rows.**  Every row of a returned table has exactly the declared columns, in the declared order (no
extra scratch column, no missing column). -/
theorem C08_rows_wf (Θ : Interp) (hΘ : ConvertOK Θ) (cfg : SemCfg) (env : Env) (p : Ops) {t : Table}
    (h : sem Θ cfg env p = .ok t) : ∀ r ∈ t.rows, r.keys = p.cols := by
  obtain ⟨hc, hw⟩ := sem_cols_wf Θ hΘ cfg env p t h
  intro r hr
  rw [← hc]
  exact hw r hr

/-- **C08, no duplicates.**  For every pipeline obtained from table descriptions by builder calls (`Reachable`,
defined with C26; `C26_reachable_cols`: the builders keep the declared columns duplicate-free) the columns of a
returned table are pairwise different. -/
theorem C08_cols_nodup (Θ : Interp) (hΘ : ConvertOK Θ) (cfg : SemCfg) (env : Env) {p : Ops} (hp : Reachable p)
    {t : Table} (h : sem Θ cfg env p = .ok t) : t.cols.Nodup := by
  rw [C08_cols Θ hΘ cfg env p h]
  exact (C26_reachable_cols hp).2

/-- **C08, same set.**  Column set form of `C08_cols`: a column is in the result iff it is declared. -/
theorem C08_cols_set (Θ : Interp) (hΘ : ConvertOK Θ) (cfg : SemCfg) (env : Env) (p : Ops) {t : Table}
    (h : sem Θ cfg env p = .ok t) (c : String) : c ∈ t.cols ↔ c ∈ p.cols := by
  rw [C08_cols Θ hΘ cfg env p h]

/-- **C08, order after `select_columns`.**  The result of a pipeline ending in `select_columns(cs)` has the
columns `cs` as a list: in the order the step names them (no hypothesis on `Θ` is needed here). -/
theorem C08_select_order (Θ : Interp) (cfg : SemCfg) (env : Env) (q : Ops) (cs : List String) {t : Table}
    (h : sem Θ cfg env (.selectCols q cs) = .ok t) : t.cols = cs ∧ ∀ r ∈ t.rows, r.keys = cs := by
  simp only [sem, bind, Except.bind] at h
  split at h
  · cases h
  · cases h
    exact ⟨rfl, fun r hr => Table.wf_selectCols _ _ r hr⟩

/-- **Evaluation fails only at a table lookup or inside a record transform.**  If the environment binds every
table description of the pipeline to a table with (at least) the described columns, and the record transforms of
its `convert_records` nodes do not fail, evaluation returns a table – whatever the rows are. -/
theorem sem_ok_of_tables (Θ : Interp) (cfg : SemCfg) (env : Env) (p : Ops)
    (hT : ∀ nc ∈ p.tables, ∃ t, env.lookup nc.1 = some t ∧ subset nc.2 t.cols = true)
    (hC : ∀ rm ∈ p.recMaps, ∀ t, ∃ t', Θ.convert rm t = .ok t') : ∃ t, sem Θ cfg env p = .ok t := by
  induction p with
  | table name cs =>
    obtain ⟨t, h1, h2⟩ := hT (name, cs) (by simp [Ops.tables])
    exact ⟨t.selectCols cs, by simp only [sem]; simp only [] at h1 h2; rw [h1]; simp only [h2, if_true]⟩
  | extend src ops part od rv w ih =>
    obtain ⟨t, ht⟩ := ih hT hC
    cases w <;> exact ⟨_, by simp only [sem, ht, bind, Except.bind]; rfl⟩
  | project src ops g ih =>
    obtain ⟨t, ht⟩ := ih hT hC
    exact ⟨_, by simp only [sem, ht, bind, Except.bind]; rfl⟩
  | selectRows src e ih =>
    obtain ⟨t, ht⟩ := ih hT hC
    exact ⟨_, by simp only [sem, ht, bind, Except.bind]; rfl⟩
  | selectCols src cs ih =>
    obtain ⟨t, ht⟩ := ih hT hC
    exact ⟨_, by simp only [sem, ht, bind, Except.bind]; rfl⟩
  | dropCols src dels ih =>
    obtain ⟨t, ht⟩ := ih hT hC
    exact ⟨_, by simp only [sem, ht, bind, Except.bind]; rfl⟩
  | order src cs rv lim ih =>
    obtain ⟨t, ht⟩ := ih hT hC
    exact ⟨_, by simp only [sem, ht, bind, Except.bind]; rfl⟩
  | rename src m ih =>
    obtain ⟨t, ht⟩ := ih hT hC
    exact ⟨_, by simp only [sem, ht, bind, Except.bind]; rfl⟩
  | mapCols src m dels ih =>
    obtain ⟨t, ht⟩ := ih hT hC
    exact ⟨_, by simp only [sem, ht, bind, Except.bind]; rfl⟩
  | join a b oa ob jt iha ihb =>
    obtain ⟨ta, hta⟩ := iha (fun nc h => hT nc (by simp [Ops.tables, h]))
      (fun rm h => hC rm (by simp [Ops.recMaps, h]))
    obtain ⟨tb, htb⟩ := ihb (fun nc h => hT nc (by simp [Ops.tables, h]))
      (fun rm h => hC rm (by simp [Ops.recMaps, h]))
    exact ⟨_, by simp only [sem, hta, htb, bind, Except.bind]; rfl⟩
  | concat a b idc an bn iha ihb =>
    obtain ⟨ta, hta⟩ := iha (fun nc h => hT nc (by simp [Ops.tables, h]))
      (fun rm h => hC rm (by simp [Ops.recMaps, h]))
    obtain ⟨tb, htb⟩ := ihb (fun nc h => hT nc (by simp [Ops.tables, h]))
      (fun rm h => hC rm (by simp [Ops.recMaps, h]))
    exact ⟨_, by simp only [sem, hta, htb, bind, Except.bind]; rfl⟩
  | convert src rm ih =>
    obtain ⟨t, ht⟩ := ih hT (fun rm' h => hC rm' (by simp [Ops.recMaps, h]))
    obtain ⟨t', ht'⟩ := hC rm (by simp [Ops.recMaps]) t
    exact ⟨t', by simp only [sem, ht, bind, Except.bind]; exact ht'⟩

/-- **C08, empty inputs.**  When every input table is empty (it exists and has the described columns, but no
rows) evaluation still succeeds and the result has exactly the declared columns, in every row it may have (an
ungrouped `project` returns a row even then) – provided the record transforms of the pipeline do not fail. -/
theorem C08_empty (Θ : Interp) (hΘ : ConvertOK Θ) (cfg : SemCfg) (env : Env) (p : Ops)
    (hT : ∀ nc ∈ p.tables, ∃ t, env.lookup nc.1 = some t ∧ subset nc.2 t.cols = true ∧ t.rows = [])
    (hC : ∀ rm ∈ p.recMaps, ∀ t, ∃ t', Θ.convert rm t = .ok t') :
    ∃ t, sem Θ cfg env p = .ok t ∧ t.cols = p.cols ∧ ∀ r ∈ t.rows, r.keys = p.cols := by
  obtain ⟨t, ht⟩ := sem_ok_of_tables Θ cfg env p
    (fun nc h => let ⟨t, h1, h2, _⟩ := hT nc h; ⟨t, h1, h2⟩) hC
  exact ⟨t, ht, C08_cols Θ hΘ cfg env p ht, C08_rows_wf Θ hΘ cfg env p ht⟩

/-! ## Non-vacuity -/
namespace C08Ex

/-- the driver's concrete interpretation; record transforms return an empty table with the declared columns -/
def Θc : Interp := Theta.concrete (fun rm _ => .ok ⟨rm.produced, []⟩)

theorem Θc_ok : ConvertOK Θc := by
  intro rm t t' h
  cases h
  exact ⟨rfl, fun r hr => by cases hr⟩

def d : Ops := .table "d" ["g", "x", "y"]
def env : Env := [("d", ⟨["g", "x", "y", "unused"],
  [[("g", .str "a"), ("x", .num 1), ("y", .null), ("unused", .num 0)],
   [("g", .null), ("x", .num 2), ("y", .num 5), ("unused", .num 0)]]⟩)]
def envEmpty : Env := [("d", ⟨["g", "x", "y", "unused"], []⟩)]

/-- overwrite `x`, add `z`, aggregate per `g`, overwrite every aggregate (a dead project), keep two columns in a
new order -/
def p1 : Ops :=
  .selectCols (.extend (.project (.extend d [("x", .app "+" [.col "x", .value (.int 1)] true false),
      ("z", .app "+" [.col "y", .value (.int 1)] true false)] [] [] [] false)
    [("s", .app "sum" [.col "x"] false true)] ["g"]) [("s", .value (.int 0))] [] [] [] false) ["s", "g"]

def q1 : Ops := .extend d [("x", .app "+" [.col "x", .value (.int 1)] true false),
  ("z", .app "+" [.col "y", .value (.int 1)] true false)] [] [] [] false
def q2 : Ops := .project q1 [("s", .app "sum" [.col "x"] false true)] ["g"]
def q3 : Ops := .extend q2 [("s", .value (.int 0))] [] [] [] false

/-- `p1` is what the builders return for
`d.extend({x: x+1, z: y+1}).project({s: x.sum()}, group_by=[g]).extend({s: 0}).select_columns([s, g])` -/
theorem p1_reachable : Reachable p1 := by
  have h0 : Reachable d := .table "d" ["g", "x", "y"] (by decide) (by decide)
  have h1 : Reachable q1 := .step (s := .extend [("x", .app "+" [.col "x", .value (.int 1)] true false),
    ("z", .app "+" [.col "y", .value (.int 1)] true false)] .none [] []) h0
    (fun b hb => by simp [Rules26.stepArgs] at hb) rfl
  have h2 : Reachable q2 := .step (s := .project [("s", .app "sum" [.col "x"] false true)] ["g"]) h1
    (fun b hb => by simp [Rules26.stepArgs] at hb) rfl
  have h3 : Reachable q3 := .step (s := .extend [("s", .value (.int 0))] .none [] []) h2
    (fun b hb => by simp [Rules26.stepArgs] at hb) rfl
  exact .step (s := .selectCols ["s", "g"]) h3 (fun b hb => by simp [Rules26.stepArgs] at hb) rfl

example : p1.cols = ["s", "g"] := by decide

/-- the hypotheses of the theorems hold for `p1`: evaluation succeeds, on the data and on empty inputs -/
example (cfg : SemCfg) : ∃ t, sem Θc cfg env p1 = .ok t ∧ t.cols = ["s", "g"] ∧ t.rows.length = 2 :=
  ⟨_, rfl, by decide, by decide⟩

example (cfg : SemCfg) : ∃ t, sem Θc cfg envEmpty p1 = .ok t ∧ t.cols = p1.cols ∧ ∀ r ∈ t.rows, r.keys = p1.cols :=
  C08_empty Θc Θc_ok cfg envEmpty p1 (by decide) (fun rm h => by
    have : p1.recMaps = [] := by decide
    rw [this] at h
    cases h)

example (cfg : SemCfg) {t : Table} (h : sem Θc cfg env p1 = .ok t) : t.cols.Nodup :=
  C08_cols_nodup Θc Θc_ok cfg env p1_reachable h

end C08Ex
end DAVerif
