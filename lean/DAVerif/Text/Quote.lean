/-
Model of the text-quoting code of /repo/data_algebra (property C14):

  sql_model.py   SQLModel.quote_identifier / quote_string / value_to_sql / table_values_to_sql_str_list,
                 _clean_annotation, _list_join_expecting_list,
                 row_recs_to_blocks_query_str_list_pair / blocks_to_row_recs_query_str_list_pair,
                 concat_rows_to_near_sql (the label term), the `SELECT  -- <annotation>` line
  MySQL.py       MySQLModel.quote_identifier, quote_string            (fix `c14-quote-backslash.diff`)
  SparkSQL.py    SparkSQLModel.quote_string                          (same fix)
  BigQuery.py    BigQueryModel.quote_string, quote_identifier        (same fix)

Python `str` is `List Char` here (Unicode scalar values; lone surrogates and NUL are out of scope, DESIGN
Appendix B).  Exceptions are `Except Err`.  No imports: this file is part of the compiled driver.
-/
namespace DAVerif.Text

inductive Dialect where
  | sqlite | postgres | mysql | spark | bigquery
  deriving DecidableEq, Repr

inductive Err where
  | valueError | assertionError | typeError
  deriving DecidableEq, Repr

/-- `string_quote=` argument of each `*Model.__init__`
(SQLite, PostgreSQL, MySQL: `"'"`; SparkSQL, BigQuery: `'"'`). -/
def Dialect.stringQuote : Dialect → Char
  | .sqlite => '\'' | .postgres => '\'' | .mysql => '\'' | .spark => '"' | .bigquery => '"'

/-- `identifier_quote=` argument of each `*Model.__init__`
(SQLite, PostgreSQL: `'"'`; MySQL, SparkSQL, BigQuery: backtick). -/
def Dialect.identQuote : Dialect → Char
  | .sqlite => '"' | .postgres => '"' | .mysql => '`' | .spark => '`' | .bigquery => '`'

/-- `string_type=` (default `"VARCHAR"`; MySQL `"CHAR"`, SparkSQL and BigQuery `"STRING"`). -/
def Dialect.stringType : Dialect → List Char
  | .sqlite => "VARCHAR".toList | .postgres => "VARCHAR".toList | .mysql => "CHAR".toList
  | .spark => "STRING".toList | .bigquery => "STRING".toList

/-- `union_all_term_start=` (default `"("`, SQLite `""`). -/
def Dialect.unionStart : Dialect → List Char
  | .sqlite => [] | _ => ['(']
/-- `union_all_term_end=` (default `")"`, SQLite `""`). -/
def Dialect.unionEnd : Dialect → List Char
  | .sqlite => [] | _ => [')']

/-- `str.replace(c, r)` for a one-character `c` (also `re.sub(c, r, s)` when `c` is not a regex
metacharacter and `r` contains no backslash): every occurrence of `c` becomes `r`, left to right. -/
def pyReplace (c : Char) (r : List Char) : List Char → List Char
  | [] => []
  | x :: xs => if x = c then r ++ pyReplace c r xs else x :: pyReplace c r xs

/-! ## quote_string -/

/-- `SQLModel.quote_string` (inherited unchanged by SQLiteModel and PostgreSQLModel):
```
return (self.string_quote
        + re.sub(self.string_quote, self.string_quote + self.string_quote, string)
        + self.string_quote)
```
Before the fix this body was used by all five dialects. -/
def quoteStringBase (d : Dialect) (s : List Char) : List Char :=
  d.stringQuote :: pyReplace d.stringQuote [d.stringQuote, d.stringQuote] s ++ [d.stringQuote]

/-- `quote_string` of each dialect class, *after* `fixes/c14-quote-backslash.diff`:

* MySQLModel: `q + string.replace("\\", "\\\\").replace(q, q + q) + q`
* SparkSQLModel: `q + string.replace("\\", "\\\\").replace(q, "\\" + q) + q`
* BigQueryModel: `q + string.replace("\\", "\\\\").replace(q, "\\" + q).replace("\n", "\\n").replace("\r", "\\r") + q`
* SQLiteModel, PostgreSQLModel: the base class body. -/
def quoteString (d : Dialect) (s : List Char) : List Char :=
  match d with
  | .sqlite | .postgres => quoteStringBase d s
  | .mysql =>
    d.stringQuote :: pyReplace d.stringQuote [d.stringQuote, d.stringQuote] (pyReplace '\\' ['\\', '\\'] s)
      ++ [d.stringQuote]
  | .spark =>
    d.stringQuote :: pyReplace d.stringQuote ['\\', d.stringQuote] (pyReplace '\\' ['\\', '\\'] s)
      ++ [d.stringQuote]
  | .bigquery =>
    d.stringQuote ::
      pyReplace '\r' ['\\', 'r'] (pyReplace '\n' ['\\', 'n']
        (pyReplace d.stringQuote ['\\', d.stringQuote] (pyReplace '\\' ['\\', '\\'] s)))
      ++ [d.stringQuote]

/-! ## quote_identifier -/

/-- `SQLModel.quote_identifier` (MySQLModel overrides it with the same body):
```
if self.identifier_quote in identifier:
    raise ValueError("did not expect " + self.identifier_quote + " in identifier")
return self.identifier_quote + identifier + self.identifier_quote
```
Before the fix this body was used by all five dialects. -/
def quoteIdentBase (d : Dialect) (s : List Char) : Except Err (List Char) :=
  if d.identQuote ∈ s then .error .valueError else .ok (d.identQuote :: s ++ [d.identQuote])

/-- `quote_identifier` after the fix: BigQueryModel escapes what BigQuery reads as an escape or refuses inside a
quoted identifier: `identifier.replace("\\", "\\\\").replace("\n", "\\n").replace("\r", "\\r")`. -/
def quoteIdent (d : Dialect) (s : List Char) : Except Err (List Char) :=
  match d with
  | .bigquery =>
    if d.identQuote ∈ s then .error .valueError
    else .ok (d.identQuote :: pyReplace '\r' ['\\', 'r'] (pyReplace '\n' ['\\', 'n'] (pyReplace '\\' ['\\', '\\'] s))
      ++ [d.identQuote])
  | _ => quoteIdentBase d s

/-! ## value_to_sql -/

/-- The values `value_to_sql` is called with.  A float travels as CPython's `str(v)` text (`"nan"` for NaN):
float formatting is CPython's, not data_algebra's, and is not modelled. -/
inductive PyVal where
  | none
  | bool (b : Bool)
  | int (i : Int)
  | str (s : List Char)
  | float (repr : List Char)
  | list (l : List PyVal)

/-- one decimal digit -/
def digitChar (n : Nat) : Char := Char.ofNat (48 + n % 10)

/-- `str(n)` for a natural number: decimal digits, most significant first, no leading zero. -/
def natDigits (n : Nat) : List Char :=
  if n < 10 then [digitChar n] else natDigits (n / 10) ++ [digitChar n]
termination_by n
decreasing_by omega

/-- `str(i)` for a Python `int`. -/
def intRepr (i : Int) : List Char :=
  if i < 0 then '-' :: natDigits i.natAbs else natDigits i.natAbs

mutual
/-- `SQLModel.value_to_sql` (ListTerm / Value wrappers are unwrapped by the caller of this model):
```
if v is None: return "NULL"
if isinstance(v, str): return self.quote_string(v)
if isinstance(v, bool): return "TRUE" if v else "FALSE"
if isinstance(v, float): return "NULL" if math.isnan(v) else str(v)
if isinstance(v, int): return str(v)
if isinstance(v, list) or isinstance(v, tuple):
    return "(" + ", ".join([self.value_to_sql(vi) for vi in v]) + ")"
```
-/
def valueToSql (d : Dialect) : PyVal → List Char
  | .none => "NULL".toList
  | .str s => quoteString d s
  | .bool true => "TRUE".toList
  | .bool false => "FALSE".toList
  | .float r => if r = "nan".toList then "NULL".toList else r
  | .int i => intRepr i
  | .list l => '(' :: valuesToSql d l ++ [')']
/-- `", ".join([self.value_to_sql(vi) for vi in v])` -/
def valuesToSql (d : Dialect) : List PyVal → List Char
  | [] => []
  | [v] => valueToSql d v
  | v :: w :: vs => valueToSql d v ++ ',' :: ' ' :: valuesToSql d (w :: vs)
end

/-! ## _clean_annotation -/

/-- `str.isspace()` for one character = `\s` of Python's `re` on `str` patterns = what `str.strip()` removes
(`Py_UNICODE_ISSPACE`; 29 code points, checked exhaustively against CPython by the correspondence suite). -/
def isPySpace (c : Char) : Bool :=
  let n := c.toNat
  (9 ≤ n && n ≤ 13) || (28 ≤ n && n ≤ 32) || n == 0x85 || n == 0xA0 || n == 0x1680 ||
  (0x2000 ≤ n && n ≤ 0x200A) || n == 0x2028 || n == 0x2029 || n == 0x202F || n == 0x205F || n == 0x3000

/-- `str.lstrip()` -/
def pyLstrip : List Char → List Char
  | [] => []
  | c :: cs => if isPySpace c then pyLstrip cs else c :: cs

/-- `str.rstrip()` -/
def pyRstrip (s : List Char) : List Char := (pyLstrip s.reverse).reverse

/-- `str.strip()` -/
def pyStrip (s : List Char) : List Char := pyRstrip (pyLstrip s)

/-- `re.sub(r"(\s|\r|\n)+", " ", annotation)`: every maximal run of whitespace becomes one space
(`\r` and `\n` are already in `\s`).  `inRun` = the previous character belonged to a run already replaced. -/
def collapseWs : Bool → List Char → List Char
  | _, [] => []
  | inRun, c :: cs =>
    if isPySpace c then (if inRun then collapseWs true cs else ' ' :: collapseWs true cs)
    else c :: collapseWs false cs

/-- `_clean_annotation` on a `str` (for `None` it returns `None`):
```
annotation = annotation.strip()
annotation = re.sub(r"(\s|\r|\n)+", " ", annotation)
annotation = annotation.replace("%", "percent")
return annotation.strip()
```
-/
def cleanAnnotation (a : List Char) : List Char :=
  pyStrip (pyReplace '%' "percent".toList (collapseWs false (pyStrip a)))

/-- `"SELECT  -- " + clean_anno`, later `v.rstrip()` in `to_sql`. -/
def selectCommentLine (a : List Char) : List Char :=
  pyRstrip ("SELECT  -- ".toList ++ cleanAnnotation a)

/-- The line that opens an annotated step (`nearsqlunary_to_sql_str_list_`, `nearsqlbinary_to_sql_str_list_`),
for an annotation that is not `None`:
```
sql_start = "SELECT"
if sql_format_options.annotate and (near_sql.annotation is not None) and (len(near_sql.annotation) > 0):
    clean_anno = _clean_annotation(near_sql.annotation)
    if clean_anno is not None:
        sql_start = "SELECT  -- " + clean_anno
```
then `v.rstrip()` in `to_sql`. -/
def annotatedSelectLine (a : List Char) : List Char :=
  if a = [] then "SELECT".toList else selectCommentLine a

/-! ## concat_rows labels -/

/-- The SQL term of the `id_column` of a `concat_rows` side, *after* `fixes/c14-concat-label-value.diff`:
```
expr_left = expr_left.extend({concat_node.id_column: data_algebra.expr_rep.Value(concat_node.a_name)})
```
so the label reaches the text through `expr_to_sql` → `value_to_sql` → `quote_string` and nothing else.
(Before the fix: `extend({id_column: f'"{a_name}"'})`, i.e. the label was spliced into expression *source text*
and re-parsed by `parse_by_lark`.) -/
def concatLabelTerm (d : Dialect) (name : List Char) : List Char := valueToSql d (.str name)

/-! ## record-map (cdata) SQL -/

/-- `_list_join_expecting_list(joiner, str_list)`:
`[" " + str_list[i] + (joiner if i < (n - 1) else "") for i in range(n)]` -/
def listJoin (joiner : List Char) : List (List Char) → List (List Char)
  | [] => []
  | [x] => [' ' :: x]
  | x :: y :: xs => (' ' :: x ++ joiner) :: listJoin joiner (y :: xs)

/-- `sep.join(parts)` -/
def joinSep (sep : List Char) : List (List Char) → List Char
  | [] => []
  | [x] => x
  | x :: y :: xs => x ++ sep ++ joinSep sep (y :: xs)

/-- A `RecordSpecification` as far as the SQL builders read it.  The constructor of the real class has already
rejected null cells, non-string or empty value cells and duplicate columns; control-key cells are passed through
`str(...)` by the builders (the harness generates string cells).  `rows` is row-major, each row has
`cols.length` cells. -/
structure RecSpec where
  recordKeys : List (List Char)
  controlKeys : List (List Char)
  cols : List (List Char)
  rows : List (List (List Char))

/-- cell of `row` in column `c` (`ct[c][i]`); `[]` if the column is absent (never, by construction) -/
def cell (cols : List (List Char)) (row : List (List Char)) (c : List Char) : List Char :=
  match cols, row with
  | k :: ks, v :: vs => if k = c then v else cell ks vs c
  | _, _ => []

/-- `[c for c in ct.columns if c not in record_spec.control_table_keys]` -/
def RecSpec.valueCols (r : RecSpec) : List (List Char) := r.cols.filter (fun c => !(r.controlKeys.contains c))

/-- `q_row(i)` of `table_values_to_sql_str_list`:
```
self.union_all_term_start + "SELECT "
  + ", ".join([f"{qv(v[v.columns[j]][i])} AS {qi(v.columns[j])}" for j in range(n)])
  + self.union_all_term_end
```
-/
def tableValuesRow (d : Dialect) (cols : List (List Char)) (row : List (List Char)) : Except Err (List Char) := do
  let parts ← cols.mapM (fun c => do
    let q ← quoteIdent d c
    pure (valueToSql d (.str (cell cols row c)) ++ " AS ".toList ++ q))
  pure (d.unionStart ++ "SELECT ".toList ++ joinSep ", ".toList parts ++ d.unionEnd)

/-- `["    " + ("" if (i < 1) else "UNION ALL ") + q_row(i) for i in range(m)]` -/
def tableValuesRows (d : Dialect) (cols : List (List Char)) : Bool → List (List (List Char)) → Except Err (List (List Char))
  | _, [] => pure []
  | first, row :: rows => do
    let q ← tableValuesRow d cols row
    let rest ← tableValuesRows d cols false rows
    pure (("    ".toList ++ (if first then [] else "UNION ALL ".toList) ++ q) :: rest)

/-- `SQLModel.table_values_to_sql_str_list(v, result_name="table_values")` (string cells):
```
sql = (["SELECT", " *", "FROM ("]
       + ["    " + ("" if (i < 1) else "UNION ALL ") + q_row(i) for i in range(m)]
       + [f") {qi(result_name)}"])
```
-/
def tableValuesToSql (d : Dialect) (cols : List (List Char)) (rows : List (List (List Char))) :
    Except Err (List (List Char)) := do
  let body ← tableValuesRows d cols true rows
  let nm ← quoteIdent d "table_values".toList
  pure (["SELECT".toList, " *".toList, "FROM (".toList] ++ body ++ [") ".toList ++ nm])

/-- one `WHEN` arm of `row_recs_to_blocks_query_str_list_pair`:
```
"  WHEN CAST(b." + qi(result_col) + " AS " + self.string_type + ") = " + qs(str(source_col))
  + " THEN a." + qi(source_col) + " "
```
-/
def whenArm (d : Dialect) (resultCol sourceCol : List Char) : Except Err (List Char) := do
  let rc ← quoteIdent d resultCol
  let sc ← quoteIdent d sourceCol
  pure ("  WHEN CAST(b.".toList ++ rc ++ " AS ".toList ++ d.stringType ++ ") = ".toList ++ quoteString d sourceCol
    ++ " THEN a.".toList ++ sc ++ " ".toList)

/-- the `CASE` statement of one value column:
`" CASE " + arms + " ELSE NULL END AS " + qi(result_col)` -/
def caseStmt (d : Dialect) (r : RecSpec) (resultCol : List Char) : Except Err (List Char) := do
  let arms ← r.rows.mapM (fun row => whenArm d resultCol (cell r.cols row resultCol))
  let rc ← quoteIdent d resultCol
  pure (" CASE ".toList ++ arms.flatten ++ " ELSE NULL END AS ".toList ++ rc)

/-- `SQLModel.row_recs_to_blocks_query_str_list_pair(record_spec)` → `(sql_prefix, sql_suffix)`. -/
def rowRecsToBlocks (d : Dialect) (r : RecSpec) : Except Err (List (List Char) × List (List Char)) := do
  let controlCols1 ← r.recordKeys.mapM (fun c => do pure ("a.".toList ++ (← quoteIdent d c)))
  let controlCols2 ← r.controlKeys.mapM (fun c => do pure ("b.".toList ++ (← quoteIdent d c)))
  let stmts1 ← r.recordKeys.mapM (fun c => do
    let q ← quoteIdent d c
    pure (" a.".toList ++ q ++ " AS ".toList ++ q))
  let stmts2 ← r.controlKeys.mapM (fun c => do
    let q ← quoteIdent d c
    pure (" b.".toList ++ q ++ " AS ".toList ++ q))
  let stmts3 ← r.valueCols.mapM (caseStmt d r)
  let ctab ← tableValuesToSql d r.cols r.rows
  let pre := listJoin ",".toList (stmts1 ++ stmts2 ++ stmts3) ++ ["FROM ( SELECT * FROM ".toList]
  let suf := [" ) a".toList, "CROSS JOIN (".toList] ++ listJoin [] ctab ++ [" ) b".toList, " ORDER BY".toList]
    ++ listJoin ", ".toList (controlCols1 ++ controlCols2)
  pure (pre, suf)

/-- one clause of `blocks_to_row_recs_query_str_list_pair`:
`" ( CAST(" + qi(cc) + " AS " + self.string_type + ") = " + qs(str(ct[cc][i])) + " ) "` -/
def keyClause (d : Dialect) (cc : List Char) (v : List Char) : Except Err (List Char) := do
  let q ← quoteIdent d cc
  pure (" ( CAST(".toList ++ q ++ " AS ".toList ++ d.stringType ++ ") = ".toList ++ quoteString d v ++ " ) ".toList)

/-- one aggregate of `blocks_to_row_recs_query_str_list_pair`:
`" MAX(CASE WHEN " + " AND ".join(clauses) + " THEN " + qi(vc) + " ELSE NULL END) AS " + qi(col[i])` -/
def maxCaseStmt (d : Dialect) (r : RecSpec) (row : List (List Char)) (vc : List Char) : Except Err (List Char) := do
  let clauses ← r.controlKeys.mapM (fun cc => keyClause d cc (cell r.cols row cc))
  let qv ← quoteIdent d vc
  let qt ← quoteIdent d (cell r.cols row vc)
  pure (" MAX(CASE WHEN ".toList ++ joinSep " AND ".toList clauses ++ " THEN ".toList ++ qv
    ++ " ELSE NULL END) AS ".toList ++ qt)

/-- the double loop `for i in range(ct.shape[0]): for vc in control_value_cols:` with its `seen` set,
flattened to the list of (row, value column) pairs in loop order -/
def cellPairs (r : RecSpec) : List (List (List Char) × List Char) :=
  r.rows.flatMap (fun row => r.valueCols.map (fun vc => (row, vc)))

def maxCaseStmts (d : Dialect) (r : RecSpec) :
    List (List Char) → List (List (List Char) × List Char) → Except Err (List (List Char))
  | _, [] => pure []
  | seen, (row, vc) :: ps =>
    let v := cell r.cols row vc
    if seen.contains v then maxCaseStmts d r seen ps
    else do
      let s ← maxCaseStmt d r row vc
      let rest ← maxCaseStmts d r (v :: seen) ps
      pure (s :: rest)

/-- `SQLModel.blocks_to_row_recs_query_str_list_pair(record_spec)` → `(sql_prefix, sql_suffix)`. -/
def blocksToRowRecs (d : Dialect) (r : RecSpec) : Except Err (List (List Char) × List (List Char)) := do
  let stmts1 ← r.recordKeys.mapM (fun c => do
    let q ← quoteIdent d c
    pure (" ".toList ++ q ++ " AS ".toList ++ q))
  match r.rows with
  | [] => .error .assertionError          -- `assert ct.shape[0] >= 1`
  | [row] =>
    let stmts2 ← r.valueCols.mapM (fun cc => do
      let q ← quoteIdent d cc
      let q0 ← quoteIdent d (cell r.cols row cc)
      pure (" ".toList ++ q ++ " AS ".toList ++ q0))
    pure (listJoin ",".toList (stmts1 ++ stmts2) ++ ["FROM ( SELECT * FROM ".toList], [" ) a".toList])
  | _ =>
    let controlCols ← r.recordKeys.mapM (quoteIdent d)
    let stmts2 ← maxCaseStmts d r [] (cellPairs r)
    pure (listJoin ",".toList (stmts1 ++ stmts2) ++ ["FROM ( SELECT * FROM ".toList],
      [" ) a".toList, "GROUP BY".toList] ++ listJoin ",".toList controlCols ++ ["ORDER BY ".toList]
        ++ listJoin ",".toList controlCols)

end DAVerif.Text
