import DAVerif.Text.Quote
/-
Dialect lexers for the part of SQL that carries user text: string literals, quoted identifiers, `--` line
comments, and a token stream around them.  This is the *specification side* of C14: it is written from the
dialect manuals, not from data_algebra:

* SQLite      "SQL As Understood By SQLite" (literal values, keywords) and tokenize.c: `'…'` with `''`;
              `"…"` and backtick identifiers with doubling; `--` to `\n`.
* PostgreSQL  manual 4.1 (standard_conforming_strings = on): `'…'` with `''` only; `"…"` identifiers with `""`,
              zero-length identifier is an error; `--` to `\n` or `\r`.
* MySQL       manual 11.1.1 / 11.2 / 11.7 (default sql_mode): `'…'` and `"…"` strings with backslash escapes
              *and* quote doubling; backtick identifiers with doubling, no escapes; `-- ` needs a following
              whitespace/control character, ends at `\n`.
* Spark SQL   SqlBaseLexer.g4 / SparkParserUtils.unescapeSQLString (4.x): `'…'` and `"…"` strings with backslash
              escapes and quote doubling; backtick identifiers with doubling; `--` to `\r`/`\n`, where a
              backslash immediately before `\n` continues the comment on the next line.
* BigQuery    "Lexical structure and syntax": `'…'` and `"…"` strings with backslash escapes, no doubling, no raw
              newline; backtick identifiers with the same escapes, not empty; `--` to newline.

Whatever a dialect has beyond this (block comments, `E'…'`, `$$…$$`, `[…]`, `#`, triple-quoted and prefixed
literals) is answered `none` (= "not handled"), so a theorem `lex… = some …` also shows such constructs are absent.
Only the SQLite and Spark models can be validated against an engine here; the other three are assumptions.
No imports besides the model: this file is part of the compiled driver.
-/
namespace DAVerif.Text

/-! ## pieces shared by the string lexers -/

def hexVal (c : Char) : Option Nat :=
  let n := c.toNat
  if 48 ≤ n ∧ n ≤ 57 then some (n - 48)
  else if 97 ≤ n ∧ n ≤ 102 then some (n - 87)
  else if 65 ≤ n ∧ n ≤ 70 then some (n - 55)
  else none

/-- value of a hexadecimal digit string (`none` if some character is not a hex digit) -/
def hexNum : List Char → Option Nat
  | [] => some 0
  | cs => cs.foldl (fun acc c => match acc, hexVal c with
      | some a, some v => some (16 * a + v)
      | _, _ => none) (some 0)

def octVal (c : Char) : Option Nat :=
  let n := c.toNat
  if 48 ≤ n ∧ n ≤ 55 then some (n - 48) else none

/-- the character with a given code point, if it is a Unicode scalar value -/
def charOfCode (n : Nat) : Option Char :=
  if n < 0xD800 ∨ (0xDFFF < n ∧ n < 0x110000) then some (Char.ofNat n) else none

/-- prepend decoded characters to the value part of a lexer result -/
def consVal (pre : List Char) (r : Option (List Char × List Char)) : Option (List Char × List Char) :=
  r.map (fun p => (pre ++ p.1, p.2))

/-! ## SQLite, PostgreSQL strings; quoted identifiers of every dialect but BigQuery -/

/-- Body of a literal opened by `q` where only the doubled quote is special.  Input = text after the opening
quote; result = (value, text after the closing quote); `none` = unterminated. -/
def lexBodyStd (q : Char) : List Char → Option (List Char × List Char)
  | [] => none
  | c :: cs =>
    if c = q then
      match cs with
      | [] => some ([], [])
      | c2 :: cs2 => if c2 = q then consVal [q] (lexBodyStd q cs2) else some ([], c2 :: cs2)
    else consVal [c] (lexBodyStd q cs)

/-! ## MySQL strings (default sql_mode) -/

/-- MySQL manual table 11.1 "Special Character Escape Sequences"; "for all other escape sequences, backslash is
ignored"; `\%` and `\_` keep the backslash outside pattern-matching contexts. -/
def mysqlEsc (e : Char) : List Char :=
  if e = '0' then [Char.ofNat 0] else if e = 'b' then [Char.ofNat 8] else if e = 'n' then ['\n']
  else if e = 'r' then ['\r'] else if e = 't' then ['\t'] else if e = 'Z' then [Char.ofNat 26]
  else if e = '%' then ['\\', '%'] else if e = '_' then ['\\', '_'] else [e]

def lexBodyMy (q : Char) : List Char → Option (List Char × List Char)
  | [] => none
  | c :: cs =>
    if c = q then
      match cs with
      | [] => some ([], [])
      | c2 :: cs2 => if c2 = q then consVal [q] (lexBodyMy q cs2) else some ([], c2 :: cs2)
    else if c = '\\' then
      match cs with
      | [] => none
      | e :: cs2 => consVal (mysqlEsc e) (lexBodyMy q cs2)
    else consVal [c] (lexBodyMy q cs)

/-! ## Spark SQL strings (spark.sql.parser.escapedStringLiterals = false) -/

/-- `appendEscapedChar` of SparkParserUtils.unescapeSQLString -/
def sparkEsc (e : Char) : List Char :=
  if e = '0' then [Char.ofNat 0] else if e = 'b' then [Char.ofNat 8] else if e = 'n' then ['\n']
  else if e = 'r' then ['\r'] else if e = 't' then ['\t'] else if e = 'Z' then [Char.ofNat 26]
  else if e = '%' then ['\\', '%'] else if e = '_' then ['\\', '_'] else [e]

/-- lexer rule `'"' ( ~('"'|'\\') | '""' | ('\\' .) )* '"'` (same with `'`), value by unescapeSQLString:
`\uXXXX`, `\UXXXXXXXX`, octal `\[01][0-7][0-7]`, then the single-character escapes. -/
def lexBodySpark (q : Char) : List Char → Option (List Char × List Char)
  | [] => none
  | c :: cs =>
    if c = q then
      match cs with
      | [] => some ([], [])
      | c2 :: cs2 => if c2 = q then consVal [q] (lexBodySpark q cs2) else some ([], c2 :: cs2)
    else if c = '\\' then
      match cs with
      | [] => none
      | e :: cs2 =>
        if e = 'u' then
          match cs2 with
          | a :: b :: x :: y :: cs6 =>
            match (hexNum [a, b, x, y]).bind charOfCode with
            | some ch => consVal [ch] (lexBodySpark q cs6)
            | none => if (hexNum [a, b, x, y]).isSome then none   -- a surrogate half: not a scalar value, not handled
                      else consVal ['u'] (lexBodySpark q (a :: b :: x :: y :: cs6))
          | cs2 => consVal ['u'] (lexBodySpark q cs2)
        else if e = 'U' then
          match cs2 with
          | a :: b :: x :: y :: a' :: b' :: x' :: y' :: cs10 =>
            match (hexNum [a, b, x, y, a', b', x', y']).bind charOfCode with
            | some ch => consVal [ch] (lexBodySpark q cs10)
            | none => if (hexNum [a, b, x, y, a', b', x', y']).isSome then none
                      else consVal ['U'] (lexBodySpark q (a :: b :: x :: y :: a' :: b' :: x' :: y' :: cs10))
          | cs2 => consVal ['U'] (lexBodySpark q cs2)
        else
          match cs2 with
          | o2 :: o3 :: cs4 =>
            match (if e = '0' ∨ e = '1' then octVal e else none), octVal o2, octVal o3 with
            | some v1, some v2, some v3 => consVal [Char.ofNat (64 * v1 + 8 * v2 + v3)] (lexBodySpark q cs4)
            | _, _, _ => consVal (sparkEsc e) (lexBodySpark q (o2 :: o3 :: cs4))
          | cs2 => consVal (sparkEsc e) (lexBodySpark q cs2)
    else consVal [c] (lexBodySpark q cs)

/-! ## BigQuery strings and quoted identifiers -/

/-- BigQuery "Escape sequences for string and bytes literals", single-character ones; anything else after a
backslash is an error. -/
def bqEsc (e : Char) : Option Char :=
  if e = 'a' then some (Char.ofNat 7) else if e = 'b' then some (Char.ofNat 8)
  else if e = 'f' then some (Char.ofNat 12) else if e = 'n' then some '\n' else if e = 'r' then some '\r'
  else if e = 't' then some '\t' else if e = 'v' then some (Char.ofNat 11) else if e = '\\' then some '\\'
  else if e = '?' then some '?' else if e = '"' then some '"' else if e = '\'' then some '\''
  else if e = '`' then some '`' else none

/-- single-line quoted literal: no doubling, no raw newline, escapes `\ooo \xhh \Xhh \uhhhh \Uhhhhhhhh` and
`bqEsc`. -/
def lexBodyBq (q : Char) : List Char → Option (List Char × List Char)
  | [] => none
  | c :: cs =>
    if c = q then some ([], cs)
    else if c = '\n' ∨ c = '\r' then none
    else if c = '\\' then
      match cs with
      | [] => none
      | e :: cs2 =>
        if e = 'x' ∨ e = 'X' then
          match cs2 with
          | a :: b :: cs4 =>
            match (hexNum [a, b]).bind charOfCode with
            | some ch => consVal [ch] (lexBodyBq q cs4)
            | none => none
          | _ => none
        else if e = 'u' then
          match cs2 with
          | a :: b :: x :: y :: cs6 =>
            match (hexNum [a, b, x, y]).bind charOfCode with
            | some ch => consVal [ch] (lexBodyBq q cs6)
            | none => none
          | _ => none
        else if e = 'U' then
          match cs2 with
          | a :: b :: x :: y :: a' :: b' :: x' :: y' :: cs10 =>
            match (hexNum [a, b, x, y, a', b', x', y']).bind charOfCode with
            | some ch => consVal [ch] (lexBodyBq q cs10)
            | none => none
          | _ => none
        else if (octVal e).isSome then
          match cs2 with
          | o2 :: o3 :: cs4 =>
            match octVal e, octVal o2, octVal o3 with
            | some v1, some v2, some v3 =>
              if v1 ≤ 3 then consVal [Char.ofNat (64 * v1 + 8 * v2 + v3)] (lexBodyBq q cs4) else none
            | _, _, _ => none
          | _ => none
        else
          match bqEsc e with
          | some ch => consVal [ch] (lexBodyBq q cs2)
          | none => none
    else consVal [c] (lexBodyBq q cs)

/-! ## the per-dialect entry points -/

/-- characters that open a string literal -/
def strQuotes : Dialect → List Char
  | .sqlite => ['\''] | .postgres => ['\''] | .mysql => ['\'', '"'] | .spark => ['\'', '"']
  | .bigquery => ['\'', '"']

/-- characters that open a quoted identifier (SQLite also accepts MySQL-style backticks) -/
def idQuotes : Dialect → List Char
  | .sqlite => ['"', '`'] | .postgres => ['"'] | .mysql => ['`'] | .spark => ['`'] | .bigquery => ['`']

/-- Read one string literal at the head of the input (which must start with an opening quote).
Result: (the value the dialect reads, the text after the literal). -/
def lexString (d : Dialect) : List Char → Option (List Char × List Char)
  | [] => none
  | q :: cs =>
    if q ∈ strQuotes d then
      match d with
      | .sqlite => lexBodyStd q cs
      | .postgres => lexBodyStd q cs
      | .mysql => lexBodyMy q cs
      | .spark => lexBodySpark q cs
      | .bigquery =>
        match cs with
        | c2 :: c3 :: _ => if c2 = q ∧ c3 = q then none /- triple-quoted literal: not handled -/ else lexBodyBq q cs
        | _ => lexBodyBq q cs
    else none

/-- Read one quoted identifier at the head of the input. -/
def lexIdent (d : Dialect) : List Char → Option (List Char × List Char)
  | [] => none
  | q :: cs =>
    if q ∈ idQuotes d then
      match d with
      | .bigquery =>
        match lexBodyBq q cs with
        | some ([], _) => none           -- "quoted identifiers cannot be empty"
        | r => r
      | .postgres =>
        match lexBodyStd q cs with
        | some ([], _) => none           -- "zero-length delimited identifier"
        | r => r
      | _ => lexBodyStd q cs
    else none

/-! ## token stream -/

inductive Tok where
  | str (s : List Char)      -- string literal, decoded
  | ident (s : List Char)    -- quoted identifier, decoded
  | word (w : List Char)     -- maximal run of letters, digits, `_` and non-ASCII characters (keywords, names)
  | num (n : Nat)            -- a word made of decimal digits only
  | sym (c : Char)           -- any other single character
  deriving DecidableEq, Repr

/-- white space between tokens -/
def isWs (d : Dialect) (c : Char) : Bool :=
  let n := c.toNat
  match d with
  | .sqlite => n == 32 || n == 9 || n == 10 || n == 12 || n == 13
  | .postgres => n == 32 || n == 9 || n == 10 || n == 12 || n == 13
  | .mysql => n == 32 || (9 ≤ n && n ≤ 13)
  | .spark => n == 32 || (9 ≤ n && n ≤ 13) || n == 0xA0
  | .bigquery => n == 32 || (9 ≤ n && n ≤ 13)

/-- the character ends a `--` comment -/
def commentEnd (d : Dialect) (c : Char) : Bool :=
  match d with
  | .sqlite => c == '\n'
  | .mysql => c == '\n'
  | _ => c == '\n' || c == '\r'

/-- `--` has just been read, `cs` follows: is this a comment?  (MySQL: "the second dash must be followed by at
least one whitespace or control character"; end of input counts.) -/
def startsComment (d : Dialect) (cs : List Char) : Bool :=
  match d, cs with
  | .mysql, [] => true
  | .mysql, c :: _ => isWs .mysql c || c.toNat < 32 || c.toNat == 127
  | _, _ => true

/-- skip the text of a line comment, up to (not including) its terminator.  Spark: `'\\\n'` inside the comment
rule, i.e. a backslash directly before a newline continues the comment. -/
def skipComment (d : Dialect) : List Char → List Char
  | [] => []
  | c :: cs =>
    match cs with
    | [] => if commentEnd d c then [c] else []
    | c2 :: cs2 =>
      if d = .spark ∧ c = '\\' ∧ c2 = '\n' then skipComment d cs2
      else if commentEnd d c then c :: c2 :: cs2 else skipComment d (c2 :: cs2)

def isDigit (c : Char) : Bool := 48 ≤ c.toNat && c.toNat ≤ 57

def isWordChar (c : Char) : Bool :=
  let n := c.toNat
  isDigit c || (65 ≤ n && n ≤ 90) || (97 ≤ n && n ≤ 122) || n == 95 || 128 ≤ n

/-- constructs the model does not read: the tokenizer answers `none` when one starts at top level -/
def notHandled (d : Dialect) (c : Char) (cs : List Char) : Bool :=
  (c == '/' && cs.head? == some '*') ||
  (match d with
   | .sqlite => c == '['
   | .postgres => c == '$' || (c == '&' && (cs.head? == some '\'' || cs.head? == some '"'))
   | .mysql => c == '#'
   | .spark => false
   | .bigquery => c == '#')

/-- decimal value of a digit string -/
def digitsVal (w : List Char) : Nat := w.foldl (fun a c => 10 * a + (c.toNat - 48)) 0

def mkWord (w : List Char) : Tok := if w.all isDigit then .num (digitsVal w) else .word w

theorem length_skipComment_le (d : Dialect) (cs : List Char) : (skipComment d cs).length ≤ cs.length := by
  fun_induction skipComment d cs <;> simp_all <;> omega

/-- The token stream of a SQL text; `none` = lexical error (unterminated literal) or a construct not handled. -/
def lexSql (d : Dialect) (inp : List Char) : Option (List Tok) :=
  match inp with
  | [] => some []
  | c :: cs =>
    if isWs d c then lexSql d cs
    else if c = '-' ∧ cs.head? = some '-' ∧ startsComment d (cs.drop 1) then lexSql d (skipComment d (cs.drop 1))
    else if c ∈ strQuotes d then
      match lexString d (c :: cs) with
      | none => none
      | some (s, r) => if r.length < (c :: cs).length then (lexSql d r).map (Tok.str s :: ·) else none
    else if c ∈ idQuotes d then
      match lexIdent d (c :: cs) with
      | none => none
      | some (s, r) => if r.length < (c :: cs).length then (lexSql d r).map (Tok.ident s :: ·) else none
    else if notHandled d c cs then none
    else if isWordChar c then
      let r := cs.dropWhile isWordChar
      -- a word directly followed by a string quote is a prefixed literal (E'..', N'..', X'..', r"..", _utf8'..')
      if (match r.head? with | some q => decide (q ∈ strQuotes d) | none => false) then none
      else (lexSql d r).map (mkWord (c :: cs.takeWhile isWordChar) :: ·)
    else (lexSql d cs).map (Tok.sym c :: ·)
termination_by inp.length
decreasing_by
  · simp
  · have h1 := length_skipComment_le d (cs.drop 1)
    have h2 : (cs.drop 1).length ≤ cs.length := by simp
    simp only [List.length_cons]; omega
  · assumption
  · assumption
  · have h1 : (cs.dropWhile isWordChar).length ≤ cs.length := List.Sublist.length_le (List.dropWhile_sublist _)
    simp only [List.length_cons]; omega
  · simp

end DAVerif.Text
