/-
Model of /repo/data_algebra/data_model_space.py (`DataModelSpace`), /repo/data_algebra/db_space.py (`DBSpace`)
and of the `DBHandle` / `DBModel` methods they call (db_model.py: `insert_table`, `drop_table`, `read_table`,
`create_table`, `describe_table`, `table_exists`).

The model is of the code WITH the patch fixes/dataspace-auto-key-skips-taken-names.diff applied (candidate
defect D11: the unpatched `insert(key=None)` / `execute(key=None)` take `da_temp_<n_tmp+1>` even when a user
entry of that name exists, and `insert` then replaces it).  The patched code reads

    def _fresh_temp_key(self) -> str:
        while True:
            self.n_tmp = self.n_tmp + 1
            key = f"da_temp_{self.n_tmp}"
            if key not in self.data_map.keys():        # DBSpace: self.description_map.keys()
                return key

Everything else is the unchanged code, decision by decision, in the code's order of checks and mutations
(what has been mutated when an exception leaves a method is part of the model: every operation returns the
outcome AND the state after it).

Abstract parameters (`Params`): keys `κ`, tables `τ` (opaque values), table descriptions `δ`, pipelines `ω`;
`tmpName n` = `f"da_temp_{n}"`; `descOf t` = what `describe_table(t, …)` records of a table;
`evalOps ops look` = the pipeline evaluator (`ops.eval(data_map=…)` resp. `CREATE TABLE … AS <ops.to_sql()>`),
which sees the store only through look-up by name (C01/C06 say what it computes).

No imports: this file is part of the compiled driver.
-/
namespace DAVerif.Space

/-- error classes the correspondence compares (anything else, e.g. sqlite3.OperationalError, AttributeError,
is `Other`) -/
inductive Err where
  | KeyError | ValueError | AssertionError | TypeError | Other
  deriving DecidableEq, Repr

/-! ### Python `dict` as association list in insertion order -/
namespace AL
variable {κ : Type} [DecidableEq κ] {β : Type}

/-- `d[k]` / `d.get(k)` -/
def lookup : List (κ × β) → κ → Option β
  | [], _ => none
  | (k', v) :: t, k => if k' = k then some v else lookup t k

/-- `d.keys()` -/
def keys (l : List (κ × β)) : List κ := l.map Prod.fst

/-- `k in d.keys()` -/
def has (l : List (κ × β)) (k : κ) : Bool := (lookup l k).isSome

/-- `d[k] = v`: an existing key keeps its position, a new key goes to the end -/
def set (l : List (κ × β)) (k : κ) (v : β) : List (κ × β) :=
  if has l k then l.map (fun p => if p.1 = k then (k, v) else p) else l ++ [(k, v)]

/-- `del d[k]` (the caller has checked presence) -/
def erase (l : List (κ × β)) (k : κ) : List (κ × β) := l.filter (fun p => p.1 ≠ k)

end AL

/-- the `key` argument of `insert` / `execute`: `None`, a `str`, or any other object -/
inductive KeyArg (κ : Type) where
  | auto | str (k : κ) | bad
  deriving Repr

/-- Operations of a history.  `value = none`: an object that is not a data frame; `ow = none`: an
`allow_overwrite` that is not a `bool`; `key = none` (remove/describe/retrieve): an object that is not a `str`. -/
inductive Op (κ τ ω : Type) where
  | insert (key : KeyArg κ) (value : Option τ) (ow : Option Bool)
  | execute (ops : ω) (key : KeyArg κ) (ow : Option Bool)
  | remove (key : Option κ)
  | describe (key : Option κ)
  | retrieve (key : Option κ)
  | keys

/-- what an operation returns: `None`, a `TableDescription` (table_name, description), a table, a key set -/
inductive Out (κ τ δ : Type) where
  | unit | descr (k : κ) (d : δ) | table (t : τ) | keys (ks : List κ)
  deriving DecidableEq

structure Params (κ τ δ ω : Type) where
  /-- `f"da_temp_{n}"` -/
  tmpName : Nat → κ
  /-- `describe_table(t, table_name=…)` minus the name -/
  descOf : τ → δ
  /-- pipeline evaluation against the current contents, seen through look-up by table name -/
  evalOps : ω → (κ → Option τ) → Except Err τ

/-- the real name function: `f"da_temp_{n}"` (the instance the driver runs; injective: `Proofs/DataSpace`) -/
def daTemp (n : Nat) : String := "da_temp_" ++ toString n

section
variable {κ τ δ ω : Type} [DecidableEq κ] (P : Params κ τ δ ω)

/-- `_fresh_temp_key` loop, `f` iterations allowed:
    `self.n_tmp = self.n_tmp + 1; key = f"da_temp_{self.n_tmp}"; if key not in keys: return key`.
Returns the final `n_tmp`. -/
def freshFrom (ks : List κ) : Nat → Nat → Nat
  | 0, n => n + 1
  | f + 1, n => if P.tmpName (n + 1) ∈ ks then freshFrom ks f (n + 1) else n + 1

/-- The loop ends after at most `len(keys) + 1` iterations (proved: `Proofs/DataSpace.fresh_not_mem`,
for `tmpName` injective), so this fuel never runs out. -/
def fresh (ks : List κ) (n : Nat) : Nat := freshFrom P ks (ks.length + 1) n

/-! ### DataModelSpace -/
namespace Mem

/-- `self.data_map`, `self.n_tmp` -/
structure State (κ τ : Type) where
  map : List (κ × τ)
  nTmp : Nat

/-- `__init__`: `self.data_map = dict(); self.n_tmp = 0` -/
def init : State κ τ := ⟨[], 0⟩

/-- `if key is None: key = self._fresh_temp_key()` – mutates `n_tmp`;
    then `assert isinstance(key, str)` (`none` = the assertion fails) -/
def resolve (s : State κ τ) : KeyArg κ → State κ τ × Option κ
  | .auto => let n := fresh P (AL.keys s.map) s.nTmp; ({ s with nTmp := n }, some (P.tmpName n))
  | .str k => (s, some k)
  | .bad => (s, none)

/--
```
if key is None: key = self._fresh_temp_key()
assert isinstance(key, str)
assert isinstance(allow_overwrite, bool)
assert self.data_model.is_appropriate_data_instance(value)
if not allow_overwrite:
    assert key not in self.data_map.keys()
self.data_map[key] = value
return self.describe(key)          # describe_table(self.data_map[key], table_name=key)
``` -/
def insert (s : State κ τ) (key : KeyArg κ) (value : Option τ) (ow : Option Bool) :
    Except Err (Out κ τ δ) × State κ τ :=
  match resolve P s key with
  | (s1, none) => (.error .AssertionError, s1)
  | (s1, some k) =>
    match ow with
    | none => (.error .AssertionError, s1)
    | some ow =>
      match value with
      | none => (.error .AssertionError, s1)
      | some v =>
        if !ow && AL.has s1.map k then (.error .AssertionError, s1)
        else (.ok (.descr k (P.descOf v)), { s1 with map := AL.set s1.map k v })

/--
```
if key is None: key = self._fresh_temp_key()
assert isinstance(key, str)
assert isinstance(allow_overwrite, bool)
if not allow_overwrite:
    assert key not in self.data_map.keys()
value = ops.eval(data_map=self.data_map, data_model=self.data_model)
assert self.data_model.is_appropriate_data_instance(value)
self.data_map[key] = value
return data_algebra.data_ops.describe_table(value, table_name=key)
``` -/
def execute (s : State κ τ) (ops : ω) (key : KeyArg κ) (ow : Option Bool) :
    Except Err (Out κ τ δ) × State κ τ :=
  match resolve P s key with
  | (s1, none) => (.error .AssertionError, s1)
  | (s1, some k) =>
    match ow with
    | none => (.error .AssertionError, s1)
    | some ow =>
      if !ow && AL.has s1.map k then (.error .AssertionError, s1)
      else match P.evalOps ops (AL.lookup s1.map) with
        | .error e => (.error e, s1)
        | .ok v => (.ok (.descr k (P.descOf v)), { s1 with map := AL.set s1.map k v })

/-- `assert isinstance(key, str); del self.data_map[key]` -/
def remove (s : State κ τ) : Option κ → Except Err (Out κ τ δ) × State κ τ
  | none => (.error .AssertionError, s)
  | some k => if AL.has s.map k then (.ok .unit, { s with map := AL.erase s.map k }) else (.error .KeyError, s)

/-- `assert isinstance(key, str); d = self.data_map[key]; return describe_table(d, table_name=key)` -/
def describe (s : State κ τ) : Option κ → Except Err (Out κ τ δ) × State κ τ
  | none => (.error .AssertionError, s)
  | some k => match AL.lookup s.map k with
    | some v => (.ok (.descr k (P.descOf v)), s)
    | none => (.error .KeyError, s)

/-- `assert isinstance(key, str); res = self.data_map[key]; return res` -/
def retrieve (s : State κ τ) : Option κ → Except Err (Out κ τ δ) × State κ τ
  | none => (.error .AssertionError, s)
  | some k => match AL.lookup s.map k with
    | some v => (.ok (.table v), s)
    | none => (.error .KeyError, s)

/-- one operation: outcome and the state after it (also after an exception) -/
def step (s : State κ τ) : Op κ τ ω → Except Err (Out κ τ δ) × State κ τ
  | .insert key value ow => insert P s key value ow
  | .execute ops key ow => execute P s ops key ow
  | .remove key => remove s key
  | .describe key => describe P s key
  | .retrieve key => retrieve s key
  | .keys => (.ok (.keys (AL.keys s.map)), s)      -- `return set(self.data_map.keys())`

/-- a history: the list of outcomes and the final state -/
def run (s : State κ τ) : List (Op κ τ ω) → List (Except Err (Out κ τ δ)) × State κ τ
  | [] => ([], s)
  | op :: h => let r := step P s op; let rest := run r.2 h; (r.1 :: rest.1, rest.2)

end Mem

/-! ### The database behind a `DBHandle` (SQLite): table name ↦ table -/
namespace Db

/-- `DBModel.insert_table(conn, d, table_name, allow_overwrite=…)`:
```
incoming_data_model = lookup_data_model_for_dataframe(d)      # KeyError(type(d)) when d is not a frame
if self.table_exists(conn, table_name):
    if not allow_overwrite: raise ValueError("table " + table_name + " already exists")
    else: self.drop_table(conn, table_name, check=False)
d.to_sql(name=table_name, con=conn, index=False)
``` -/
def insertTable (db : List (κ × τ)) (value : Option τ) (k : κ) (ow : Bool) : Except Err (List (κ × τ)) :=
  match value with
  | none => .error .KeyError
  | some v =>
    if AL.has db k then
      if !ow then .error .ValueError else .ok (AL.erase db k ++ [(k, v)])
    else .ok (db ++ [(k, v)])

/-- `DBModel.drop_table(conn, table_name)` (`check=True`): `if self.table_exists(...): DROP TABLE` -/
def dropTable (db : List (κ × τ)) (k : κ) : List (κ × τ) := if AL.has db k then AL.erase db k else db

/-- `DBHandle.read_table`: `SELECT * FROM tn` – a missing table is an engine error -/
def readTable (db : List (κ × τ)) (k : κ) : Except Err τ :=
  match AL.lookup db k with
  | some v => .ok v
  | none => .error .Other

/-- `DBHandle.describe_table`: `describe_table(read_query("SELECT * FROM tn LIMIT 7"), table_name=…)` -/
def describeTable (db : List (κ × τ)) (k : κ) : Except Err δ :=
  match AL.lookup db k with
  | some v => .ok (P.descOf v)
  | none => .error .Other

/-- `DBHandle.create_table(table_name=k, q=ops)`:
```
q = q.to_sql(db_model=self.db_model)  (or str(q))
self.execute(f"CREATE TABLE {tn} AS {q}")      # engine error when tn exists or a source is missing
return self.describe_table(table_name)
``` -/
def createTable (db : List (κ × τ)) (k : κ) (ops : ω) : Except Err (List (κ × τ) × δ) :=
  match P.evalOps ops (AL.lookup db) with
  | .error e => .error e
  | .ok v =>
    if AL.has db k then .error .Other
    else
      let db' := db ++ [(k, v)]
      match describeTable P db' k with
      | .error e => .error e
      | .ok d => .ok (db', d)

end Db

/-! ### DBSpace -/
namespace DB

/-- `self.description_map`, `self.eligable_for_auto_drop_list` (a set), `self.n_tmp`, and the database
behind `self.db_handle` -/
structure State (κ τ δ : Type) where
  descr : List (κ × δ)
  autoDrop : List κ
  nTmp : Nat
  db : List (κ × τ)

/-- `__init__` on a handle whose database holds the tables `db` (not known to the space) -/
def init (db : List (κ × τ)) : State κ τ δ := ⟨[], [], 0, db⟩

/-- `if key is None: key = self._fresh_temp_key()` (against `description_map`); `assert isinstance(key, str)` -/
def resolve (s : State κ τ δ) : KeyArg κ → State κ τ δ × Option κ
  | .auto => let n := fresh P (AL.keys s.descr) s.nTmp; ({ s with nTmp := n }, some (P.tmpName n))
  | .str k => (s, some k)
  | .bad => (s, none)

/-- `set.add` -/
def setAdd (l : List κ) (k : κ) : List κ := if k ∈ l then l else l ++ [k]

/--
```
if key is None: key = self._fresh_temp_key()
assert isinstance(key, str)
assert isinstance(allow_overwrite, bool)
if not allow_overwrite:
    assert key not in self.description_map.keys()
self.db_handle.insert_table(value, table_name=key, allow_overwrite=allow_overwrite)
return self.model_table(key, eligible_for_auto_drop=True)
        # descr = self.db_handle.describe_table(key); self.description_map[key] = descr
        # self.eligable_for_auto_drop_list.add(key); return descr
``` -/
def insert (s : State κ τ δ) (key : KeyArg κ) (value : Option τ) (ow : Option Bool) :
    Except Err (Out κ τ δ) × State κ τ δ :=
  match resolve P s key with
  | (s1, none) => (.error .AssertionError, s1)
  | (s1, some k) =>
    match ow with
    | none => (.error .AssertionError, s1)
    | some ow =>
      if !ow && AL.has s1.descr k then (.error .AssertionError, s1)
      else match Db.insertTable s1.db value k ow with
        | .error e => (.error e, s1)
        | .ok db' =>
          let s2 := { s1 with db := db' }
          match Db.describeTable P db' k with
          | .error e => (.error e, s2)
          | .ok d => (.ok (.descr k d),
                      { s2 with descr := AL.set s2.descr k d, autoDrop := setAdd s2.autoDrop k })

/-- the mutations of `remove(key)` for a `str` key present in `description_map`:
```
del self.description_map[key]
if key in self.eligable_for_auto_drop_list: self.eligable_for_auto_drop_list.remove(key)
self.db_handle.drop_table(key)
``` -/
def removeKey (s : State κ τ δ) (k : κ) : State κ τ δ :=
  { s with descr := AL.erase s.descr k, autoDrop := s.autoDrop.filter (fun x => x ≠ k),
           db := Db.dropTable s.db k }

/-- `assert isinstance(key, str)`; `del self.description_map[key]` raises KeyError when absent -/
def remove (s : State κ τ δ) : Option κ → Except Err (Out κ τ δ) × State κ τ δ
  | none => (.error .AssertionError, s)
  | some k => if AL.has s.descr k then (.ok .unit, removeKey s k) else (.error .KeyError, s)

/--
```
if key is None: key = self._fresh_temp_key()
assert isinstance(key, str)
assert isinstance(allow_overwrite, bool)
if key in self.description_map.keys():
    assert allow_overwrite
    self.remove(key)                       # the old table is dropped BEFORE the query runs
descr = self.db_handle.create_table(table_name=key, q=ops)
self.description_map[key] = descr
self.eligable_for_auto_drop_list.add(key)
return descr
``` -/
def execute (s : State κ τ δ) (ops : ω) (key : KeyArg κ) (ow : Option Bool) :
    Except Err (Out κ τ δ) × State κ τ δ :=
  match resolve P s key with
  | (s1, none) => (.error .AssertionError, s1)
  | (s1, some k) =>
    match ow with
    | none => (.error .AssertionError, s1)
    | some ow =>
      if AL.has s1.descr k && !ow then (.error .AssertionError, s1)
      else
        let s2 := if AL.has s1.descr k then removeKey s1 k else s1
        match Db.createTable P s2.db k ops with
        | .error e => (.error e, s2)
        | .ok (db', d) =>
          (.ok (.descr k d),
           { s2 with db := db', descr := AL.set s2.descr k d, autoDrop := setAdd s2.autoDrop k })

/-- `assert isinstance(key, str); return self.description_map[key]` -/
def describe (s : State κ τ δ) : Option κ → Except Err (Out κ τ δ) × State κ τ δ
  | none => (.error .AssertionError, s)
  | some k => match AL.lookup s.descr k with
    | some d => (.ok (.descr k d), s)
    | none => (.error .KeyError, s)

/-- `assert isinstance(key, str); descr = self.description_map[key]; return self.db_handle.read_table(key)` -/
def retrieve (s : State κ τ δ) : Option κ → Except Err (Out κ τ δ) × State κ τ δ
  | none => (.error .AssertionError, s)
  | some k => match AL.lookup s.descr k with
    | none => (.error .KeyError, s)
    | some _ => match Db.readTable s.db k with
      | .ok v => (.ok (.table v), s)
      | .error e => (.error e, s)

def step (s : State κ τ δ) : Op κ τ ω → Except Err (Out κ τ δ) × State κ τ δ
  | .insert key value ow => insert P s key value ow
  | .execute ops key ow => execute P s ops key ow
  | .remove key => remove s key
  | .describe key => describe s key
  | .retrieve key => retrieve s key
  | .keys => (.ok (.keys (AL.keys s.descr)), s)    -- `return set(self.description_map.keys())`

def run (s : State κ τ δ) : List (Op κ τ ω) → List (Except Err (Out κ τ δ)) × State κ τ δ
  | [] => ([], s)
  | op :: h => let r := step P s op; let rest := run r.2 h; (r.1 :: rest.1, rest.2)

/-- `close()` with `drop_tables_on_close`:
```
key_list = list(self.eligable_for_auto_drop_list)
for key in key_list: self.remove(key)        # a KeyError ends the loop
```
(`self.db_handle = None; self.description_map = None` afterwards: the space is not used after `close`;
the handle passed to the constructor stays open, so the database is observable.) -/
def closeLoop : List κ → State κ τ δ → Except Err Unit × State κ τ δ
  | [], s => (.ok (), s)
  | k :: ks, s => if AL.has s.descr k then closeLoop ks (removeKey s k) else (.error .KeyError, s)

def close (dropOnClose : Bool) (s : State κ τ δ) : Except Err Unit × State κ τ δ :=
  if dropOnClose then closeLoop s.autoDrop s else (.ok (), s)

/-- **Finding guard** `G_C20_db_execute_overwrite` (decidable).  `DBSpace.execute` on an existing key drops the
old table before it runs the query.  The guard holds for an operation unless it is an `execute` with a `str`
key present in the space and `allow_overwrite=True` whose query does not succeed with the same result once
the key's own table is gone (it reads that table, or it fails anyway). -/
def guardExec [DecidableEq τ] (s : State κ τ δ) : Op κ τ ω → Bool
  | .execute ops (.str k) (some true) =>
    if AL.has s.descr k then
      match P.evalOps ops (AL.lookup (Db.dropTable s.db k)), P.evalOps ops (AL.lookup s.db) with
      | .ok a, .ok b => a == b
      | _, _ => false
    else true
  | _ => true

end DB
end

end DAVerif.Space
