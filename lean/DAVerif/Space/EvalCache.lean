/-
Model of /repo/data_algebra/eval_cache.py  (hash_data_frame, make_cache_key, ResultCache).

Layers
 1. Python text rendering used by the f-string key  `f"{d.shape}_{list(d.columns)}_{hash_str}"`
    (repr of a 2-tuple of ints, repr of a list of str – CPython's `unicode_repr` with its quote choice
    and escapes).
 2. Frames as the cache sees them, and the *hash view*: what `pandas.util.hash_pandas_object` feeds into
    the digest (per-cell 8-byte patterns for numeric dtypes, the text of str/object cells, the index).
 3. `make_cache_key` (sorted table names, one frame hash per table).
 4. `ResultCache.store/get` over an explicit object heap (every `.copy()` allocates a fresh object id).

No imports: this file is part of the compiled driver.
-/
namespace DAVerif.EvalCache

abbrev Str := List Char

/-! ## 1. Python text rendering -/

/-- one decimal digit -/
def decDigit (n : Nat) : Char := Char.ofNat (48 + n)

/-- `repr(n)` of a non-negative Python int -/
def decDigits (n : Nat) : Str :=
  if n < 10 then [decDigit n] else decDigits (n / 10) ++ [decDigit (n % 10)]
decreasing_by omega

/-- `repr(n)` of a Python int -/
def pyReprInt (n : Int) : Str := if n < 0 then '-' :: decDigits n.natAbs else decDigits n.natAbs

/-- one lowercase hexadecimal digit -/
def hexDigit (n : Nat) : Char := Char.ofNat (if n < 10 then 48 + n else 87 + n)

/-- `"%0<w>x" % n` (fixed width, most significant digit first) -/
def hexDigits : Nat → Nat → Str
  | 0, _ => []
  | w + 1, n => hexDigits w (n / 16) ++ [hexDigit (n % 16)]

/-- CPython `unicode_repr`, quote choice:
    `if (squote) { if (dquote) quote = '\''  else quote = '"'; }`  – double quotes iff the string has a
    single quote and no double quote. -/
def quoteOf (s : Str) : Char := if s.contains '\'' && !s.contains '"' then '"' else '\''

/-- CPython `unicode_repr`, per character (`np c` = `!Py_UNICODE_ISPRINTABLE(c)`, consulted only for
    non-ASCII characters; it is a parameter: the Unicode database is not modelled):
```
if ((ch == quote) || (ch == '\\'))  -> '\\', ch
else if (ch == '\t') -> \t   else if (ch == '\n') -> \n   else if (ch == '\r') -> \r
else if (ch < ' ' || ch == 0x7F) -> \xHH
else if (ch < 0x7F) -> ch
else if (!Py_UNICODE_ISPRINTABLE(ch)) -> ch <= 0xff ? \xHH : ch <= 0xffff ? \uHHHH : \UHHHHHHHH
else -> ch
``` -/
def escChar (np : Char → Bool) (q : Char) (c : Char) : Str :=
  if c = q ∨ c = '\\' then ['\\', c]
  else if c = '\t' then ['\\', 't']
  else if c = '\n' then ['\\', 'n']
  else if c = '\r' then ['\\', 'r']
  else if c.toNat < 32 ∨ c.toNat = 127 then '\\' :: 'x' :: hexDigits 2 c.toNat
  else if c.toNat < 127 then [c]
  else if np c then
    if c.toNat ≤ 0xff then '\\' :: 'x' :: hexDigits 2 c.toNat
    else if c.toNat ≤ 0xffff then '\\' :: 'u' :: hexDigits 4 c.toNat
    else '\\' :: 'U' :: hexDigits 8 c.toNat
  else [c]

/-- the escaped body of a string literal -/
def escBody (np : Char → Bool) (q : Char) (s : Str) : Str := s.flatMap (escChar np q)

/-- `repr(s)` for a Python `str` -/
def pyReprStr (np : Char → Bool) (s : Str) : Str :=
  quoteOf s :: (escBody np (quoteOf s) s ++ [quoteOf s])

/-- the part of `repr(list)` after the first element: `", " + repr(x)` per further element, then `"]"` -/
def reprTail (np : Char → Bool) : List Str → Str
  | [] => [']']
  | x :: xs => ',' :: ' ' :: (pyReprStr np x ++ reprTail np xs)

/-- `repr(l)` for a Python list of `str` (what `f"{list(d.columns)}"` prints) -/
def pyReprList (np : Char → Bool) : List Str → Str
  | [] => ['[', ']']
  | x :: xs => '[' :: (pyReprStr np x ++ reprTail np xs)

/-- `repr((r, c))` – what `f"{d.shape}"` prints -/
def renderShape (r c : Nat) : Str := '(' :: (decDigits r ++ (',' :: ' ' :: (decDigits c ++ [')'])))

/-- `hash_data_frame`, the text part:  `return f"{d.shape}_{list(d.columns)}_{hash_str}"`
    (the function's first statement calls `is_appropriate_data_instance(d)` and discards the result: no check) -/
def hashDataFrame (np : Char → Bool) (r c : Nat) (names : List Str) (digest : Str) : Str :=
  renderShape r c ++ ('_' :: (pyReprList np names ++ ('_' :: digest)))

/-! ## 2. Frames and the hash view

A frame, as far as the cache can observe it: column labels, typed columns, an integer index.
Columns are typed by construction (the five dtypes the rest of the framework generates):
`float64` cells are IEEE bit patterns (so that `0.0`/`-0.0`/NaN are distinct model values),
`str` is pandas 3's default string dtype (missing = `none`), `object` holds None, str or int cells. -/

inductive OCell where
  | null | str (s : Str) | int (n : Int)
  deriving DecidableEq, Repr

inductive Column where
  | int64 (xs : List Int)
  | float64 (xs : List Nat)
  | bool (xs : List Bool)
  | str (xs : List (Option Str))
  | object (xs : List OCell)
  deriving DecidableEq, Repr

inductive DType where
  | int64 | float64 | bool | str | object
  deriving DecidableEq, Repr

def Column.dtype : Column → DType
  | .int64 _ => .int64 | .float64 _ => .float64 | .bool _ => .bool | .str _ => .str | .object _ => .object

def Column.len : Column → Nat
  | .int64 xs => xs.length | .float64 xs => xs.length | .bool xs => xs.length
  | .str xs => xs.length | .object xs => xs.length

structure Frame where
  names : List Str
  cols : List Column
  index : List Int
  deriving DecidableEq, Repr

/-- `d.shape` = `(len(d.index), len(d.columns))` -/
def Frame.shape (d : Frame) : Nat × Nat := (d.index.length, d.names.length)

/-- what one cell contributes to `hash_pandas_object` (before SipHash / combination / SHA-256):
    an 8-byte pattern, the text of a string, or the missing-value marker -/
inductive Atom where
  | u (n : Nat) | s (cs : Str) | na
  deriving DecidableEq, Repr

/-- `vals.view("u8")` of an int64 -/
def u64 (n : Int) : Nat := (n % 18446744073709551616).toNat

/-- pandas `hash_array` on an object array: str cells are hashed as their UTF-8 text, missing cells get
    the fixed marker (`result[mask] = u8max`), and – `except TypeError: vals.astype(str)` – **every other
    cell is hashed as `str(cell)`**: the int `1` and the string `'1'` give the same bytes. -/
def OCell.atom : OCell → Atom
  | .null => .na
  | .str s => .s s
  | .int n => .s (pyReprInt n)

/-- pandas `hash_array` per dtype: `vals.view(f"u{itemsize}").astype("u8")` for every numeric dtype
    (bool → 0/1, int64 → two's complement, float64 → IEEE bits: **the dtype itself is not hashed**);
    string / object arrays are factorised and hashed by text. -/
def Column.atoms : Column → List Atom
  | .int64 xs => xs.map (fun n => .u (u64 n))
  | .float64 xs => xs.map .u
  | .bool xs => xs.map (fun b => .u (if b then 1 else 0))
  | .str xs => xs.map (fun | none => .na | some s => .s s)
  | .object xs => xs.map OCell.atom

/-- `hash_pandas_object(d)` yields one uint64 per row, mixed (order-dependently) from the row's cells in
    column order and the row's index label; with no rows the array is empty whatever the columns are.
    The view lists the per-column inputs followed by the index. -/
def hview (d : Frame) : List (List Atom) :=
  if d.index.isEmpty then [] else d.cols.map Column.atoms ++ [d.index.map (fun i => Atom.u (u64 i))]

/-- `hash_data_frame(d)` with the digest function `sha` (SHA-256 ∘ mixing ∘ SipHash) left abstract. -/
def hashFrame (np : Char → Bool) (sha : List (List Atom) → Str) (d : Frame) : Str :=
  hashDataFrame np d.shape.1 d.shape.2 d.names (sha (hview d))

/-! ### `DataFrame.equals` on model frames -/

def fIsNaN (b : Nat) : Bool := (b / 4503599627370496) % 2048 == 2047 && b % 4503599627370496 != 0
def fIsZero (b : Nat) : Bool := b % 9223372036854775808 == 0
/-- `(left == right) | (isna(left) & isna(right))` on float64 bit patterns -/
def floatEq (a b : Nat) : Bool := (fIsNaN a && fIsNaN b) || (!fIsNaN a && !fIsNaN b && (a == b || (fIsZero a && fIsZero b)))

def listEqBy {α : Type} (f : α → α → Bool) : List α → List α → Bool
  | [], [] => true
  | a :: as, b :: bs => f a b && listEqBy f as bs
  | _, _ => false

/-- blocks of different dtype are never `equals`; floats compare with NaN = NaN and 0.0 = -0.0 -/
def Column.equals : Column → Column → Bool
  | .int64 a, .int64 b => a == b
  | .float64 a, .float64 b => listEqBy floatEq a b
  | .bool a, .bool b => a == b
  | .str a, .str b => a == b
  | .object a, .object b => a == b
  | _, _ => false

/-- `previous.equals(res)`: same labels, same index values, same dtypes, equal cells -/
def Frame.equals (a b : Frame) : Bool :=
  a.names == b.names && a.index == b.index && listEqBy Column.equals a.cols b.cols

/-- well-formed: one column per label, every column as long as the index, values in machine range -/
def Column.wf : Column → Bool
  | .int64 xs => xs.all (fun n => decide (-9223372036854775808 ≤ n ∧ n < 9223372036854775808))
  | .float64 xs => xs.all (fun n => decide (n < 18446744073709551616))
  | _ => true

def Frame.wf (d : Frame) : Bool :=
  d.names.length == d.cols.length && d.cols.all (fun c => c.len == d.index.length && c.wf)
    && d.index.all (fun n => decide (-9223372036854775808 ≤ n ∧ n < 9223372036854775808))

/-- guard `G_C25_obj_plain`: object columns hold only None / str cells -/
def Column.objPlain : Column → Bool
  | .object xs => xs.all (fun | .int _ => false | _ => true)
  | _ => true
def Frame.objPlain (d : Frame) : Bool := d.cols.all Column.objPlain

/-- guard `G_C25_same_dtypes`: the two frames have the same dtype in every column position -/
def sameDtypes (a b : Frame) : Bool := a.cols.map Column.dtype == b.cols.map Column.dtype

/-! ## 3. `make_cache_key` -/

/-- Python `str.__lt__`/`sort()` order: lexicographic by code point; `leStr a b` = `a <= b` -/
def leStr : Str → Str → Bool
  | [], _ => true
  | _ :: _, [] => false
  | a :: as, b :: bs => a.toNat < b.toNat || (a == b && leStr as bs)

/-- `EvalKey(db_model_name, sql, dat_map_list)`; `K` is the type of a frame hash (a `str` in the code) -/
structure EvalKey (K : Type) where
  dialect : Str
  sql : Str
  dat : List (Str × K)
  deriving DecidableEq, Repr

/--
```
data_map_keys = list(data_map.keys()); data_map_keys.sort()
return EvalKey(db_model_name=str(db_model), sql=sql,
               dat_map_list=tuple([(k, hash_data_frame(data_map[k])) for k in data_map_keys]))
```
`dm` is the dict as an association list in insertion order (keys unique); `hk` is `hash_data_frame`. -/
def makeKey {F K : Type} (hk : F → K) (dialect sql : Str) (dm : List (Str × F)) : EvalKey K :=
  { dialect := dialect, sql := sql,
    dat := ((dm.map Prod.fst).mergeSort leStr).filterMap
             (fun k => (dm.lookup k).map (fun d => (k, hk d))) }

/-! ## 4. `ResultCache`

Objects live in a heap (`List F`, object id = position).  The caller holds references `ext` to the
objects it created or was handed; the cache holds references inside its two dicts.  `x.copy()` allocates
a new object with the same content.  In-place mutation of an object changes that heap cell only. -/

inductive Err where
  | assertion | key
  deriving DecidableEq, Repr

/-- arguments of `get`/`store`: `valid = false` stands for a `db_model` that is not a `DBModel`, an `sql`
    that is not a `str` or a non-`str` table name (each fails an `assert` in `make_cache_key`);
    a data-map value that is not a data frame is an id that names no heap object. -/
structure Args where
  valid : Bool
  dialect : Str
  sql : Str
  data : List (Str × Nat)
  deriving Repr

structure State (F K : Type) where
  heap : List F
  ext : List Nat
  result : List (EvalKey K × Nat)
  data : Option (List (K × Nat))
  dirty : Bool

def State.init {F K : Type} : State F K :=
  { heap := [], ext := [], result := [], data := some [], dirty := false }

/-- Python `d[k] = v`: an existing key keeps its position, a new key goes to the end -/
def dictSet {α β : Type} [DecidableEq α] : List (α × β) → α → β → List (α × β)
  | [], k, v => [(k, v)]
  | p :: d, k, v => if p.1 = k then (k, v) :: d else p :: dictSet d k v

/-- Python `d[k]` (`none` = KeyError) -/
def dictGet {α β : Type} [DecidableEq α] : List (α × β) → α → Option β
  | [], _ => none
  | p :: d, k => if p.1 = k then some p.2 else dictGet d k

/-- resolve the data map against the heap: `none` when some value is not a data frame -/
def resolve {F : Type} (heap : List F) : List (Str × Nat) → Option (List (Str × F))
  | [] => some []
  | (k, i) :: r =>
    match heap[i]?, resolve heap r with
    | some v, some l => some ((k, v) :: l)
    | _, _ => none

/-- `make_cache_key(db_model=…, sql=…, data_map=…)` on the current contents; `none` = AssertionError -/
def keyOf {F K : Type} (hk : F → K) (heap : List F) (a : Args) : Option (EvalKey K) :=
  if a.valid then (resolve heap a.data).map (makeKey hk a.dialect a.sql) else none

/--
```
for d in list(data_map.values()) + [res]:
    d_key = hash_data_frame(d)
    if d_key not in self.data_cache.keys():
        self.data_cache[d_key] = d.copy()
``` -/
def dataStep {F K : Type} [DecidableEq K] (hk : F → K) (st : List F × List (K × Nat)) (i : Nat) :
    List F × List (K × Nat) :=
  match st.1[i]? with
  | none => st
  | some v => if st.2.any (fun p => p.1 = hk v) then st else (st.1 ++ [v], st.2 ++ [(hk v, st.1.length)])

inductive Op (F : Type) where
  | new (v : F)                     -- the caller builds a frame object
  | mutate (i : Nat) (v : F)        -- the caller changes object `i` in place; its content becomes `v`
  | store (a : Args) (res : Nat)    -- `cache.store(db_model=…, sql=…, data_map=…, res=obj res)`
  | get (a : Args)                  -- `cache.get(db_model=…, sql=…, data_map=…)`
  | dataOff                         -- `cache.data_cache = None`
  deriving Repr

inductive Out where
  | done                 -- returned None
  | obj (i : Nat)        -- returned / created object id
  | err (e : Err)
  | noRef                -- the caller has no such reference (not an operation of the real system)
  deriving DecidableEq, Repr

/--
```
def get(self, *, db_model, sql, data_map):
    k = make_cache_key(db_model=db_model, sql=sql, data_map=data_map)     # AssertionError
    res = self.result_cache[k]                                            # KeyError
    assert ...is_appropriate_data_instance(res)
    return res.copy()

def store(self, *, db_model, sql, data_map, res) -> None:
    assert ...is_appropriate_data_instance(res)                           # AssertionError
    op_key = make_cache_key(db_model=db_model, sql=sql, data_map=data_map)
    try:
        previous = self.result_cache[op_key]
        if previous.equals(res):
            return
    except KeyError:
        pass
    self.dirty = True
    self.result_cache[op_key] = res.copy()
    if self.data_cache is not None:
        for d in list(data_map.values()) + [res]: ...   (dataStep)
``` -/
def step {F K : Type} [DecidableEq K] (hk : F → K) (eqv : F → F → Bool) (s : State F K) :
    Op F → State F K × Out
  | .new v => ({ s with heap := s.heap ++ [v], ext := s.ext ++ [s.heap.length] }, .obj s.heap.length)
  | .mutate i v =>
    if i ∈ s.ext then ({ s with heap := s.heap.set i v }, .done) else (s, .noRef)
  | .dataOff => ({ s with data := none }, .done)
  | .get a =>
    match keyOf hk s.heap a with
    | none => (s, .err .assertion)
    | some k =>
      match (dictGet s.result k).bind (fun i => s.heap[i]?) with
      | none => (s, .err .key)
      | some v => ({ s with heap := s.heap ++ [v], ext := s.ext ++ [s.heap.length] }, .obj s.heap.length)
  | .store a res =>
    match s.heap[res]? with
    | none => (s, .err .assertion)
    | some rv =>
      match keyOf hk s.heap a with
      | none => (s, .err .assertion)
      | some k =>
        let prev := (dictGet s.result k).bind (fun i => s.heap[i]?)
        if prev.any (fun p => eqv p rv) then (s, .done)
        else
          let heap1 := s.heap ++ [rv]
          let result1 := dictSet s.result k s.heap.length
          match s.data with
          | none => ({ s with heap := heap1, result := result1, dirty := true }, .done)
          | some dc =>
            let st := (a.data.map Prod.snd ++ [res]).foldl (dataStep hk) (heap1, dc)
            ({ s with heap := st.1, result := result1, data := some st.2, dirty := true }, .done)

/-- run a history, collecting the outcomes -/
def run {F K : Type} [DecidableEq K] (hk : F → K) (eqv : F → F → Bool) (s : State F K) :
    List (Op F) → State F K × List Out
  | [] => (s, [])
  | op :: h =>
    let r := step hk eqv s op
    let rest := run hk eqv r.1 h
    (rest.1, r.2 :: rest.2)

end DAVerif.EvalCache
