import DAVerif.Core.OrderedSet
import DAVerif.Proofs.OSet
import DAVerif.Props.C24
