import DAVerif.Drv.Util
import DAVerif.Drv.OSet
import DAVerif.Drv.CC
import DAVerif.Drv.OpsDrv
import DAVerif.Drv.SqlDrv
import DAVerif.Drv.Schema
import DAVerif.Drv.EvalCache
import DAVerif.Drv.Own
import DAVerif.Drv.MethodsDrv
import DAVerif.Drv.UsedDag
import DAVerif.Drv.EqDrv
import DAVerif.Drv.Expr
import DAVerif.Drv.CData
import DAVerif.Drv.Text
import DAVerif.Drv.DataSpace
import DAVerif.Drv.SolutionsDrv
import DAVerif.Drv.CallsDrv
import DAVerif.Drv.Rename
import DAVerif.Drv.PolarsDrv
import DAVerif.Drv.C04Drv
/-!
Line-protocol driver: one JSON case per input line
  {"suite": "...", "id": n, "case": {...}}   →   {"id": n, "out": ...} | {"id": n, "bad": "reason"}
Total: a malformed or unknown case answers `bad`.
-/
open Lean DAVerif.Drv

def allHandlers : List (String × Handler) :=
  OSetDrv.handlers ++ CCDrv.handlers ++ OpsDrv.handlers ++ SqlDrv.handlers ++ SchemaDrv.handlers ++ EvalCacheDrv.handlers ++ OwnDrv.handlers ++ MethodsDrv.handlers ++ UsedDagDrv.handlers ++ EqDrv.handlers ++ ExprDrv.handlers ++ CDataDrv.handlers ++ TextDrv.handlers ++ DataSpaceDrv.handlers ++ SolutionsDrv.handlers ++ CallsDrv.handlers ++ RenameDrv.handlers ++ PolarsDrv.handlers ++ C04Drv.handlers

def answer (line : String) : Json :=
  match Json.parse line with
  | .error e => Json.mkObj [("id", Json.null), ("bad", s!"parse: {e}")]
  | .ok j =>
    let id := (j.getObjVal? "id").toOption.getD Json.null
    match j.getObjVal? "suite" >>= Json.getStr?, j.getObjVal? "case" with
    | .ok suite, .ok c =>
      match allHandlers.lookup suite with
      | none => Json.mkObj [("id", id), ("bad", s!"unknown suite {suite}")]
      | some h =>
        match h c with
        | .ok out => Json.mkObj [("id", id), ("out", out)]
        | .error e => Json.mkObj [("id", id), ("bad", e)]
    | _, _ => Json.mkObj [("id", id), ("bad", "missing suite/case")]

partial def loop (hin hout : IO.FS.Stream) : IO Unit := do
  let line ← hin.getLine
  if line.isEmpty then return ()
  let t := line.trimAscii.toString
  if !t.isEmpty then
    hout.putStrLn (answer t).compress
  loop hin hout

def main : IO Unit := do
  let hin ← IO.getStdin
  let hout ← IO.getStdout
  loop hin hout
  hout.flush
