import data_algebra
from data_algebra.data_ops import *
import data_algebra.SQLite, data_algebra.PostgreSQL, data_algebra.BigQuery, data_algebra.MySQL, data_algebra.SparkSQL
from data_algebra.sql_format_options import SQLFormatOptions
import data_algebra.expr_rep as er
import pandas as pd

def mk(flag_left, flag_right):
    d = TableDescription(table_name="d", column_names=["k","x"])
    def branch(method):
        e = er.Expression('abs', (er.ColumnReference('x'),), inline=False, method=method)
        return d.extend({'y': e})
    return branch(flag_left).natural_join(branch(flag_right), on=['k'], jointype='inner')

p = mk(True, False)
q = mk(False, False)
print("p==q", p == q, "q==p", q == p)
# the same via the public parser
d = TableDescription(table_name="d", column_names=["k","x"])
p2 = d.extend({'y': 'x.abs()'}).natural_join(d.extend({'y': 'abs(x)'}), on=['k'], jointype='inner')
q2 = d.extend({'y': 'abs(x)'}).natural_join(d.extend({'y': 'abs(x)'}), on=['k'], jointype='inner')
print("parser: p2==q2", p2 == q2, "str equal", str(p2) == str(q2))
models = [data_algebra.SQLite.SQLiteModel(), data_algebra.PostgreSQL.PostgreSQLModel(), data_algebra.BigQuery.BigQueryModel(), data_algebra.MySQL.MySQLModel(), data_algebra.SparkSQL.SparkSQLModel()]
for m in models:
    for use_with in (False, True):
        for cte in (False, True):
            fo = SQLFormatOptions(use_with=use_with, annotate=False, use_cte_elim=cte)
            sp = m.to_sql(p2, sql_format_options=fo); sq = m.to_sql(q2, sql_format_options=fo)
            print(type(m).__name__, "use_with", use_with, "cte_elim", cte, "same" if sp == sq else "DIFFER")
fo = SQLFormatOptions(use_with=True, annotate=False, use_cte_elim=True)
m = data_algebra.PostgreSQL.PostgreSQLModel()
print(m.to_sql(p2, sql_format_options=fo)); print("------"); print(m.to_sql(q2, sql_format_options=fo))
df = pd.DataFrame({'k':[1,2],'x':[1.0,-2.0]})
print(p2.eval({'d': df}).equals(q2.eval({'d': df})))
