#!/bin/bash
# usage: notes/merge_agent.sh <agent verif copy>   — lists/copies new or changed files from an agent's private copy
SRC="$1"
cd "$SRC" || exit 1
find . -type f \( -path ./lean/.lake -prune -o -path ./.git -prune -o -path ./.work -prune -o -path ./replays -prune -o -name '*.pyc' -prune -o -print \) | grep -v "^./lean/.lake\|^./.git/\|^./.work/\|^./replays/\|__pycache__" | sort | while read f; do
  if [ ! -e "/verif/$f" ]; then echo "NEW  $f"; mkdir -p "/verif/$(dirname $f)"; cp "$f" "/verif/$f";
  elif ! cmp -s "$f" "/verif/$f"; then echo "DIFF $f"; fi
done
