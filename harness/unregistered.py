"""List the theorems `C\\d\\d_*` of lean/DAVerif/Props/*.lean that no check registers in its THEOREMS list (and so are built
but not axiom-audited by name on every run).   /venv/bin/python harness/unregistered.py   (exit 1 when there are any)"""
import glob
import os
import re
import sys

VERIF = os.path.dirname(os.path.dirname(os.path.abspath(__file__)))


def main():
    reg = "".join(open(f).read() for f in glob.glob(os.path.join(VERIF, "harness", "props", "*.py")))
    miss = {}
    for f in sorted(glob.glob(os.path.join(VERIF, "lean", "DAVerif", "Props", "*.lean"))):
        # block comments hold full statements that are kept visible but false (their negation is the theorem beside them)
        src = re.sub(r"/-.*?-/", "", open(f).read(), flags=re.S)
        for m in re.finditer(r"^theorem\s+(C\d\d_[A-Za-z0-9_\.]+)", src, re.M):
            n = m.group(1)
            if '"' + n + '"' not in reg and "." + n + '"' not in reg:
                miss.setdefault(os.path.basename(f), []).append(n)
    for k, v in miss.items():
        print(k, v)
    print(f"{sum(len(v) for v in miss.values())} unregistered property-module theorems")
    return 1 if miss else 0


if __name__ == "__main__":
    sys.exit(main())
