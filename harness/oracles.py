"""
Property oracles on the REAL code only (DESIGN.md §6, "Oracle" paragraph of each property).  No Lean model involved.

    oracle_Cxx(case, **opts) -> [ {"kind": str, "detail": str, "finding": id | None, "candidate": id | None} ... ]

`finding` is set only for the candidate defects of DESIGN §5.5 that are still live on the tree (D16, D18-D25, D27, D30), by a
*guard predicate on the case* (e.g. "a join whose key columns contain a null on both sides"): a failing case is
attributed to a finding only when the case violates that finding's guard; any other failure keeps finding=None and is a
new violation.  `candidate` names defects seen while building these oracles that are NOT in DESIGN's list (N1..);
it never suppresses anything (the harness looks at `finding` only).  Repaired candidates (D1-D6, D8-D15, D28) have no
id here: if they re-appear they are plain violations.

Scope readings used (Appendix B): any_value / limit / _uniform / integer division are generator-side; here:
  * sum/count over a group without non-null values: 0 and null are one value (zero_null leniency, C01 text)
  * a raise on both sides is agreement; a raise on one side only is a failure (except Polars: a raise is accepted, C03)
"""
import copy
import io
import itertools
import json
import math
import pickle
import random
import re
import sqlite3
import tokenize
import warnings

from . import pipes as P

L = P.L

LIVE_FINDINGS = {
    "D16": "D16-concat-label-reparsed", "D18": "D18-pandas-null-keys-match", "D19": "D19-sqlite-full-join-null-keys",
    "D20": "D20-polars-full-join-keys", "D20x": "D20-polars-cross-join-raises", "D21": "D21-order-null-placement",
    "D22": "D22-cumulative-null-args", "D23": "D23-scratch-column-names", "D24": "D24-generated-cte-names",
    "D25": "D25-cte-elim-merged-extend", "D27": "D27-polars-maximum-ignores-null",
    "D30": "D30-window-sort-by-value-columns",
}
# repaired in /repo by fix: commits and therefore WITHOUT an id here (a re-appearance is a plain violation):
# D1-D6, D8-D15, D28 and, from the candidates first seen by these oracles, the to_sql KeyError on
# extend->select->extend (was N7), SQLite right join with differently named keys (N18), project whose group keys are
# all null (N24).


def well_formed(case):
    """False for cases whose last step is a deliberate rule violation (meta.fault): when the builder accepts such a
    step that is C26's finding; the relational properties quantify over well-formed pipelines only."""
    return not ((case.get("meta") or {}).get("fault"))


def fail(kind, detail, finding=None, candidate=None):
    return {"kind": kind, "detail": str(detail)[:600], "finding": finding, "candidate": candidate}


# ------------------------------------------------------------------------------------------------
# context: build once, run each backend once, node-level inputs for guards and references
# ------------------------------------------------------------------------------------------------

class Ctx:
    def __init__(self, case):
        self.case = case
        self.tables = case["tables"]
        self.ops, self.err = P.build_or_error(case)
        self._out = {}
        self._tree = None
        self._nodes = None
        self._guards = None

    @property
    def tree(self):
        if self._tree is None and self.ops is not None:
            self._tree = P.to_tree(self.ops)
        return self._tree

    def run(self, backend, node=None, **kw):
        node = self.ops if node is None else node
        key = (backend, id(node), json.dumps(kw, sort_keys=True, default=str))
        if key not in self._out:
            f = {"pandas": P.run_pandas, "sqlite": P.run_sqlite, "pg": P.run_pg_on_sqlite, "polars": P.run_polars}[backend]
            self._out[key] = f(node, self.tables, **kw)
        return self._out[key]

    def nodes(self):
        """all distinct real node objects, root first"""
        if self._nodes is None:
            seen, out = set(), []

            def walk(n):
                if id(n) in seen:
                    return
                seen.add(id(n))
                out.append(n)
                for s in n.sources:
                    walk(s)
            if self.ops is not None:
                walk(self.ops)
            self._nodes = out
        return self._nodes

    def node_input(self, node, i=0):
        """Table of the i-th source of `node`, evaluated by the Pandas executor (None when that raises)"""
        r = self.run("pandas", node.sources[i])
        return r.get("ok")

    # ---- guards: which finding guards does this case violate? ---------------------------------------
    def guards(self):
        if self._guards is None:
            self._guards = compute_guards(self)
        return self._guards


def _col_has_null(table, col):
    if table is None or col not in table["cols"]:
        return None
    return any(v is None for v in P.table_column(table, col))


def _term_cols(t, acc=None):
    acc = set() if acc is None else acc
    if "c" in t:
        acc.add(t["c"])
    for a in t.get("args", []):
        _term_cols(a, acc)
    return acc


def _subterms(t):
    yield t
    for a in t.get("args", []):
        yield from _subterms(a)


NULL_UNSAFE_OPS = {"==", "!=", "<", "<=", ">", ">=", "is_in", "and", "or", "not", "if_else", "is_nan", "is_inf"}


def compute_guards(ctx):
    """
    set of guard tags the case violates (each a precise, decidable predicate on case + data).
      null_join_keys_both   a join whose key columns contain a null in BOTH inputs                       (D18)
      full_join_null_key    a FULL join with a null key in either input                                  (D19)
      polars_full_join      a FULL join / CROSS join at all                                               (D20)
      order_null            an order_rows (final, or with a limit) whose order column has a null input    (D21)
      window_order_null     an ordered window whose order_by column has a null in its input               (D21 in windows)
      cum_null_arg          an ordered window cumsum/cummax/cummin/cumprod over an argument with a null   (D22)
      concat_label          concat_rows with an id column and a label containing " or \\ or a line break   (D16)
      minmax_null           maximum/minimum/fmax/fmin with a null in an operand column                    (D27 on Polars)
      null_compare          a comparison / logic / if_else / is_in / is_nan over a column with a null     (N1)
      round_half, float_mod, concat_null_str, sum_all_null, cross_empty, ...                              (N..)
    """
    g = set()
    for n in ctx.nodes():
        nn = n.node_name
        if nn == "NaturalJoinNode":
            a, b = ctx.node_input(n, 0), ctx.node_input(n, 1)
            na = [_col_has_null(a, c) for c in n.on_a]
            nb = [_col_has_null(b, c) for c in n.on_b]
            if any(x and y for x, y in zip(na, nb)):
                g.add("null_join_keys_both")
            if n.jointype == "FULL" and (any(na) or any(nb)):
                g.add("full_join_null_key")
            if n.jointype == "CROSS":
                g.add("polars_full_join")
            if n.jointype == "FULL" and a is not None and b is not None and all(c in a["cols"] for c in n.on_a) \
                    and all(c in b["cols"] for c in n.on_b):
                # D20 is about right-only rows: some row of b has no partner in a
                ia = [a["cols"].index(c) for c in n.on_a]
                ib = [b["cols"].index(c) for c in n.on_b]
                akeys = {tuple(_pv(r[j]) for j in ia) for r in a["rows"] if all(r[j] is not None for j in ia)}
                if any((any(r[j] is None for j in ib) or tuple(_pv(r[j]) for j in ib) not in akeys) for r in b["rows"]):
                    g.add("polars_full_join")
            if n.jointype == "FULL" and list(n.on_a) != list(n.on_b):
                g.add("full_join_diff_keys")
            if n.jointype == "RIGHT" and list(n.on_a) != list(n.on_b):
                g.add("right_join_diff_keys")
            if n.jointype == "CROSS" and ((a is not None and not a["rows"]) or (b is not None and not b["rows"])):
                g.add("cross_empty")
            if n.jointype in ("LEFT", "RIGHT", "FULL", "CROSS") and a is not None and b is not None and \
                    ((not a["rows"]) != (not b["rows"])):
                g.add("join_one_side_empty")
            if a is not None and b is not None:
                for c in set(a["cols"]) & set(b["cols"]):
                    for t in (a, b):
                        col = P.table_column(t, c)
                        if col and all(v is None for v in col):
                            g.add("all_null_common_column")
        elif nn == "ConcatRowsNode":
            if n.id_column is not None and any(ch in (n.a_name + n.b_name) for ch in '"\\\n\r'):
                g.add("concat_label")
            a, b = ctx.node_input(n, 0), ctx.node_input(n, 1)
            if a is not None and b is not None:
                for c in set(a["cols"]) & set(b["cols"]):
                    for t in (a, b):
                        col = P.table_column(t, c)
                        if col and all(v is None for v in col):
                            g.add("all_null_common_column")
        elif nn == "OrderRowsNode":
            t = ctx.node_input(n)
            if any(_col_has_null(t, c) for c in n.order_columns) and (n is ctx.ops or n.limit is not None):
                g.add("order_null")
        elif nn == "ExtendNode":
            t = ctx.node_input(n)
            if n.ordered_windowed_situation:
                if any(_col_has_null(t, c) for c in n.order_by):
                    g.add("window_order_null")
            for k, e in n.ops.items():
                ej = P.term_to_json(e)
                if n.windowed_situation:
                    if ej.get("op") in ("cumsum", "cummax", "cummin", "cumprod") and any(
                            _col_has_null(t, c) for c in _term_cols(ej)):
                        g.add("cum_null_arg")
                    if ej.get("op") in ("sum",) and any(_col_has_null(t, c) for c in _term_cols(ej)):
                        g.add("sum_null_arg")
                _expr_guards(ej, t, g)
        elif nn == "SelectRowsNode":
            _expr_guards(P.term_to_json(n.expr), ctx.node_input(n), g)
        elif nn == "ProjectNode":
            t = ctx.node_input(n)
            for k, e in n.ops.items():
                ej = P.term_to_json(e)
                if ej.get("op") in ("sum", "count", "size", "_size") and (
                        any(_col_has_null(t, c) for c in _term_cols(ej)) or (t is not None and not t["rows"])):
                    g.add("sum_null_arg")
                if ej.get("op") == "nunique" and (any(_col_has_null(t, c) for c in _term_cols(ej))
                                                  or (t is not None and not t["rows"])):
                    g.add("nunique_null")
                if ej.get("op") in ("any", "all") and not n.group_by and t is not None and (
                        not t["rows"] or any(all(v is None for v in P.table_column(t, c)) for c in _term_cols(ej)
                                             if c in t["cols"])):
                    # an un-grouped any()/all() over no (non-null) item: Python's any([]) / all([]) vs SQL MAX/MIN = NULL
                    g.add("any_all_empty")
            if t is not None and n.group_by and t["rows"] and all(c in t["cols"] for c in n.group_by):
                gi = [t["cols"].index(c) for c in n.group_by]
                if all(any(r[j] is None for j in gi) for r in t["rows"]):
                    g.add("project_all_keys_null")
        elif nn == "ConvertRecordsNode":
            rm = n.record_map
            for sp in (rm.blocks_in, rm.blocks_out):
                if sp is not None:
                    txt = json.dumps(P.spec_from_real(sp), ensure_ascii=False)
                    if any(ch in txt for ch in ("'", '\\"')):
                        g.add("record_map_quote")
    return g


def _expr_guards(ej, t, g):
    for s in _subterms(ej):
        op = s.get("op")
        if op is None:
            continue
        cols = set()
        for a in s.get("args", []):
            _term_cols(a, cols)
        anynull = any(_col_has_null(t, c) for c in cols)
        computed_null = any(("op" in a) for a in s.get("args", []))  # a computed operand may itself be null
        if op in NULL_UNSAFE_OPS and (anynull or (computed_null and t is not None and _table_has_null(t))):
            g.add("null_compare")
        if op in ("maximum", "minimum", "fmax", "fmin") and (anynull or (computed_null and _table_has_null(t))):
            g.add("minmax_null")
        if op in ("round", "around"):
            g.add("round_half")
        if op == "as_str":
            # text of a NUMBER: numpy prints the float64 a nullable / mapped int column has become ('0.0'), SQL casts the
            # integer ('0'); a text-valued operand is not affected
            ks = set()
            for a in s.get("args", []):
                for c in _term_cols(a):
                    if t is not None and c in t["cols"]:
                        ks.add(t["kinds"][t["cols"].index(c)] if "kinds" in t else "?")
                if "op" in a or "v" in a:
                    ks.add("?")
            if ks - {"str"}:
                g.add("as_str_number")
        if op in ("%", "mod", "remainder"):
            g.add("float_mod")
        if op == "concat" and (anynull or (computed_null and _table_has_null(t))):
            g.add("concat_null_str")
        if op == "coalesce" and s.get("args") and "op" in s["args"][0]:
            g.add("coalesce_computed")
        if op in ("<", "<=", ">", ">=") and any("s" in (a.get("v") or {}) for a in s.get("args", []) if isinstance(a.get("v"), dict)):
            g.add("str_order_cmp")


def _table_has_null(t):
    return t is not None and any(v is None for r in t["rows"] for v in r)


# ------------------------------------------------------------------------------------------------
# the documented difference of C01: sum / count over groups without non-null values
# ------------------------------------------------------------------------------------------------

def zero_null_scope(ctx):
    """
    -> (lenient_cols, excluded_cols, whole_table_affected)
    Static over-approximation on the built tree: a result column that *is* a sum/count/size aggregate (project or
    window, also cumsum) is compared with 0 ~ null; a column *computed from* such a column is excluded from the
    comparison; if such a column decides rows, groups, joins or order, the whole comparison is skipped.
    Only aggregates whose argument may be null or whose group may be empty matter; we do not try to be cleverer than
    "the argument column has a null, or the node's input is empty, in the Pandas evaluation".
    """
    lenient_by_node = {}

    def walk(n):
        """returns (lenient set, derived set, whole flag) for columns of node n"""
        if id(n) in lenient_by_node:
            return lenient_by_node[id(n)]
        nn = n.node_name
        srcs = [walk(s) for s in n.sources]
        len_, der, whole = set(), set(), any(s[2] for s in srcs)
        if nn == "TableDescription":
            res = (set(), set(), False)
            lenient_by_node[id(n)] = res
            return res
        s_len = set().union(*[s[0] for s in srcs]) if srcs else set()
        s_der = set().union(*[s[1] for s in srcs]) if srcs else set()
        taint = s_len | s_der
        if nn in ("ExtendNode", "ProjectNode"):
            t = ctx.node_input(n)
            keys = list(n.partition_by) + list(n.order_by) if nn == "ExtendNode" else list(n.group_by)
            if any(k in taint for k in keys):
                whole = True
            produced = set(n.ops.keys())
            if nn == "ExtendNode":
                len_ = {c for c in s_len if c not in produced}
                der = {c for c in s_der if c not in produced}
            for k, e in n.ops.items():
                ej = P.term_to_json(e)
                cols = _term_cols(ej)
                agg = (nn == "ProjectNode") or n.windowed_situation
                if cols & taint:
                    der.add(k)
                elif agg and ej.get("op") in ("sum", "cumsum", "count", "size", "_size", "_count", "cumcount"):
                    may = (t is None) or (not t["rows"]) or any(_col_has_null(t, c) for c in cols)
                    if ej.get("op") in ("count", "size", "_size", "_count", "cumcount"):
                        may = (t is None) or (not t["rows"])
                    if may:
                        len_.add(k)
        elif nn == "SelectRowsNode":
            if n.decision_columns & taint:
                whole = True
            len_, der = s_len, s_der
        elif nn == "OrderRowsNode":
            if set(n.order_columns) & taint and (n.limit is not None or n is ctx.ops):
                whole = True
            len_, der = s_len, s_der
        elif nn in ("SelectColumnsNode", "DropColumnsNode"):
            len_ = {c for c in s_len if c in n.column_names}
            der = {c for c in s_der if c in n.column_names}
        elif nn == "RenameColumnsNode":
            m = n.reverse_mapping
            len_ = {m.get(c, c) for c in s_len}
            der = {m.get(c, c) for c in s_der}
        elif nn == "MapColumnsNode":
            m = n.column_remapping
            len_ = {m.get(c, c) for c in s_len if c not in n.column_deletions}
            der = {m.get(c, c) for c in s_der if c not in n.column_deletions}
        elif nn == "NaturalJoinNode":
            if (set(n.on_a) | set(n.on_b)) & taint:
                whole = True
            common = set(n.sources[0].column_names) & set(n.sources[1].column_names)
            len_ = (s_len - common)
            der = s_der | (s_len & common)
        elif nn == "ConcatRowsNode":
            len_, der = s_len, s_der
        elif nn == "ConvertRecordsNode":
            if taint:
                whole = True
        res = (len_, der, whole)
        lenient_by_node[id(n)] = res
        return res

    return walk(ctx.ops)


def _restrict(table, drop):
    if not drop:
        return table
    keep = [j for j, c in enumerate(table["cols"]) if c not in drop]
    return {"cols": [table["cols"][j] for j in keep], "kinds": [table["kinds"][j] for j in keep],
            "rows": [[r[j] for j in keep] for r in table["rows"]]}


def final_order_is_total(ctx, table):
    """root is order_rows and its order columns identify the rows of `table` (so list equality is claimed)"""
    n = ctx.ops
    if n is None or n.node_name != "OrderRowsNode":
        return False
    idx = [table["cols"].index(c) for c in n.order_columns if c in table["cols"]]
    if len(idx) != len(n.order_columns):
        return False
    keys = [json.dumps([r[j] for j in idx], sort_keys=True) for r in table["rows"]]
    return len(set(keys)) == len(keys)


# ------------------------------------------------------------------------------------------------
# attribution of a differential failure to a live finding (guard violated) or to a new candidate
# ------------------------------------------------------------------------------------------------

def attribute(ctx, pair, what="rows", raised=None):
    """
    pair: ("pandas","sqlite") etc.; what: "rows" (both returned, tables differ) or "raise" (only `raised` raised).
    Returns (finding, candidate).  A finding that predicts *different values* never explains a raise and vice versa.
    """
    g = ctx.guards()
    sql = "sqlite" in pair or "pg" in pair
    pol = "polars" in pair
    pan = "pandas" in pair
    if what == "raise":
        if raised in ("sqlite", "pg") and "concat_label" in g:
            return LIVE_FINDINGS["D16"], None
        cands = []
        if raised == "pandas":
            cands = [("join_one_side_empty", "N8-pandas3-join-coalesce-assignment-raises"),
                     ("all_null_common_column", "N10-type-check-misreads-all-null-column"),
                     ("coalesce_computed", "N14-pandas-coalesce-needs-series"),
                     ("str_order_cmp", "N16-pandas-string-order-comparison-raises-on-null"),
                     ("null_compare", "N17-pandas-logic-on-null-operands-raises")]
        elif raised == "sqlite":
            cands = [("full_join_diff_keys", "N13-sqlite-full-join-needs-same-named-keys"),
                     ("record_map_quote", "N15-record-map-labels-unquoted-in-sql")]
        elif raised == "pg":
            cands = [("record_map_quote", "N15-record-map-labels-unquoted-in-sql")]
        for tag, cand in cands:
            if tag in g:
                return None, cand
        return None, None
    if sql and "concat_label" in g:
        return LIVE_FINDINGS["D16"], None
    if pan and (sql or pol) and "null_join_keys_both" in g:
        return LIVE_FINDINGS["D18"], None
    if "sqlite" in pair and "full_join_null_key" in g:
        return LIVE_FINDINGS["D19"], None
    if pol and "minmax_null" in g:
        return LIVE_FINDINGS["D27"], None
    if pol and "polars_full_join" in g:
        return LIVE_FINDINGS["D20"], None
    if "order_null" in g and (sql or pol) and pan:
        return LIVE_FINDINGS["D21"], None
    if "cum_null_arg" in g and sql:
        return LIVE_FINDINGS["D22"], None
    if pol and "minmax_null" in g:
        return LIVE_FINDINGS["D27"], None
    # not in DESIGN's list: name the candidate, leave finding None
    for tag, cand in (("null_compare", "N1-pandas-comparison-of-null-is-false"),
                      ("window_order_null", "N12-window-order-null-placement"),
                      ("round_half", "N3-round-half-even-vs-half-away"),
                      ("float_mod", "N2-sqlite-mod-casts-to-integer"),
                      ("concat_null_str", "N4-pandas-concat-renders-null-as-nan"),
                      ("cross_empty", "N11-pandas-cross-join-with-empty-side-pads"),
                      ("all_null_common_column", "N10-type-check-misreads-all-null-column"),
                      ("nunique_null", "N6-polars-nunique-counts-null"),
                      ("any_all_empty", "N29-any-all-over-no-rows"),
                      ("as_str_number", "N30-as-str-number-format")):
        if tag in g and not (tag == "nunique_null" and not pol):
            return None, cand
    return None, None


def _differential(ctx, left, right, prop, out_l=None, out_r=None, accept_right_raise=False, zero_null=True):
    """compare two backends' outcomes on the whole pipeline under the C01 comparison rules"""
    a = out_l if out_l is not None else ctx.run(left)
    b = out_r if out_r is not None else ctx.run(right)
    fails = []
    if "skip" in a or "skip" in b:
        return fails
    if "err" in b and accept_right_raise:
        return fails
    if "err" in a or "err" in b:
        if "err" in a and "err" in b:
            return fails
        raised = left if "err" in a else right
        f, c = attribute(ctx, (left, right), "raise", raised)
        fails.append(fail(f"{prop}:{raised}-raised", f"{left}: {a.get('err', 'ok')}  {right}: {b.get('err', 'ok')}", f, c))
        return fails
    ta, tb = a["ok"], b["ok"]
    zn, drop = None, set()
    if zero_null:
        len_, der, whole = zero_null_scope(ctx)
        if whole:
            return fails
        zn, drop = len_, der
    ta2, tb2 = _restrict(ta, drop), _restrict(tb, drop)
    d = P.same_table(ta2, tb2, zero_null_cols=zn)
    if d is None and final_order_is_total(ctx, ta) and not drop:
        d = P.same_table(ta2, tb2, ordered=True, zero_null_cols=zn)
        if d is not None:
            d = "row order after final order_rows: " + d
    if d is not None:
        f, c = attribute(ctx, (left, right), "rows")
        fails.append(fail(f"{prop}:{left}-vs-{right}", d, f, c))
    return fails


# ------------------------------------------------------------------------------------------------
# C01 C02 C03
# ------------------------------------------------------------------------------------------------

def oracle_C01(case, **opts):
    if not well_formed(case) and not opts.get("include_faulty", False):
        return []
    return _oracle_C01(case, **opts)


def _oracle_C01(case, **opts):
    """Pandas eval vs SQLite SQL (to_sql on an in-memory SQLite with prepare_connection)"""
    ctx = opts.get("ctx") or Ctx(case)
    if ctx.ops is None:
        return []
    return _differential(ctx, "pandas", "sqlite", "C01")


def oracle_C02(case, **opts):
    if not well_formed(case) and not opts.get("include_faulty", False):
        return []
    return _oracle_C02(case, **opts)


def _oracle_C02(case, **opts):
    """Pandas eval vs PostgreSQL-dialect text on the stand-in engine; plus every C04 option combination of that dialect"""
    ctx = opts.get("ctx") or Ctx(case)
    if ctx.ops is None:
        return []
    fails = _differential(ctx, "pandas", "pg", "C02")
    if not fails and opts.get("options", True):
        base = ctx.run("pandas")
        for kw in ({"use_with": False}, {"use_cte_elim": True}, {"use_cte_elim": True, "annotate": False}):
            o = P.run_pg_on_sqlite(ctx.ops, ctx.tables, kw)
            fails += _differential(ctx, "pandas", "pg", "C02", base, o)
            if fails:
                break
    return fails


def oracle_C03(case, **opts):
    if not well_formed(case) and not opts.get("include_faulty", False):
        return []
    return _oracle_C03(case, **opts)


def _oracle_C03(case, **opts):
    """Polars (eager and lazy) vs Pandas whenever Polars returns; a raise is always accepted"""
    ctx = opts.get("ctx") or Ctx(case)
    if ctx.ops is None:
        return []
    a = ctx.run("pandas")
    if "err" in a:
        return []
    fails = []
    for lazy in (False, True):
        b = ctx.run("polars", lazy=lazy)
        fails += _differential(ctx, "pandas", "polars", "C03", a, b, accept_right_raise=True)
        if fails:
            break
    return fails


# ------------------------------------------------------------------------------------------------
# C08  result columns = declared columns
# ------------------------------------------------------------------------------------------------

BACKENDS = ("pandas", "sqlite", "pg", "polars")


def _select_defines_order(ops):
    """the column order of the result is defined by a select_columns: the last step, or followed only by steps that
    keep the columns as they are (order_rows, select_rows)"""
    n = ops
    while n.node_name in ("OrderRowsNode", "SelectRowsNode"):
        n = n.sources[0]
    return n.node_name == "SelectColumnsNode"


def oracle_C08(case, **opts):
    """set(result.columns) == set(ops.column_names) and no duplicates, per backend; list equality after a final
    select_columns; the same with every input table emptied"""
    ctx = opts.get("ctx") or Ctx(case)
    if ctx.ops is None:
        return []
    fails = []
    declared = list(ctx.ops.column_names)
    variants = [("", ctx)]
    if any(t["rows"] for t in case["tables"].values()) and opts.get("empty", True):
        ec = dict(case, tables={k: dict(t, rows=[]) for k, t in case["tables"].items()})
        variants.append((" (all inputs empty)", Ctx(ec)))
    for tag, cx in variants:
        for be in opts.get("backends", BACKENDS):
            o = cx.run(be)
            if "ok" not in o:
                continue
            cols = o["ok"]["cols"]
            if len(set(cols)) != len(cols) or set(cols) != set(declared):
                g = cx.guards()
                cand = None
                if any(c.endswith("_tmp_right_col") for c in cols):
                    cand = "N19-pandas-join-key-also-right-column-leaks-scratch"
                fails.append(fail(f"C08:{be}-column-set", f"{be}{tag}: result {cols} declared {declared}", None, cand))
            elif _select_defines_order(cx.ops) and cols != declared:
                fails.append(fail(f"C08:{be}-select-order", f"{be}{tag}: result {cols} declared {declared}"))
    return fails


# ------------------------------------------------------------------------------------------------
# plain-Python references (no library code): values, grouping, windows, joins, sorting
# ------------------------------------------------------------------------------------------------

def _pv(v):
    """Val -> hashable plain value: None | ('n', float) | ('s', str)   (bools are numbers 0/1, as in same_table)"""
    if v is None:
        return None
    n = P.val_num(v)
    if n is not None:
        return ("n", round(n, 9) + 0.0)
    return ("s", v["s"])


def _num(v):
    return None if v is None else P.val_num(v)


def _group_rows(table, keys):
    """dict: key tuple (null is its own value) -> list of row indexes, in first-appearance order"""
    idx = [table["cols"].index(k) for k in keys]
    groups = {}
    for i, r in enumerate(table["rows"]):
        groups.setdefault(tuple(_pv(r[j]) for j in idx), []).append(i)
    return groups


def _sort_key(v, rev):
    """sort key of a canonical cell under SQL-like ordering of non-null values; nulls are handled by the caller"""
    n = P.val_num(v)
    if n is not None:
        return (0, -n if rev else n, "")
    s = v["s"]
    if rev:
        return (1, 0, tuple(-ord(ch) for ch in s) + (1,))   # descending strings: negate code points, shorter last
    return (1, 0, tuple(ord(ch) for ch in s) + (-1,))


def ref_aggregate(fn, vals):
    """documented meaning of an aggregate over a list of canonical cells (nulls skipped)"""
    nn = [v for v in vals if v is not None]
    nums = [P.val_num(v) for v in nn]
    if fn in ("size", "_size"):
        return ("n", float(len(vals)))
    if fn in ("count",):
        return ("n", float(len(nn)))
    if fn == "nunique":
        return ("n", float(len({_pv(v) for v in nn})))
    if not nn:
        if fn in ("all", "any"):
            return "UNKNOWN"     # Pandas: False/True over nothing, SQL: NULL - not claimed either way by C09
        return "ZERO_OR_NULL" if fn == "sum" else None
    if fn == "sum":
        return ("n", sum(nums))
    if fn == "mean":
        return ("n", sum(nums) / len(nums))
    if fn in ("max", "min"):
        if all(x is not None for x in nums):
            return ("n", max(nums) if fn == "max" else min(nums))
        ss = [v["s"] for v in nn]
        return ("s", max(ss) if fn == "max" else min(ss))
    if fn == "median":
        s = sorted(nums)
        m = len(s) // 2
        return ("n", s[m] if len(s) % 2 else (s[m - 1] + s[m]) / 2)
    if fn in ("var", "std"):
        if len(nums) < 2:
            return None
        mu = sum(nums) / len(nums)
        v = sum((x - mu) ** 2 for x in nums) / (len(nums) - 1)
        return ("n", v if fn == "var" else math.sqrt(v))
    if fn == "all":
        return ("n", 1.0 if all(x != 0 for x in nums) else 0.0)
    if fn == "any":
        return ("n", 1.0 if any(x != 0 for x in nums) else 0.0)
    return "UNKNOWN"


def _close(ref, cell, tol=1e-8):
    """reference value vs canonical cell"""
    if ref == "UNKNOWN":
        return True
    if ref == "ZERO_OR_NULL":
        return cell is None or P.val_num(cell) == 0.0
    if ref is None:
        return cell is None
    if cell is None:
        return False
    if ref[0] == "n":
        n = P.val_num(cell)
        return n is not None and abs(n - ref[1]) <= tol * max(abs(n), abs(ref[1]), 1.0)
    return cell.get("s") == ref[1]


def _simple_call(ej):
    """(fn, argcol | None, extra literal args) of `col.fn(lits)` / `fn()` / `(lit).fn()`; else None"""
    if "op" not in ej:
        return None
    args = ej["args"]
    if not args:
        return ej["op"], None, []
    if "c" in args[0] and all("v" in a for a in args[1:]):
        return ej["op"], args[0]["c"], [P.dec_val(a["v"]) for a in args[1:]]
    if "v" in args[0] and all("v" in a for a in args[1:]):
        return ej["op"], ("lit", args[0]["v"]), [P.dec_val(a["v"]) for a in args[1:]]
    return None


# ------------------------------------------------------------------------------------------------
# C09  one row per group / one row without grouping / windowed extend keeps rows
# ------------------------------------------------------------------------------------------------

ROW_PRESERVING = {"ExtendNode", "SelectColumnsNode", "DropColumnsNode", "RenameColumnsNode", "MapColumnsNode"}


def oracle_C09(case, **opts):
    if not well_formed(case) and not opts.get("include_faulty", False):
        return []
    return _oracle_C09(case, **opts)


def _oracle_C09(case, **opts):
    """
    per backend B and per project / windowed-extend node n of the pipeline:
      rows(B(n)) vs an independent distinct-key count over B(n.source)   (null key = its own group; 1 row if ungrouped,
      also for an empty input); group aggregate values vs the plain-Python reference;
      windowed extend: same number of rows as its input.
    And in context (SQL pruning): if every step after a project is row-preserving, the whole pipeline has that many rows.
    """
    ctx = opts.get("ctx") or Ctx(case)
    if ctx.ops is None:
        return []
    fails = []
    backends = opts.get("backends", BACKENDS)
    for n in ctx.nodes():
        if n.node_name not in ("ProjectNode", "ExtendNode"):
            continue
        if n.node_name == "ExtendNode" and not n.windowed_situation:
            continue
        for be in backends:
            src = ctx.run(be, n.sources[0])
            out = ctx.run(be, n)
            if "ok" not in src or "ok" not in out:
                continue
            tin, tout = src["ok"], out["ok"]
            if n.node_name == "ExtendNode":
                if len(tout["rows"]) != len(tin["rows"]):
                    fails.append(fail(f"C09:{be}-window-rows", f"windowed extend {dict((k, str(v)) for k, v in n.ops.items())} "
                                      f"partition {n.partition_by}: {len(tin['rows'])} rows in, {len(tout['rows'])} out"))
                continue
            keys = list(n.group_by)
            if not all(k in tin["cols"] for k in keys):
                continue
            groups = _group_rows(tin, keys)
            expect = len(groups) if keys else 1
            if len(tout["rows"]) != expect:
                nullkey = any(None in k for k in groups)
                fails.append(fail(f"C09:{be}-project-rows",
                                  f"project group_by {keys}: expected {expect} rows "
                                  f"({'null key present, ' if nullkey else ''}{len(tin['rows'])} input rows), got {len(tout['rows'])}"))
                continue
            # values of the simple aggregates per group
            if not all(k in tout["cols"] for k in keys):
                continue
            kidx = [tout["cols"].index(k) for k in keys]
            for k, e in n.ops.items():
                sc = _simple_call(P.term_to_json(e))
                if sc is None or k not in tout["cols"]:
                    continue
                fn, arg, _ = sc
                if fn in ("any_value",) or (isinstance(arg, str) and arg not in tin["cols"]):
                    continue
                j = tout["cols"].index(k)
                for r in tout["rows"]:
                    gk = tuple(_pv(r[i]) for i in kidx)
                    rows = groups.get(gk, []) if keys else list(range(len(tin["rows"])))
                    if isinstance(arg, tuple):
                        vals = [arg[1]] * len(rows)
                    elif arg is None:
                        vals = [True] * len(rows)
                    else:
                        ai = tin["cols"].index(arg)
                        vals = [tin["rows"][i][ai] for i in rows]
                    ref = ref_aggregate(fn, vals)
                    if fn in ("count", "size", "_size") and not rows and r[j] is None:
                        continue   # documented: count over an empty ungrouped input may be null on SQL
                    if not _close(ref, r[j]):
                        fails.append(fail(f"C09:{be}-aggregate-value", f"{k} = {e} for group {gk}: reference {ref}, got "
                                          f"{P._show_row([r[j]])}", None,
                                          "N6-polars-nunique-counts-null" if (fn == "nunique" and be == "polars") else None))
                        break
    # in context: project followed only by row-preserving steps
    chain = []
    n = ctx.ops
    while n.node_name in ROW_PRESERVING and not (n.node_name == "ExtendNode" and False):
        chain.append(n)
        n = n.sources[0]
    if n.node_name == "ProjectNode" and chain:
        for be in backends:
            inner, whole = ctx.run(be, n), ctx.run(be)
            if "ok" in inner and "ok" in whole and len(inner["ok"]["rows"]) != len(whole["ok"]["rows"]):
                fails.append(fail(f"C09:{be}-project-in-context",
                                  f"project alone gives {len(inner['ok']['rows'])} rows, followed by row-preserving steps "
                                  f"{[c.node_name for c in reversed(chain)]} the pipeline gives {len(whole['ok']['rows'])}"))
    return fails


# ------------------------------------------------------------------------------------------------
# C27  per-row plain-Python window reference
# ------------------------------------------------------------------------------------------------

def ref_window(fn, ordered_vals, pos, extra):
    """value for the row at position `pos` of its ordered partition (ordered_vals: canonical cells in window order)"""
    upto = ordered_vals[: pos + 1]
    nn = [v for v in upto if v is not None]
    nums = [P.val_num(v) for v in nn]
    cur = ordered_vals[pos]
    if fn in ("_row_number",):
        return ("n", float(pos + 1))
    if fn in ("cumsum", "cummax", "cummin", "cumprod"):
        if cur is None:
            return "NULL_OR_RUNNING"      # D22: Pandas yields null at the row, SQL carries the running value
        if fn == "cumsum":
            return ("n", sum(nums))
        if fn == "cummax":
            return ("n", max(nums))
        if fn == "cummin":
            return ("n", min(nums))
        p = 1.0
        for x in nums:
            p *= x
        return ("n", p)
    if fn == "cumcount":
        return "UNKNOWN"                  # Pandas: 0-based row counter, SQL: COUNT(x): catalogue marks it 'w'
    if fn == "shift":
        k = int(extra[0]) if extra else 1
        j = pos - k
        if j < 0 or j >= len(ordered_vals):
            return None
        return _pv(ordered_vals[j])
    if fn in ("first", "last"):
        v = ordered_vals[0] if fn == "first" else ordered_vals[-1]
        return _pv(v)
    if fn in ("sum", "mean", "max", "min", "count", "size", "_size", "median", "nunique", "std", "var"):
        return ref_aggregate(fn, ordered_vals)
    if fn == "ffill":
        for v in reversed(upto):
            if v is not None:
                return _pv(v)
        return None
    if fn == "bfill":
        for v in ordered_vals[pos:]:
            if v is not None:
                return _pv(v)
        return None
    if fn == "rank":
        return "UNKNOWN"
    return "UNKNOWN"


def _window_layout(tin, part, order, reverse):
    """-> (partition -> ordered list of row indexes, total?)  nulls in order columns make the order backend-specific:
    reported through `has_null_order`."""
    groups = _group_rows(tin, part) if part else {(): list(range(len(tin["rows"])))}
    oidx = [tin["cols"].index(c) for c in order]
    total = True
    has_null = False
    out = {}
    for gk, rows in groups.items():
        def key(i):
            ks = []
            for c, j in zip(order, oidx):
                v = tin["rows"][i][j]
                if v is None:
                    ks.append((2, 0, ""))
                else:
                    ks.append(_sort_key(v, c in reverse))
            return ks
        if order:
            for i in rows:
                if any(tin["rows"][i][j] is None for j in oidx):
                    has_null = True
            srt = sorted(rows, key=key)
            kk = [json.dumps(key(i)) for i in srt]
            if len(set(kk)) != len(kk):
                total = False
            out[gk] = srt
        else:
            out[gk] = rows
    return out, total, has_null


def oracle_C27(case, **opts):
    if not well_formed(case) and not opts.get("include_faulty", False):
        return []
    return _oracle_C27(case, **opts)


def _oracle_C27(case, **opts):
    """every windowed extend node, per backend: per-row value vs the plain-Python reference over the node's input as
    that backend computed it.  Partitions = equal keys (null is a key); order = order_by with reversed columns
    descending; nodes whose order is not total on the data, or has null order keys, are out of scope."""
    ctx = opts.get("ctx") or Ctx(case)
    if ctx.ops is None:
        return []
    fails = []
    for n in ctx.nodes():
        if n.node_name != "ExtendNode" or not n.windowed_situation:
            continue
        calls = {k: _simple_call(P.term_to_json(e)) for k, e in n.ops.items()}
        if any(c is None for c in calls.values()):
            continue
        for be in opts.get("backends", BACKENDS):
            src, out = ctx.run(be, n.sources[0]), ctx.run(be, n)
            if "ok" not in src or "ok" not in out:
                continue
            tin, tout = src["ok"], out["ok"]
            if len(tin["rows"]) != len(tout["rows"]):
                fails.append(fail(f"C27:{be}-rows", f"{len(tin['rows'])} rows in, {len(tout['rows'])} out"))
                continue
            part, order, reverse = list(n.partition_by), list(n.order_by), set(n.reverse)
            if not all(c in tin["cols"] for c in part + order):
                continue
            layout, total, has_null = _window_layout(tin, part, order, reverse)
            if order and (not total or has_null):
                continue
            # identify output rows with input rows: the pass-through columns that are not overwritten
            keep = [c for c in tin["cols"] if c not in n.ops and c in tout["cols"]]
            inkeys = [json.dumps([_pv(r[tin["cols"].index(c)]) for c in keep]) for r in tin["rows"]]
            if len(set(inkeys)) != len(inkeys):
                continue     # rows not identifiable (duplicates): handled by the multiset comparisons of C01
            pos_of = {}
            for gk, rows in layout.items():
                for p, i in enumerate(rows):
                    pos_of[inkeys[i]] = (gk, p)
            done = False
            for r in tout["rows"]:
                kk = json.dumps([_pv(r[tout["cols"].index(c)]) for c in keep])
                if kk not in pos_of:
                    fails.append(fail(f"C27:{be}-row-identity", f"output row {P._show_row(r)} has no input row"))
                    done = True
                    break
                gk, p = pos_of[kk]
                rows = layout[gk]
                for k, (fn, arg, extra) in calls.items():
                    if isinstance(arg, tuple):
                        vals = [arg[1]] * len(rows)
                    elif arg is None:
                        vals = [True] * len(rows)
                    else:
                        if arg not in tin["cols"]:
                            continue
                        ai = tin["cols"].index(arg)
                        vals = [tin["rows"][i][ai] for i in rows]
                    if fn == "any_value":
                        continue
                    ref = ref_window(fn, vals, p, extra) if order else ref_aggregate(fn, vals)
                    cell = r[tout["cols"].index(k)]
                    if ref == "NULL_OR_RUNNING":
                        continue     # judged by C01/C27_agree: backends disagree there (D22)
                    if not _close(ref, cell):
                        nullpart = any(x is None for x in gk)
                        fails.append(fail(f"C27:{be}-window-value",
                                          f"{k} = {n.ops[k]} partition {part}={gk} order {order} reverse {sorted(reverse)} "
                                          f"position {p}: reference {ref}, got {P._show_row([cell])}"
                                          + (" (null partition)" if nullpart else ""), None,
                                          "N6-polars-nunique-counts-null" if (fn == "nunique" and be == "polars") else None))
                        done = True
                        break
                if done:
                    break
    return fails


# ------------------------------------------------------------------------------------------------
# C16  joins vs nested-loop reference and vs native SQL
# ------------------------------------------------------------------------------------------------

def ref_join(a, b, on_a, on_b, jointype):
    """standard SQL join as nested loops over canonical Tables; null keys never match; common non-key columns take
    the left value, or the right one where the left is null; same-named keys are one column (coalesced), differently
    named keys both stay."""
    jt = jointype.upper()
    cols = list(a["cols"]) + [c for c in b["cols"] if c not in a["cols"]]
    ia = [a["cols"].index(c) for c in on_a]
    ib = [b["cols"].index(c) for c in on_b]

    def combine(ra, rb):
        row = []
        for c in cols:
            va = ra[a["cols"].index(c)] if (ra is not None and c in a["cols"]) else None
            vb = rb[b["cols"].index(c)] if (rb is not None and c in b["cols"]) else None
            row.append(va if va is not None else vb)
        return row

    rows = []
    matched_b = set()
    for ra in a["rows"]:
        hit = False
        for jb, rb in enumerate(b["rows"]):
            if jt == "CROSS":
                ok = True
            else:
                ok = all(ra[i] is not None and rb[j] is not None and _pv(ra[i]) == _pv(rb[j]) for i, j in zip(ia, ib))
            if ok:
                hit = True
                matched_b.add(jb)
                rows.append(combine(ra, rb))
        if not hit and jt in ("LEFT", "FULL"):
            rows.append(combine(ra, None))
    if jt in ("RIGHT", "FULL"):
        for jb, rb in enumerate(b["rows"]):
            if jb not in matched_b:
                rows.append(combine(None, rb))
    kinds = []
    for c in cols:
        kinds.append(a["kinds"][a["cols"].index(c)] if c in a["cols"] else b["kinds"][b["cols"].index(c)])
    return {"cols": cols, "kinds": kinds, "rows": rows}


def native_sql_join(a, b, on_a, on_b, jointype):
    """the same join written by hand as one native SQL statement, executed on SQLite 3.40"""
    q = lambda s: '"' + s.replace('"', '""') + '"'
    cols = list(a["cols"]) + [c for c in b["cols"] if c not in a["cols"]]
    sel = []
    for c in cols:
        if c in a["cols"] and c in b["cols"]:
            sel.append(f"COALESCE(l.{q(c)}, r.{q(c)}) AS {q(c)}")
        elif c in a["cols"]:
            sel.append(f"l.{q(c)} AS {q(c)}")
        else:
            sel.append(f"r.{q(c)} AS {q(c)}")
    jt = jointype.upper()
    if jt == "CROSS":
        sql = f"SELECT {', '.join(sel)} FROM {q('L')} l CROSS JOIN {q('R')} r"
    else:
        on = " AND ".join(f"l.{q(x)} = r.{q(y)}" for x, y in zip(on_a, on_b))
        kw = {"INNER": "INNER JOIN", "LEFT": "LEFT JOIN", "RIGHT": "RIGHT JOIN", "FULL": "FULL JOIN"}[jt]
        sql = f"SELECT {', '.join(sel)} FROM {q('L')} l {kw} {q('R')} r ON {on}"
    conn = sqlite3.connect(":memory:")
    try:
        fr = P.tables_to_pandas({"L": a, "R": b})
        for k, d in fr.items():
            d.to_sql(k, conn, index=False)
        res = L.pd.read_sql_query(sql, conn)
        return P.frame_to_table(res)
    finally:
        conn.close()


def _unify_kinds(a, b, on_a, on_b):
    """the materialised inputs carry the kinds Pandas happened to produce (an int column with nulls or an empty column
    comes back as float / str); joining them as independent tables needs one kind per key pair and common column"""
    a, b = copy.deepcopy(a), copy.deepcopy(b)
    pairs = list(zip(on_a, on_b)) + [(c, c) for c in a["cols"] if c in b["cols"] and c not in on_a]
    for ca, cb in pairs:
        if ca not in a["cols"] or cb not in b["cols"]:
            continue
        ja, jb = a["cols"].index(ca), b["cols"].index(cb)
        ka, kb = a["kinds"][ja], b["kinds"][jb]
        if ka == kb:
            continue
        blank_a = all(r[ja] is None for r in a["rows"])
        blank_b = all(r[jb] is None for r in b["rows"])
        if {ka, kb} <= {"int", "float", "bool"} and not (blank_a or blank_b):
            k = "float" if "float" in (ka, kb) else "int"
        elif blank_a:
            k = kb
        elif blank_b:
            k = ka
        else:
            continue
        for t, j in ((a, ja), (b, jb)):
            t["kinds"][j] = k
            for r in t["rows"]:
                r[j] = P.enc_val(P.dec_val(r[j]), k)
    return a, b


def oracle_C16(case, **opts):
    if not well_formed(case) and not opts.get("include_faulty", False):
        return []
    return _oracle_C16(case, **opts)


def _oracle_C16(case, **opts):
    """every natural_join node with one of the five join types: materialise its two inputs (Pandas evaluation), then
    L.natural_join(R) on each backend vs (a) the nested-loop reference, (b) hand-written native SQL on SQLite"""
    ctx = opts.get("ctx") or Ctx(case)
    if ctx.ops is None:
        return []
    fails = []
    for n in ctx.nodes():
        if n.node_name != "NaturalJoinNode" or n.jointype not in ("INNER", "LEFT", "RIGHT", "FULL", "CROSS"):
            continue
        a, b = ctx.node_input(n, 0), ctx.node_input(n, 1)
        if a is None or b is None:
            continue
        on_a, on_b = list(n.on_a), list(n.on_b)
        a, b = _unify_kinds(a, b, on_a, on_b)
        ref = ref_join(a, b, on_a, on_b, n.jointype)
        try:
            nat = native_sql_join(a, b, on_a, on_b, n.jointype)
            d = P.same_table(ref, nat)
            if d is not None:
                fails.append(fail("C16:reference-vs-native-sql", f"the two references disagree ({n.jointype} on {on_a}/{on_b}): {d}"))
                continue
        except Exception as e:
            nat = None
        tabs = {"L": a, "R": b}
        jops = L.TableDescription(table_name="L", column_names=a["cols"]).natural_join(
            L.TableDescription(table_name="R", column_names=b["cols"]),
            on=[(x, y) for x, y in zip(on_a, on_b)], jointype=n.jointype)
        na = [_col_has_null(a, c) for c in on_a]
        nb = [_col_has_null(b, c) for c in on_b]
        nullkeys = any(na) or any(nb)
        both_null = any(x and y for x, y in zip(na, nb))
        for be, f in (("pandas", P.run_pandas), ("sqlite", P.run_sqlite), ("pg", P.run_pg_on_sqlite), ("polars", P.run_polars)):
            if be not in opts.get("backends", BACKENDS):
                continue
            o = f(jops, tabs)
            if "skip" in o:
                continue
            finding = cand = None
            if be == "pandas" and both_null:
                finding = LIVE_FINDINGS["D18"]
            elif be == "sqlite" and n.jointype == "FULL" and nullkeys:
                finding = LIVE_FINDINGS["D19"]
            elif be == "polars" and n.jointype == "FULL":
                finding = LIVE_FINDINGS["D20"]
            elif be == "polars" and n.jointype == "CROSS":
                finding = LIVE_FINDINGS["D20x"]
            if "err" in o:
                if be == "sqlite" and n.jointype == "FULL" and on_a != on_b:
                    cand = "N13-sqlite-full-join-needs-same-named-keys"
                elif be == "sqlite" and n.jointype == "FULL" and not on_a:
                    cand = "N13-sqlite-full-join-needs-same-named-keys"
                elif be == "pandas" and ((not a["rows"]) != (not b["rows"]) or set(a["cols"]) & set(b["cols"]) - set(on_a)):
                    cand = "N8-pandas3-join-coalesce-assignment-raises"
                if finding == LIVE_FINDINGS["D20x"] or (finding is None):
                    fails.append(fail(f"C16:{be}-raised", f"{n.jointype} join on {on_a}/{on_b}: {o['err']}",
                                      finding if be == "polars" else None, cand))
                else:
                    fails.append(fail(f"C16:{be}-raised", f"{n.jointype} join on {on_a}/{on_b}: {o['err']}", None, cand))
                continue
            d = P.same_table(o["ok"], ref)
            if d is not None:
                if finding is None:
                    if be == "pandas" and n.jointype == "CROSS" and (not a["rows"] or not b["rows"]):
                        cand = "N11-pandas-cross-join-with-empty-side-pads"
                    elif be == "pandas" and any(c in b["cols"] for c in on_a if c not in on_b):
                        cand = "N19-pandas-join-key-also-right-column-leaks-scratch"
                fails.append(fail(f"C16:{be}-vs-reference", f"{n.jointype} join on {on_a}/{on_b}"
                                  f"{' (null keys)' if nullkeys else ''}: {d}", finding, cand))
    return fails


# ------------------------------------------------------------------------------------------------
# C18  row-order / index independence; order_rows sorts and limits
# ------------------------------------------------------------------------------------------------

def _windows_total(ctx):
    """every ordered window of the pipeline has a total order without null order keys on the Pandas-evaluated input"""
    for n in ctx.nodes():
        if n.node_name == "ExtendNode" and n.ordered_windowed_situation:
            t = ctx.node_input(n)
            if t is None:
                return False
            _, total, has_null = _window_layout(t, list(n.partition_by), list(n.order_by), set(n.reverse))
            if not total or has_null:
                return False
        if n.node_name == "OrderRowsNode" and n.limit is not None:
            t = ctx.node_input(n)
            if t is None:
                return False
            _, total, has_null = _window_layout(t, [], list(n.order_columns), set(n.reverse))
            if not total or has_null:
                return False
    return True


def _uses_order_sensitive(ctx):
    for n in ctx.nodes():
        if n.node_name in ("ExtendNode", "ProjectNode"):
            for e in n.ops.values():
                ej = P.term_to_json(e)
                if ej.get("op") in ("first", "last", "any_value", "bfill", "ffill", "shift", "cumsum", "cummax",
                                    "cummin", "cumprod", "cumcount", "_row_number", "_count", "rank") \
                        and not (n.node_name == "ExtendNode" and n.ordered_windowed_situation):
                    return True
    return False


def oracle_C18(case, **opts):
    if not well_formed(case) and not opts.get("include_faulty", False):
        return []
    return _oracle_C18(case, **opts)


def _oracle_C18(case, **opts):
    """permute rows / re-index the inputs and compare multisets per backend; after a final order_rows: sortedness and
    the limit prefix against Python's sorted over the order node's input"""
    ctx = opts.get("ctx") or Ctx(case)
    if ctx.ops is None:
        return []
    fails = []
    rng = random.Random(opts.get("seed", 0))
    in_scope = _windows_total(ctx) and not _uses_order_sensitive(ctx)
    backends = opts.get("backends", ("pandas", "sqlite", "polars"))
    if in_scope:
        perm = {}
        for k, t in case["tables"].items():
            rows = list(t["rows"])
            rng.shuffle(rows)
            perm[k] = dict(t, rows=rows)
        for be in backends:
            base = ctx.run(be)
            f = {"pandas": P.run_pandas, "sqlite": P.run_sqlite, "polars": P.run_polars, "pg": P.run_pg_on_sqlite}[be]
            o = f(ctx.ops, perm)
            if "ok" in base and "ok" in o:
                d = P.same_table(base["ok"], o["ok"])
                if d is not None:
                    fd, cd = attribute(ctx, (be, be), "rows")
                    fails.append(fail(f"C18:{be}-row-permutation", d, None, cd))
            elif ("err" in base) != ("err" in o) and be != "polars":
                fails.append(fail(f"C18:{be}-row-permutation-raise", f"original {base.get('err', 'ok')} permuted {o.get('err', 'ok')}"))
        # non-default index on the Pandas frames (shuffled, duplicated, string index)
        base = ctx.run("pandas")
        if "ok" in base:
            try:
                with warnings.catch_warnings():
                    warnings.simplefilter("ignore")
                    frames = P.tables_to_pandas(case["tables"])
                    import pandas as _pd
                    for mode in ("shuffled", "duplicated", "string", "range_reversed", "range_shifted", "range_step"):
                        fr2 = {}
                        for k, d in frames.items():
                            d = d.copy()
                            n = d.shape[0]
                            if mode == "range_reversed":
                                # a RangeIndex that is not 0..n-1 (what d.iloc[::-1] carries): same rows, other labels
                                d.index = _pd.RangeIndex(n - 1, -1, -1)
                                fr2[k] = d
                                continue
                            if mode == "range_shifted":
                                d.index = _pd.RangeIndex(100, 100 + n)
                                fr2[k] = d
                                continue
                            if mode == "range_step":
                                d.index = _pd.RangeIndex(0, 3 * n, 3)
                                fr2[k] = d
                                continue
                            if mode == "shuffled":
                                idx = list(range(n))
                                rng.shuffle(idx)
                            elif mode == "duplicated":
                                idx = [7] * n
                            else:
                                idx = ["r%d" % (i % 2) for i in range(n)]
                            d.index = idx
                            fr2[k] = d
                        try:
                            res = {"ok": P.frame_to_table(ctx.ops.eval(fr2))}
                        except Exception as e:
                            res = {"err": type(e).__name__}
                        if "err" in res:
                            fails.append(fail("C18:pandas-index-raise", f"{mode} index: {res['err']}"))
                        else:
                            d = P.same_table(base["ok"], res["ok"])
                            if d is not None:
                                fails.append(fail("C18:pandas-index", f"{mode} index: {d}"))
            except Exception as e:
                fails.append(fail("C18:ORACLE", repr(e)))
    # sortedness / limit prefix
    n = ctx.ops
    if n.node_name == "OrderRowsNode":
        for be in backends:
            src, out = ctx.run(be, n.sources[0]), ctx.run(be)
            if "ok" not in src or "ok" not in out:
                continue
            tin, tout = src["ok"], out["ok"]
            order, reverse = list(n.order_columns), set(n.reverse)
            if not all(c in tin["cols"] for c in order) or not all(c in tout["cols"] for c in tin["cols"]):
                continue
            layout, total, has_null = _window_layout(tin, [], order, reverse)
            oidx = [tout["cols"].index(c) for c in order]
            # sortedness of the output by the non-null order keys (null placement is not claimed here: D21)
            keys = []
            for r in tout["rows"]:
                if any(r[j] is None for j in oidx):
                    keys = None
                    break
                keys.append([_sort_key(r[j], c in reverse) for c, j in zip(order, oidx)])
            if keys is not None and any(keys[i] > keys[i + 1] for i in range(len(keys) - 1)):
                fails.append(fail(f"C18:{be}-not-sorted", f"order_rows({order}, reverse={sorted(reverse)}): "
                                  f"{[P._show_row([r[j] for j in oidx]) for r in tout['rows']][:6]}"))
                continue
            expect_n = len(tin["rows"]) if n.limit is None else min(n.limit, len(tin["rows"]))
            if len(tout["rows"]) != expect_n:
                fails.append(fail(f"C18:{be}-limit-count", f"limit {n.limit}: {len(tin['rows'])} in, {len(tout['rows'])} out"))
                continue
            if total and not has_null:
                want = [tin["rows"][i] for i in layout[()]][:expect_n]
                perm = [tin["cols"].index(c) for c in tout["cols"]]
                want_t = {"cols": tout["cols"], "kinds": tout["kinds"], "rows": [[r[j] for j in perm] for r in want]}
                d = P.same_table(want_t, tout, ordered=True, col_order=True)
                if d is not None:
                    fails.append(fail(f"C18:{be}-order-limit-prefix", d))
            elif has_null and n.limit is not None:
                pass
    return fails


# ------------------------------------------------------------------------------------------------
# stepwise construction helpers (C06 C07 C26)
# ------------------------------------------------------------------------------------------------

def flatten_main(pipe):
    """-> (root table name | None, [(step, def id defined right after this step | None) ..], def id at the root | None)"""
    if "ref" in pipe and "steps" not in pipe:
        return None, [], None
    if "table" in pipe:
        root, steps, rootdef = pipe["table"], [], None
    else:
        root, steps, rootdef = flatten_main(pipe["src"])
        if root is None:
            return None, [], None
    mine = list(pipe.get("steps", []))
    out = list(steps) + [(s, None) for s in mine]
    if "def" in pipe:
        if out:
            out[-1] = (out[-1][0], pipe["def"])
        else:
            rootdef = pipe["def"]
    return root, out, rootdef


def _has_ref(x):
    return '"ref"' in json.dumps(x)


def _apply(ops, step, builder):
    with warnings.catch_warnings():
        warnings.simplefilter("ignore")
        return P.apply_step(ops, step, builder.pipe)


def _try(f):
    try:
        return f(), None
    except Exception as e:
        return None, type(e).__name__


def _eval_pandas(ops, frames):
    try:
        with warnings.catch_warnings():
            warnings.simplefilter("ignore")
            return {"ok": P.frame_to_table(ops.eval(frames))}
    except Exception as e:
        return {"err": type(e).__name__}


# ------------------------------------------------------------------------------------------------
# C06  chained == step by step on materialised results; same accept / reject
# ------------------------------------------------------------------------------------------------

def oracle_C06(case, **opts):
    """for every step of the main chain: chained construction + evaluation vs the raw step applied to a fresh table
    description of the materialised prefix; and accept/reject parity (same error class) of the two constructions"""
    root, steps, rootdef = flatten_main(case["pipe"])
    if root is None:
        return []
    fails = []
    b = P.Builder(case["tables"])
    prefix, err = _try(lambda: b.table(root))
    if err:
        return []
    if rootdef is not None:
        b.defs[rootdef] = prefix
    frames = None
    mname = "_materialised"
    for i, (step, d) in enumerate(steps):
        chained, e1 = _try(lambda: _apply(prefix, step, b))
        rawsrc = L.TableDescription(table_name=mname, column_names=list(prefix.column_names))
        raw, e2 = _try(lambda: _apply(rawsrc, step, b))
        if (e1 is None) != (e2 is None) or (e1 != e2):
            fails.append(fail("C06:accept-parity", f"step {i} {json.dumps(step, ensure_ascii=False)[:200]} after "
                              f"{prefix.node_name}: chained -> {e1 or 'accepted'}, on the materialised table -> {e2 or 'accepted'}"))
        if e1 is not None:
            break
        if e2 is None:
            if frames is None:
                with warnings.catch_warnings():
                    warnings.simplefilter("ignore")
                    frames = P.tables_to_pandas(case["tables"])
            m = None
            try:
                with warnings.catch_warnings():
                    warnings.simplefilter("ignore")
                    m = prefix.eval(frames)
            except Exception:
                m = None
            if m is not None:
                r1 = _eval_pandas(chained, frames)
                fr2 = dict(frames)
                fr2[mname] = m
                r2 = _eval_pandas(raw, fr2)
                if ("err" in r1) != ("err" in r2):
                    fails.append(fail("C06:raise-parity", f"step {i} {step['call']}: chained {r1.get('err', 'ok')}, "
                                      f"step-by-step {r2.get('err', 'ok')}"))
                elif "ok" in r1:
                    ordered = step["call"] == "order_rows"
                    dd = P.same_table(r1["ok"], r2["ok"])
                    if dd is None and ordered:
                        t = r1["ok"]
                        idx = [t["cols"].index(c) for c in step["cols"] if c in t["cols"]]
                        ks = [json.dumps([r[j] for j in idx]) for r in t["rows"]]
                        if len(set(ks)) == len(ks):
                            dd = P.same_table(r1["ok"], r2["ok"], ordered=True)
                    if dd is not None:
                        fails.append(fail("C06:chained-vs-stepwise", f"step {i} {json.dumps(step, ensure_ascii=False)[:160]} "
                                          f"after {prefix.node_name}: {dd}"))
        prefix = chained
        if d is not None:
            b.defs[d] = prefix
        if fails and not opts.get("all", False):
            break
    return fails


# ------------------------------------------------------------------------------------------------
# C07  composition
# ------------------------------------------------------------------------------------------------

def _split_pipes(case, ks):
    """cut the main chain at the indexes ks: -> list of real pipelines [a, b, c..]; a over the root table, the others
    over single fresh tables `_mid1`, `_mid2`.. whose columns are the previous part's declared columns.  None when the
    later parts are not unary chains without shared references."""
    root, steps, rootdef = flatten_main(case["pipe"])
    if root is None:
        return None
    steps = [s for s, _ in steps]
    parts = []
    cuts = [0] + list(ks) + [len(steps)]
    b = P.Builder(case["tables"])
    cur = b.table(root)
    for pi in range(len(cuts) - 1):
        seg = steps[cuts[pi]:cuts[pi + 1]]
        if pi > 0:
            if any(("b" in s) for s in seg):
                return None
            cur = L.TableDescription(table_name="_mid%d" % pi, column_names=list(parts[-1].column_names))
        elif _has_ref(seg):
            return None
        for s in seg:
            cur = _apply(cur, s, b)
        parts.append(cur)
    return parts


def oracle_C07(case, **opts):
    """(a >> b).eval(d) vs b.eval(a.eval(d)); eval with a map of pipelines; DataOpArrow composition, dom/cod;
    associativity on triples.  Any raise of a composition whose boundary columns match is a failure."""
    root, steps, _ = flatten_main(case["pipe"])
    if root is None or len(steps) < 2:
        return []
    rng = random.Random(opts.get("seed", 0))
    n = len(steps)
    fails = []
    try:
        k = rng.randrange(1, n)
        parts = _split_pipes(case, [k])
    except Exception:
        return []
    if parts is None:
        return []
    a, b = parts
    with warnings.catch_warnings():
        warnings.simplefilter("ignore")
        frames = P.tables_to_pandas(case["tables"])
    ra = None
    try:
        with warnings.catch_warnings():
            warnings.simplefilter("ignore")
            ra = a.eval(frames)
    except Exception:
        return []
    seq = _eval_pandas(b, {"_mid1": ra})
    c, e = _try(lambda: a >> b)
    if e:
        return [fail("C07:compose-raised", f"a >> b with b = {[s['call'] for s, _ in steps[k:]]}: {e}")]
    rc = _eval_pandas(c, frames)
    if ("err" in rc) != ("err" in seq):
        fails.append(fail("C07:compose-raise-parity", f"(a >> b).eval: {rc.get('err', 'ok')}; sequential: {seq.get('err', 'ok')}"))
    elif "ok" in rc:
        d = P.same_table(rc["ok"], seq["ok"])
        if d is not None:
            fails.append(fail("C07:compose-vs-sequential", f"cut at {k}, b = {[s['call'] for s, _ in steps[k:]]}: {d}"))
    # eval with a map of pipelines
    c2, e2 = _try(lambda: b.eval({"_mid1": a}))
    if e2:
        fails.append(fail("C07:eval-map-raised", e2))
    elif not isinstance(c2, L.vr.ViewRepresentation):
        fails.append(fail("C07:eval-map-type", type(c2).__name__))
    else:
        r2 = _eval_pandas(c2, frames)
        if "ok" in r2 and "ok" in seq:
            d = P.same_table(r2["ok"], seq["ok"])
            if d is not None:
                fails.append(fail("C07:eval-map-vs-sequential", d))
    # arrows
    try:
        from data_algebra.arrow import DataOpArrow
        if len(a.get_tables()) == 1:
            A, B = DataOpArrow(a), DataOpArrow(b)
            C, e3 = _try(lambda: A >> B)
            if e3:
                fails.append(fail("C07:arrow-compose-raised", e3))
            else:
                r3 = _eval_pandas(C.pipeline, frames)
                if "ok" in r3 and "ok" in seq:
                    d = P.same_table(r3["ok"], seq["ok"])
                    if d is not None:
                        fails.append(fail("C07:arrow-vs-sequential", d))
                dom_cols = list(C.dom().pipeline.column_names)
                cod_cols = list(C.cod().pipeline.column_names)
                if set(dom_cols) != set(A.incoming_columns) or sorted(cod_cols) != sorted(b.column_names):
                    fails.append(fail("C07:dom-cod", f"dom {dom_cols} vs a's input {A.incoming_columns}; cod {cod_cols} vs "
                                      f"b's output {list(b.column_names)}"))
    except Exception as ex:
        fails.append(fail("C07:ORACLE", repr(ex)))
    # associativity
    if n >= 3 and not fails:
        try:
            k1 = rng.randrange(1, n - 1)
            k2 = rng.randrange(k1 + 1, n)
            tp = _split_pipes(case, [k1, k2])
        except Exception:
            tp = None
        if tp is not None:
            x, y, z = tp
            l, e4 = _try(lambda: (x >> y) >> z)
            r, e5 = _try(lambda: x >> (y >> z))
            if e4 or e5:
                fails.append(fail("C07:assoc-raised", f"(a>>b)>>c: {e4 or 'ok'}; a>>(b>>c): {e5 or 'ok'}"))
            else:
                if not (l == r):
                    fails.append(fail("C07:assoc-structural", "(a>>b)>>c != a>>(b>>c)"))
                rl, rr = _eval_pandas(l, frames), _eval_pandas(r, frames)
                if "ok" in rl and "ok" in rr:
                    d = P.same_table(rl["ok"], rr["ok"])
                    if d is not None:
                        fails.append(fail("C07:assoc-results", d))
    return fails


# ------------------------------------------------------------------------------------------------
# C04  SQL options never change results
# ------------------------------------------------------------------------------------------------

def _exec_texts(model, texts, tables, pg=False):
    """execute distinct SQL texts on one connection; -> {text: outcome}"""
    conn = P._pg_standin_conn() if pg else P._sqlite_conn(model)
    out = {}
    try:
        with warnings.catch_warnings():
            warnings.simplefilter("ignore")
            h = model.db_handle(conn)
            P._insert_tables(h, tables)
            for t in texts:
                if t in out:
                    continue
                if pg and "infinity'" in t:
                    out[t] = {"skip": "infinity"}
                    continue
                try:
                    out[t] = {"ok": P.frame_to_table(h.read_query(t))}
                except Exception as e:
                    m = P._SKIP_RE.search(str(e)) if pg else None
                    out[t] = {"skip": m.group(0)} if m else {"err": type(e).__name__, "msg": str(e)[-120:]}
    finally:
        conn.close()
    return out


def _has_shared_extend(ctx):
    cnt = {}
    for nd in P.tree_nodes(ctx.tree):
        if nd["node"] == "extend":
            cnt[nd["id"]] = cnt.get(nd["id"], 0) + 1
    return any(v > 1 for v in cnt.values())


def oracle_C04(case, **opts):
    if not well_formed(case) and not opts.get("include_faulty", False):
        return []
    return _oracle_C04(case, **opts)


def _oracle_C04(case, **opts):
    """every combination use_with x use_cte_elim x annotate x initial_commas x sql_indent, x extend merging on/off, on
    SQLite and on the PostgreSQL dialect (stand-in engine): all results equal"""
    ctx = opts.get("ctx") or Ctx(case)
    if ctx.ops is None:
        return []
    fails = []
    if opts.get("full", False):
        combos = list(itertools.product([True, False], [False, True], [True, False], [False, True], [" ", "    "]))
    else:   # all semantic combinations x three formatting variants (24 texts per dialect instead of 64)
        combos = [(uw, ce, an, ic, ind) for uw in (True, False) for ce in (False, True)
                  for an, ic, ind in ((True, False, " "), (False, True, "    "), (True, True, " "))]
    for dialect in opts.get("dialects", ("sqlite", "pg")):
        texts = []
        gen_err = {}
        for merges in (True, False):
            model = L.SQLite.SQLiteModel() if dialect == "sqlite" else L.PostgreSQL.PostgreSQLModel()
            model.allow_extend_merges = merges
            for uw, ce, an, ic, ind in combos:
                fo = L.SQLFormatOptions(use_with=uw, use_cte_elim=ce, annotate=an, initial_commas=ic, sql_indent=ind,
                                        warn_on_method_support=False, warn_on_novel_methods=False)
                label = (merges, uw, ce, an, ic, len(ind))
                try:
                    with warnings.catch_warnings():
                        warnings.simplefilter("ignore")
                        texts.append((label, model.to_sql(ctx.ops, sql_format_options=fo)))
                except Exception as e:
                    gen_err[label] = type(e).__name__
        if gen_err and texts:
            cand = None
            fails.append(fail(f"C04:{dialect}-to_sql-raise-parity", f"to_sql raised for {len(gen_err)} of {len(gen_err) + len(texts)} "
                              f"option combinations, e.g. (merges,use_with,cte_elim,annotate,initial_commas,indent)="
                              f"{sorted(gen_err)[0]}: {sorted(gen_err.items())[0][1]}", None, cand))
        if not texts:
            continue
        model = L.SQLite.SQLiteModel() if dialect == "sqlite" else L.PostgreSQL.PostgreSQLModel()
        outs = _exec_texts(model, [t for _, t in texts], ctx.tables, pg=(dialect == "pg"))
        base_label, base_text = texts[0]
        base = outs[base_text]
        total = "ok" in base and final_order_is_total(ctx, base["ok"])
        bad = []
        for label, t in texts[1:]:
            o = outs[t]
            if "skip" in o or "skip" in base:
                continue
            if ("err" in o) != ("err" in base):
                bad.append((label, f"{base.get('err', 'ok')} vs {o.get('err', 'ok')}"))
                continue
            if "ok" in o:
                d = P.same_table(base["ok"], o["ok"], ordered=total)
                if d is not None:
                    bad.append((label, d))
        if bad:
            finding = None
            if dialect == "pg" and _has_shared_extend(ctx) and all(lb[1] and lb[2] for lb, _ in bad):
                finding = LIVE_FINDINGS["D25"]
            fails.append(fail(f"C04:{dialect}-options-change-result",
                              f"{len(bad)} of {len(texts)} option combinations differ from {base_label}; first "
                              f"(merges,use_with,cte_elim,annotate,initial_commas,indent)={bad[0][0]}: {bad[0][1]}", finding))
    return fails


# ------------------------------------------------------------------------------------------------
# C10  columns_used soundness
# ------------------------------------------------------------------------------------------------

def _perturb_column(rng, table, col, mode):
    j = table["cols"].index(col)
    k = table["kinds"][j]
    pool = {"int": [7, -3, 0, 11], "float": [7.5, -3.5, 0.25], "str": ["zz", "", "q'q"], "bool": [True, False]}[k]
    rows = []
    for i, r in enumerate(table["rows"]):
        r = list(r)
        if mode == "nulls":
            r[j] = None
        elif mode == "reverse":
            r[j] = table["rows"][len(table["rows"]) - 1 - i][j]
        else:
            r[j] = P.enc_val(rng.choice(pool), k)
        rows.append(r)
    return dict(table, rows=rows)


def oracle_C10(case, **opts):
    if not well_formed(case) and not opts.get("include_faulty", False):
        return []
    return _oracle_C10(case, **opts)


def _oracle_C10(case, **opts):
    """perturb every input column that columns_used() does not report (new values / nulls / reversed, kind kept) and
    compare results on Pandas and SQLite; narrow the table descriptions and the inputs to the reported columns"""
    ctx = opts.get("ctx") or Ctx(case)
    if ctx.ops is None:
        return []
    fails = []
    rng = random.Random(opts.get("seed", 0))
    try:
        used = {k: set(v) for k, v in ctx.ops.columns_used().items()}
    except Exception as e:
        return [fail("C10:columns_used-raised", type(e).__name__)]
    unreported = {k: [c for c in t["cols"] if c not in used.get(k, set())] for k, t in case["tables"].items()
                  if k in used}
    if any(unreported.values()):
        for mode in ("values", "nulls", "reverse"):
            t2 = dict(case["tables"])
            for k, cols in unreported.items():
                for c in cols:
                    t2[k] = _perturb_column(rng, t2[k], c, mode)
            for be, f in (("pandas", P.run_pandas), ("sqlite", P.run_sqlite)):
                base = ctx.run(be)
                o = f(ctx.ops, t2)
                if ("err" in base) != ("err" in o):
                    fails.append(fail(f"C10:{be}-unreported-column-raise", f"perturbing {unreported} ({mode}): "
                                      f"{base.get('err', 'ok')} -> {o.get('err', 'ok')}"))
                elif "ok" in base:
                    d = P.same_table(base["ok"], o["ok"])
                    if d is not None:
                        finding = None
                        if any(n.node_name == "ExtendNode" and n.ordered_windowed_situation for n in ctx.nodes()) \
                                and not _windows_total(ctx):
                            finding = LIVE_FINDINGS["D30"]
                        fails.append(fail(f"C10:{be}-unreported-column-matters", f"perturbing {unreported} ({mode}): {d}", finding))
            if fails:
                break
    # narrowing: rebuild on table descriptions restricted to the reported columns
    narrow = {}
    for k, t in case["tables"].items():
        if k not in used:
            narrow[k] = t
            continue
        keep = [j for j, c in enumerate(t["cols"]) if c in used[k]]
        if not keep:
            return fails
        narrow[k] = {"cols": [t["cols"][j] for j in keep], "kinds": [t["kinds"][j] for j in keep],
                     "rows": [[r[j] for j in keep] for r in t["rows"]]}
    if any(len(narrow[k]["cols"]) < len(case["tables"][k]["cols"]) for k in narrow):
        nops, nerr = P.build_or_error(case["pipe"], narrow)
        text = json.dumps(case["pipe"])
        mentioned = any(re.search(r'(?<![A-Za-z0-9_])' + re.escape(c) + r'(?![A-Za-z0-9_])', text)
                        for k in unreported for c in unreported[k])
        if nerr is not None:
            if not mentioned:
                fails.append(fail("C10:narrowed-build-raised", f"narrowing to {dict((k, sorted(v)) for k, v in used.items())}: {nerr}"))
        else:
            base = ctx.run("pandas")
            o = P.run_pandas(nops, narrow)
            if "ok" in base and "ok" in o:
                d = P.same_table(base["ok"], o["ok"])
                if d is not None:
                    fails.append(fail("C10:narrowed-result", d))
            elif ("err" in base) != ("err" in o):
                fails.append(fail("C10:narrowed-raise", f"{base.get('err', 'ok')} -> {o.get('err', 'ok')}"))
    return fails


# ------------------------------------------------------------------------------------------------
# C11  == implies same results and same SQL; reflexive; symmetric
# ------------------------------------------------------------------------------------------------

def _dialect_models():
    import data_algebra.BigQuery
    import data_algebra.MySQL
    import data_algebra.SparkSQL
    return [L.SQLite.SQLiteModel(), L.PostgreSQL.PostgreSQLModel(), data_algebra.BigQuery.BigQueryModel(),
            data_algebra.MySQL.MySQLModel(), data_algebra.SparkSQL.SparkSQLModel()]


def _sql_texts(ops):
    out = {}
    fo = L.SQLFormatOptions(annotate=False, warn_on_method_support=False, warn_on_novel_methods=False)
    for m in _dialect_models():
        try:
            with warnings.catch_warnings():
                warnings.simplefilter("ignore")
                out[str(m)] = m.to_sql(ops, sql_format_options=fo)
        except Exception as e:
            out[str(m)] = "RAISED " + type(e).__name__
    return out


def _retype_literal(text, rng):
    """change the type of one numeric literal in an expression text: 1 -> 1.0 / True, 2.0 -> 2"""
    toks = list(re.finditer(r"(?<![A-Za-z0-9_.'\"])(\d+\.\d+|\d+)(?![A-Za-z0-9_.])", text))
    if not toks:
        return None
    m = rng.choice(toks)
    lit = m.group(1)
    if "." in lit:
        f = float(lit)
        new = str(int(f)) if f == int(f) else None
    else:
        new = rng.choice([lit + ".0"] + (["True"] if lit == "1" else []) + (["False"] if lit == "0" else []))
    if new is None:
        return None
    return text[:m.start(1)] + new + text[m.end(1):]


def mutants_of(case, rng, limit=14):
    """single-argument mutants of the main chain's steps (JSON level) -> list of (description, case)"""
    root, steps, _ = flatten_main(case["pipe"])
    out = []
    if root is None:
        return out

    def with_step(i, new):
        c = copy.deepcopy(case)
        # locate the i-th main step inside the nested pipe
        def chain(p):
            if "src" in p:
                yield from chain(p["src"])
            yield p
        k = i
        for seg in chain(c["pipe"]):
            ss = seg.get("steps", [])
            if k < len(ss):
                ss[k] = new
                return c
            k -= len(ss)
        return None

    for i, (s, _) in enumerate(steps):
        call = s["call"]
        muts = []
        if call in ("extend", "project") and s.get("ops"):
            if len(s["ops"]) > 1:
                muts.append(("op key order", dict(s, ops=list(reversed(s["ops"])))))
            j = rng.randrange(len(s["ops"]))
            t2 = _retype_literal(s["ops"][j][1], rng)
            if t2:
                ops2 = [list(o) for o in s["ops"]]
                ops2[j][1] = t2
                muts.append(("literal type", dict(s, ops=ops2)))
        if call == "extend" and s.get("reverse") is not None:
            muts.append(("reverse dropped", dict(s, reverse=None)))
        if call == "extend" and s.get("order_by") and len(s["order_by"]) > 1:
            muts.append(("order_by reversed", dict(s, order_by=list(reversed(s["order_by"])))))
        if call == "extend" and isinstance(s.get("partition_by"), list) and len(s["partition_by"]) > 1:
            muts.append(("partition_by reversed", dict(s, partition_by=list(reversed(s["partition_by"])))))
        if call == "select_rows":
            t2 = _retype_literal(s["expr"], rng)
            if t2:
                muts.append(("literal type", dict(s, expr=t2)))
        if call == "order_rows":
            muts.append(("limit", dict(s, limit=(None if s.get("limit") is not None else 3))))
            muts.append(("reverse", dict(s, reverse=(None if s.get("reverse") else [s["cols"][0]]))))
            if len(s["cols"]) > 1:
                muts.append(("order columns reversed", dict(s, cols=list(reversed(s["cols"])),
                                                            reverse=s.get("reverse"))))
        if call == "natural_join":
            for jt in ("inner", "left", "right", "full"):
                if jt.upper() != s["jointype"].upper() and s["jointype"].upper() != "CROSS":
                    muts.append(("jointype " + jt, dict(s, jointype=jt)))
                    break
        if call == "concat_rows":
            muts.append(("a_name", dict(s, a_name=s.get("a_name", "a") + "x")))
        if call == "select_columns" and len(s["cols"]) > 1:
            muts.append(("select order", dict(s, cols=list(reversed(s["cols"])))))
        if call == "convert_records":
            for key in ("blocks_out", "blocks_in"):
                sp = s.get(key)
                if sp is not None:
                    sp2 = copy.deepcopy(sp)
                    rows = sp2["control"]["rows"]
                    rows[0][0] = {"s": rows[0][0]["s"] + "_x"}
                    muts.append((key + " control table entry", dict(s, **{key: sp2})))
        for desc, new in muts:
            c = with_step(i, new)
            if c is not None:
                out.append((f"step {i} {call}: {desc}", c))
    # table description with another column list (same table name)
    for name, t in case["tables"].items():
        c = copy.deepcopy(case)
        c["tables"][name] = {"cols": t["cols"] + ["zz_extra"], "kinds": t["kinds"] + ["int"],
                             "rows": [r + [{"i": 1}] for r in t["rows"]]}
        out.append((f"table {name}: extra column", c))
        break
    rng.shuffle(out)
    return out[:limit]


def oracle_C11(case, **opts):
    """p == p; for single-argument mutants q of p: (p == q) == (q == p); and if p == q then equal results (Pandas) and
    identical to_sql text (annotate=False) in all five dialects"""
    ctx = opts.get("ctx") or Ctx(case)
    if ctx.ops is None:
        return []
    p = ctx.ops
    fails = []
    rng = random.Random(opts.get("seed", 0))
    try:
        if not (p == p):
            fails.append(fail("C11:not-reflexive", "p == p is False"))
        p2 = P.build(case)
        if not (p == p2) or not (p2 == p):
            fails.append(fail("C11:rebuild-not-equal", "two builds of the same calls are not =="))
    except Exception as e:
        fails.append(fail("C11:eq-raised", type(e).__name__))
    psql = None
    for desc, mc in mutants_of(case, rng):
        q, err = P.build_or_error(mc)
        if q is None:
            continue
        try:
            e1, e2 = (p == q), (q == p)
        except Exception as e:
            fails.append(fail("C11:eq-raised", f"{desc}: {type(e).__name__}", None,
                              "N25-eq-raises-on-list-literals-of-different-types" if "literal type" in desc else None))
            continue
        if bool(e1) != bool(e2):
            fails.append(fail("C11:not-symmetric", f"{desc}: p==q {e1}, q==p {e2}"))
        if not e1:
            continue
        finding = None
        ra, rb = ctx.run("pandas"), P.run_pandas(q, mc["tables"])
        if ("err" in ra) != ("err" in rb):
            fails.append(fail("C11:equal-but-raise-differs", f"{desc}: {ra.get('err', 'ok')} vs {rb.get('err', 'ok')}", finding))
        elif "ok" in ra:
            d = P.same_table(ra["ok"], rb["ok"], ordered=final_order_is_total(ctx, ra["ok"]))
            if d is not None:
                fails.append(fail("C11:equal-but-results-differ", f"{desc}: {d}", finding))
        if psql is None:
            psql = _sql_texts(p)
        qsql = _sql_texts(q)
        diff = [k for k in psql if psql[k] != qsql[k]]
        if diff:
            fails.append(fail("C11:equal-but-sql-differs", f"{desc}: dialects {diff}", finding,
                              None if finding else "N20-eq-ignores-" + desc.split(": ")[1].replace(" ", "-")))
    return fails


# ------------------------------------------------------------------------------------------------
# C12  printed pipelines rebuild
# ------------------------------------------------------------------------------------------------

def oracle_C12(case, **opts):
    """eval_da_ops(repr(ops)), to_python(pretty=False / True) and pickle round trip: each == the original and
    evaluates identically on Pandas"""
    ctx = opts.get("ctx") or Ctx(case)
    if ctx.ops is None:
        return []
    from data_algebra.expr_parse_fn import eval_da_ops
    fails = []
    p = ctx.ops
    base = ctx.run("pandas")
    variants = [("pickle", lambda: pickle.loads(pickle.dumps(p))),
                ("to_python(pretty=False)", lambda: eval_da_ops(p.to_python(pretty=False), data_model_map=None))]
    if opts.get("pretty", True):
        variants.append(("repr", lambda: eval_da_ops(repr(p), data_model_map=None)))
    for name, f in variants:
        try:
            with warnings.catch_warnings():
                warnings.simplefilter("ignore")
                q = f()
        except Exception as e:
            fails.append(fail(f"C12:{name}-raised", type(e).__name__ + ": " + str(e)[:120]))
            continue
        try:
            eq = (p == q) and (q == p)
        except Exception as e:
            eq = False
        if not eq:
            t1, t2 = P.to_tree(p), P.to_tree(q)
            where = ""
            for n1, n2 in zip(P.tree_nodes(t1), P.tree_nodes(t2)):
                k1 = {k: v for k, v in n1.items() if k not in ("id", "src", "a", "b")}
                k2 = {k: v for k, v in n2.items() if k not in ("id", "src", "a", "b")}
                if k1 != k2:
                    where = f"{json.dumps(k1, ensure_ascii=False)[:200]} vs {json.dumps(k2, ensure_ascii=False)[:200]}"
                    break
            fails.append(fail(f"C12:{name}-not-equal", where))
        r = P.run_pandas(q, case["tables"])
        if ("err" in base) != ("err" in r):
            fails.append(fail(f"C12:{name}-raise-differs", f"{base.get('err', 'ok')} vs {r.get('err', 'ok')}"))
        elif "ok" in base:
            d = P.same_table(base["ok"], r["ok"], ordered=final_order_is_total(ctx, base["ok"]))
            if d is not None:
                fails.append(fail(f"C12:{name}-results-differ", d))
    return fails


# ------------------------------------------------------------------------------------------------
# C19  inputs unchanged, repeatable
# ------------------------------------------------------------------------------------------------

def _snapshot(frames):
    snap = {}
    for k, d in frames.items():
        snap[k] = (list(d.columns), [str(t) for t in d.dtypes], list(d.index), P.frame_to_table(d), id(d))
    return snap


def _snap_diff(s1, frames):
    s2 = _snapshot(frames)
    for k in s1:
        a, b = s1[k], s2[k]
        if a[0] != b[0]:
            return f"table {k}: columns {a[0]} -> {b[0]}"
        if a[1] != b[1]:
            return f"table {k}: dtypes {a[1]} -> {b[1]}"
        if a[2] != b[2]:
            return f"table {k}: index changed"
        if a[3] != b[3]:
            return f"table {k}: values changed"
    return None


def oracle_C19(case, **opts):
    """deep snapshot of every input frame before eval / transform / ex / >> (Pandas) and eval (Polars), compared after;
    evaluate twice and compare"""
    ctx = opts.get("ctx") or Ctx(case)
    if ctx.ops is None:
        return []
    fails = []
    p = ctx.ops
    with warnings.catch_warnings():
        warnings.simplefilter("ignore")
        frames = P.tables_to_pandas(case["tables"])
        snap = _snapshot(frames)
        ways = [("eval", lambda: p.eval(frames))]
        if len(frames) == 1 and len(p.get_tables()) == 1:
            only = list(frames.values())[0]
            ways.append(("transform", lambda: p.transform(only)))
            ways.append((">>", lambda: only >> p))
        results = []
        for name, f in ways:
            try:
                r = f()
                results.append((name, P.frame_to_table(r)))
            except Exception as e:
                results.append((name, None))
            d = _snap_diff(snap, frames)
            if d:
                fails.append(fail(f"C19:pandas-{name}-modified-input", d))
                frames = P.tables_to_pandas(case["tables"])
                snap = _snapshot(frames)
        # ex(): tables carry their data
        try:
            import data_algebra.data_ops as dops
            tabs = {k: dops.describe_table(d, table_name=k, keep_all=True) for k, d in frames.items()}
            bx = P.Builder(case["tables"])
            bx.table_objs = dict(tabs)
            px = bx.pipe(case["pipe"])
            rx = px.ex()
            results.append(("ex", P.frame_to_table(rx)))
            d = _snap_diff(snap, frames)
            if d:
                fails.append(fail("C19:pandas-ex-modified-input", d))
        except Exception:
            pass
        # repeatability
        try:
            r1 = P.frame_to_table(p.eval(frames))
            r2 = P.frame_to_table(p.eval(frames))
            if r1 != r2:
                d = P.same_table(r1, r2, ordered=True, col_order=True)
                if d:
                    fails.append(fail("C19:pandas-not-repeatable", d))
        except Exception:
            pass
        base = next((t for n, t in results if n == "eval"), None)
        for name, t in results:
            if base is not None and t is not None and name != "eval":
                d = P.same_table(base, t)
                if d:
                    fails.append(fail(f"C19:{name}-differs-from-eval", d))
        # Polars
        if opts.get("polars", True):
            try:
                pf = P.tables_to_polars(case["tables"])
                before = {k: (d.schema, d.rows()) for k, d in pf.items()}
                try:
                    p.eval(pf)
                except BaseException as e:
                    if isinstance(e, (KeyboardInterrupt, SystemExit)):
                        raise
                for k, d in pf.items():
                    if (d.schema, d.rows()) != before[k]:
                        fails.append(fail("C19:polars-eval-modified-input", f"table {k}"))
            except Exception:
                pass
    return fails


# ------------------------------------------------------------------------------------------------
# C15  renaming equivariance
# ------------------------------------------------------------------------------------------------

# The reserved set, three views of it (kept consistent with `namespace Reserved` of lean/DAVerif/Spec/Rename.lean):
#   (a) the Lean guard NoReserved:  RESERVED_EXACT_COLUMNS / RESERVED_COLUMN_PREFIXES (+digits) / RESERVED_SUFFIXES for
#       columns, RESERVED_TABLE_PREFIXES (+digits) for tables  ->  is_reserved_col / is_reserved_table
#   (b) concrete names the oracle DRAWS its "reserved" target names from: RESERVED_COLUMNS, RESERVED_TABLES (these also
#       hold internal names that were probed harmless - `a`, `b`, `table_values`, `join_source_*_0`,
#       `_da_temp_zero_column` - a failure under such a name is NOT excused)
#   (c) the ATTRIBUTION table C15_SCRATCH: which executor uses which scratch name in which step (every row confirmed
#       harmful on the real code, notes/C15_design.md); only a hit in this table makes a failure a known finding
RESERVED_EXACT_COLUMNS = ["_data_algebra_temp_g", "_data_algebra_orig_index", "_data_table_temp_col",
                          "data_algebra_temp_merge_col", "_da_temp_zero_column", "_da_temp_one_column",
                          "_da_extend_temp_partition_column", "_da_project_temp_group_by_column", "_da_count_tmp"]
RESERVED_COLUMN_PREFIXES = ["data_algebra_extend_temp_col_", "data_algebra_project_temp_col_",
                            "_da_extend_temp_v_column_", "_da_project_temp_v_column_"]
RESERVED_SUFFIXES = ["_tmp_right_col", "_da_join_tmp_key", "_da_right_tmp", "_da_left_tmp"]
RESERVED_TABLE_PREFIXES = ["table_reference_", "extend_", "project_", "select_rows_", "order_rows_", "map_columns_",
                           "rename_", "natural_join_", "join_source_left_", "join_source_right_", "concat_rows_",
                           "convert_records_blocks_in_", "convert_records_blocks_out_"]
RESERVED_COLUMNS = RESERVED_EXACT_COLUMNS + [p + "0" for p in RESERVED_COLUMN_PREFIXES] + \
    ["data_algebra_extend_temp_col_1", "_da_extend_temp_v_column_1", "_da_project_temp_v_column_1",
     "_da_project_temp_v_column_2"]
RESERVED_TABLES = ["extend_0", "extend_1", "extend_2", "project_0", "project_1", "select_rows_0", "select_rows_1",
                   "order_rows_0", "order_rows_1", "map_columns_0", "map_columns_1", "rename_0", "rename_1",
                   "natural_join_0", "natural_join_1", "join_source_left_0", "join_source_right_0", "concat_rows_0",
                   "concat_rows_1", "table_reference_0", "table_reference_1", "table_reference_2",
                   "convert_records_blocks_in_0", "convert_records_blocks_out_0", "a", "b", "table_values"]


def _is_numbered(prefix, s):
    """s = prefix ++ digits with at least one digit (Reserved.isNumbered)"""
    rest = s[len(prefix):]
    return s.startswith(prefix) and rest != "" and all(ch in "0123456789" for ch in rest)


def is_reserved_col(c):
    """Reserved.isReservedCol of lean/DAVerif/Spec/Rename.lean"""
    return (c in RESERVED_EXACT_COLUMNS or any(_is_numbered(p, c) for p in RESERVED_COLUMN_PREFIXES)
            or any(c.endswith(sfx) for sfx in RESERVED_SUFFIXES))


def is_reserved_table(t):
    """Reserved.isReservedTable of lean/DAVerif/Spec/Rename.lean"""
    return any(_is_numbered(p, t) for p in RESERVED_TABLE_PREFIXES)


# (executor, how the name is matched, pattern, real node kinds one of which must occur in the pipeline)
#   node kinds: the real node_name, plus "WindowedExtend" (extend with windowed ops / partition_by / order_by) and
#   "KeylessJoin" (natural_join with an empty `on`)
C15_SCRATCH = [
    ("pandas", "exact", "_data_table_temp_col", {"ProjectNode"}),
    ("pandas", "exact", "_data_algebra_temp_g", {"WindowedExtend"}),
    ("pandas", "exact", "_data_algebra_orig_index", {"WindowedExtend"}),
    ("pandas", "prefix", "data_algebra_extend_temp_col_", {"WindowedExtend"}),
    ("pandas", "prefix", "data_algebra_project_temp_col_", {"ProjectNode"}),
    ("pandas", "exact", "data_algebra_temp_merge_col", {"KeylessJoin"}),
    ("pandas", "suffix", "_tmp_right_col", {"NaturalJoinNode"}),
    ("polars", "exact", "_da_temp_one_column", {"ExtendNode", "ProjectNode", "SelectRowsNode"}),
    ("polars", "exact", "_da_extend_temp_partition_column", {"ExtendNode"}),
    ("polars", "prefix", "_da_extend_temp_v_column_", {"ExtendNode"}),
    ("polars", "exact", "_da_project_temp_group_by_column", {"ProjectNode"}),
    ("polars", "prefix", "_da_project_temp_v_column_", {"ProjectNode"}),
    ("polars", "exact", "_da_count_tmp", {"ConvertRecordsNode"}),
    ("polars", "suffix", "_da_join_tmp_key", {"NaturalJoinNode"}),
    ("polars", "suffix", "_da_right_tmp", {"NaturalJoinNode"}),
    ("polars", "suffix", "_da_left_tmp", {"NaturalJoinNode"}),
]
# generated names that become names of common table expressions in the WITH form (the join_source_* names are aliases
# only: probed harmless as table names, so not here)
C15_CTE_PREFIXES = [p for p in RESERVED_TABLE_PREFIXES if not p.startswith("join_source_")]


def _c15_node_kinds(ctx):
    kinds = set()
    for n in ctx.nodes():
        kinds.add(n.node_name)
        if n.node_name == "ExtendNode" and (n.windowed_situation or len(n.partition_by) > 0 or len(n.order_by) > 0):
            kinds.add("WindowedExtend")
        if n.node_name == "NaturalJoinNode" and len(n.on_a) == 0:
            kinds.add("KeylessJoin")
    return kinds


def _c15_join_suffix_collides(c, pat, ops):
    """pandas.merge(..., suffixes=("", pat)) renames the right copy of a column `stem` that BOTH inputs have to
    `stem + pat`: a user column named `stem + pat` collides with it only at a join where `stem` is such a common column
    (and the user column is a column of one of the inputs).  Elsewhere the name is an ordinary name."""
    stem = c[:-len(pat)]
    seen, stack = set(), [ops]
    while stack:
        n = stack.pop()
        if id(n) in seen:
            continue
        seen.add(id(n))
        stack.extend(n.sources)
        if n.node_name == "NaturalJoinNode":
            a, b = set(n.sources[0].column_names), set(n.sources[1].column_names)
            if stem in a and stem in b and (c in a or c in b):
                return True
    return False


def _c15_standin_collides(c, ops):
    """`subframe["_data_algebra_temp_g"] = 1` of the Pandas windowed extend runs AFTER the window sort, on a sub-frame of the
    partition, order and value columns: a user column of that name is harmed when it is a partition column or an argument
    of a windowed operation; used as an order column only (or not used by the step at all) it is read before it is
    overwritten in the sub-frame and never written in the result."""
    seen, stack = set(), [ops]
    while stack:
        n = stack.pop()
        if id(n) in seen:
            continue
        seen.add(id(n))
        stack.extend(n.sources)
        if n.node_name == "ExtendNode" and (n.windowed_situation or len(n.partition_by) > 0 or len(n.order_by) > 0):
            if c in set(n.partition_by):
                return True
            for e in n.ops.values():
                used = set()
                try:
                    e.get_column_names(used)
                except Exception:
                    return True
                if c in used:
                    return True
    return False


def c15_scratch_columns(backend, names, kinds, ops=None):
    """the names among `names` that executor `backend` uses as a scratch column in a step the pipeline contains (for the
    Pandas join suffix: at a join where it really collides, when the renamed pipeline `ops` is given)"""
    out = []
    for c in names:
        for be, how, pat, need in C15_SCRATCH:
            if be != backend or not (need & kinds):
                continue
            if ((how == "exact" and c == pat) or (how == "prefix" and _is_numbered(pat, c))
                    or (how == "suffix" and c.endswith(pat) and len(c) > len(pat))):
                if be == "pandas" and how == "suffix" and pat == "_tmp_right_col" and ops is not None \
                        and not _c15_join_suffix_collides(c, pat, ops):
                    continue
                if be == "pandas" and how == "exact" and pat == "_data_algebra_temp_g" and ops is not None \
                        and not _c15_standin_collides(c, ops):
                    continue
                out.append(c)
                break
    return sorted(out)


def c15_captured_tables(backend, names, ops):
    """the table names among `names` that are also the name of a common table expression in the SQL text the backend's
    dialect generates for `ops` (WITH form)"""
    cand = [t for t in names if any(_is_numbered(p, t) for p in C15_CTE_PREFIXES)]
    if not cand or backend not in ("sqlite", "pg"):
        return []
    try:
        with warnings.catch_warnings():
            warnings.simplefilter("ignore")
            model = L.SQLite.SQLiteModel() if backend == "sqlite" else L.PostgreSQL.PostgreSQLModel()
            sql = model.to_sql(ops, sql_format_options=P._fmt_options(None))
    except Exception:
        return []
    return sorted(t for t in cand if re.search(r'"%s"\s+AS\s+\(' % re.escape(t), sql))


_KEYWORDS = {"and", "or", "not", "True", "False", "None", "in", "is", "if", "else", "lambda"}


def rename_expr(text, m):
    """rename column identifiers of an expression text (not method / function names, not inside string literals)"""
    out, i, n = [], 0, len(text)
    while i < n:
        ch = text[i]
        if ch in "'\"":
            j = i + 1
            while j < n and text[j] != ch:
                j += 2 if text[j] == "\\" else 1
            out.append(text[i:j + 1])
            i = j + 1
        elif ch.isalpha() or ch == "_":
            j = i
            while j < n and (text[j].isalnum() or text[j] == "_"):
                j += 1
            word = text[i:j]
            k = j
            while k < n and text[k] == " ":
                k += 1
            prev = "".join(out).rstrip()
            is_attr = prev.endswith(".")
            is_call = k < n and text[k] == "("
            if word in m and not is_attr and not is_call and word not in _KEYWORDS:
                out.append(m[word])
            else:
                out.append(word)
            i = j
        elif ch.isdigit():
            j = i
            while j < n and (text[j].isalnum() or text[j] in "._"):
                if text[j] == "." and j + 1 < n and (text[j + 1].isalpha() or text[j + 1] == "_"):
                    break
                j += 1
            out.append(text[i:j])
            i = j
        else:
            out.append(ch)
            i += 1
    return "".join(out)


def _all_columns(case):
    cols = []
    def add(c):
        if isinstance(c, str) and c not in cols:
            cols.append(c)
    for t in case["tables"].values():
        for c in t["cols"]:
            add(c)
    for s in P.pipe_steps(case["pipe"]):
        for k in ("ops",):
            for kk, _ in s.get(k) or []:
                add(kk)
        for k in ("partition_by", "order_by", "reverse", "group_by", "cols"):
            v = s.get(k)
            if isinstance(v, list):
                for c in v:
                    add(c)
        for a, b in s.get("map") or []:
            add(a)
            add(b)
        for k in s.get("on") or []:
            if isinstance(k, list):
                add(k[0])
                add(k[1])
            else:
                add(k)
        add(s.get("id_column"))
        for key in ("blocks_in", "blocks_out"):
            sp = s.get(key)
            if sp:
                for c in sp["record_keys"] + sp["control_keys"] + sp["control"]["cols"]:
                    add(c)
                for j, c in enumerate(sp["control"]["cols"]):
                    if c not in sp["control_keys"]:
                        for r in sp["control"]["rows"]:
                            add(r[j]["s"])
    return cols


def rename_case(case, cm, tm):
    """apply the column renaming cm and the table renaming tm to a whole case"""
    r = lambda c: cm.get(c, c) if isinstance(c, str) else c

    def spec(sp):
        if sp is None:
            return None
        ct = sp["control"]
        rows = []
        for row in ct["rows"]:
            rows.append([({"s": r(v["s"])} if (ct["cols"][j] not in sp["control_keys"] and v is not None) else v)
                         for j, v in enumerate(row)])
        return {"control": {"cols": [r(c) for c in ct["cols"]], "kinds": ct["kinds"], "rows": rows},
                "record_keys": [r(c) for c in sp["record_keys"]], "control_keys": [r(c) for c in sp["control_keys"]],
                "strict": sp["strict"]}

    def step(s):
        s = dict(s)
        if "ops" in s and s["ops"] is not None:
            s["ops"] = [[r(k), rename_expr(v, cm)] for k, v in s["ops"]]
        if "expr" in s:
            s["expr"] = rename_expr(s["expr"], cm)
        for k in ("partition_by", "order_by", "reverse", "group_by", "cols"):
            if isinstance(s.get(k), list):
                s[k] = [r(c) for c in s[k]]
        if "map" in s:
            s["map"] = [[r(a), r(b)] for a, b in s["map"]]
        if s.get("on") is not None:
            s["on"] = [[r(k[0]), r(k[1])] if isinstance(k, list) else r(k) for k in s["on"]]
        if "id_column" in s:
            s["id_column"] = r(s["id_column"])
        for key in ("blocks_in", "blocks_out"):
            if key in s:
                s[key] = spec(s[key])
        if "b" in s:
            s["b"] = pipe(s["b"])
        return s

    def pipe(p):
        p = dict(p)
        if "table" in p:
            p["table"] = tm.get(p["table"], p["table"])
        if "src" in p:
            p["src"] = pipe(p["src"])
        if "steps" in p:
            p["steps"] = [step(s) for s in p["steps"]]
        return p

    tables = {tm.get(k, k): dict(t, cols=[r(c) for c in t["cols"]]) for k, t in case["tables"].items()}
    return {"tables": tables, "pipe": pipe(case["pipe"]), "meta": case.get("meta")}


def _c15_key_sequence(case, table):
    """after a final order_rows: the sequence of the order-key values (what order_rows promises); else None"""
    main = P.main_steps(case["pipe"])
    if not main or main[-1]["call"] != "order_rows":
        return None
    idx = [table["cols"].index(k) for k in main[-1]["cols"] if k in table["cols"]]
    return [[r[i] for i in idx] for r in table["rows"]]


def oracle_C15(case, **opts):
    """metamorphic: random injective renamings of tables and columns, half of them drawing target names from the names
    the system invents; the result must be the renamed result on every backend (same columns, same row multiset, after
    a final order_rows the same sequence of order-key values; an error iff the original errors).
    Renamings are injective up to ASCII case (SQL identifiers are case-insensitive: `a` and `A` are one column for
    SQLite itself, before data_algebra is involved).
    Attribution (DESIGN 5.2): a failure on Pandas / Polars is D23 only when a renamed column carries a scratch name THAT
    executor uses in a step kind the pipeline contains (C15_SCRATCH); a failure on an SQL backend is D24 only when a
    renamed table carries the name of a common table expression of the generated SQL; everything else is unattributed."""
    ctx = opts.get("ctx") or Ctx(case)
    if ctx.ops is None:
        return []
    fails = []
    rng = random.Random(opts.get("seed", 0))
    cols = _all_columns(case)
    tabs = sorted(case["tables"])
    fc, ft = opts.get("force_columns") or {}, opts.get("force_tables") or {}
    has_join = any(st.get("call") == "natural_join" for st in P.pipe_steps(case["pipe"]))
    # join pipelines get more renamings: the executors' suffix conventions (`<c>_tmp_right_col`, `<c>_da_right_tmp`, …) only
    # matter for particular pairs of names on particular sides
    # role-directed draws: a scratch name may be harmless in one role of a step and harmful in another (an order column is read
    # before the stand-in column is written, a partition column is not), so every role gets its turn
    roles = {"order": [], "partition": [], "group": []}
    for st in P.pipe_steps(case["pipe"]):
        if st.get("call") == "extend":
            roles["order"] += [c for c in (st.get("order_by") or []) if c in cols]
            if isinstance(st.get("partition_by"), list):
                roles["partition"] += [c for c in st["partition_by"] if c in cols]
        elif st.get("call") == "project":
            roles["group"] += [c for c in (st.get("group_by") or []) if c in cols]
    role_names = [k for k in ("order", "partition", "group") if roles[k]]
    n_trials = opts.get("renamings", 3)
    if has_join or role_names:
        n_trials = max(n_trials, 6)
    for trial in range(n_trials):
        reserved = trial % 2 == 1 or opts.get("reserved_only", False)
        cm, tm = {}, {}
        used = {v.lower() for v in fc.values()} | {c.lower() for c in cols}
        rc = list(RESERVED_COLUMNS) + [c + s for c in cols[:3] for s in RESERVED_SUFFIXES]
        rng.shuffle(rc)
        for c in cols:
            if reserved and rc and rng.random() < 0.5:
                new = rc.pop()
            else:
                # fresh names in three styles, so that a dependence on letter case / on the shape of a name shows
                base, n = re.sub(r"\W", "", c), rng.randint(0, 99)
                new = rng.choice(["c_%s_%d" % (base, n), "c_%s_%d" % (base.lower(), n), "C%d_%s" % (n, base.upper())])
            while new.lower() in used:
                new += "z"
            used.add(new.lower())
            cm[c] = new
        if reserved and role_names and rng.random() < 0.7:
            rc_exact = [x for x in RESERVED_COLUMNS if x.lower() not in used]
            role = role_names[(trial // 2) % len(role_names)]
            if rc_exact:
                c0 = rng.choice(sorted(set(roles[role])))
                new = rng.choice(rc_exact)
                used.discard(cm[c0].lower())
                used.add(new.lower())
                cm[c0] = new
        if reserved and len(cols) >= 2 and rng.random() < (0.9 if has_join else 0.6):
            # a suffix name built on the NEW name of another column (`<stem>` + `_tmp_right_col` next to a column `<stem>`):
            # the executors' suffix conventions only matter relative to the names actually present
            c1, c2 = rng.sample(cols, 2)
            new = cm[c1] + rng.choice(RESERVED_SUFFIXES)
            if new.lower() not in used:
                used.discard(cm[c2].lower())
                used.add(new.lower())
                cm[c2] = new
        rt = list(RESERVED_TABLES)
        rng.shuffle(rt)
        usedt = {v.lower() for v in ft.values()} | {t.lower() for t in tabs}
        for t in tabs:
            if reserved and rt and rng.random() < 0.6:
                new = rt.pop()
            else:
                new = rng.choice(["tab_%s_%d", "tab_%s_%d", "T%s_%d"]) % (t, rng.randint(0, 99))
            while new.lower() in usedt:
                new += "z"
            usedt.add(new.lower())
            tm[t] = new
        cm.update(fc)
        tm.update(ft)
        rcase = rename_case(case, cm, tm)
        rctx = Ctx(rcase)
        if rctx.ops is None:
            fails.append(fail("C15 renamed-build-raised", f"{rctx.err} under {cm} {tm}"))
            continue
        inv = {v: k for k, v in cm.items()}
        kinds = _c15_node_kinds(rctx)
        for be in opts.get("backends", BACKENDS):
            a, b = ctx.run(be), rctx.run(be)
            if "skip" in a or "skip" in b:
                continue
            same_err = ("err" in a) == ("err" in b)
            d = None
            if same_err and "ok" in a:
                tb = dict(b["ok"], cols=[inv.get(c, c) for c in b["ok"]["cols"]])
                d = P.same_table(a["ok"], tb)
                if d is None:
                    ka, kb = _c15_key_sequence(case, a["ok"]), _c15_key_sequence(case, tb)
                    if ka is not None and kb is not None and not (
                            len(ka) == len(kb) and all(P._rows_close(x, y, 1e-8, [False] * len(x)) for x, y in zip(ka, kb))):
                        d = f"order-key sequence after the final order_rows differs: {ka[:4]} vs {kb[:4]}"
            if same_err and d is None:
                continue
            # a failure: which guard, if any, does the renamed case violate FOR THIS BACKEND
            finding, hit = None, []
            if be in ("pandas", "polars"):
                hit = c15_scratch_columns(be, sorted(cm.values()), kinds, rctx.ops)
                if hit:
                    finding = LIVE_FINDINGS["D23"]
            else:
                hit = c15_captured_tables(be, sorted(P._used_tables(rcase["pipe"], set())), rctx.ops)
                if hit:
                    finding = LIVE_FINDINGS["D24"]
            ren = {k: v for k, v in cm.items() if is_reserved_col(v)}
            rent = {k: v for k, v in tm.items() if is_reserved_table(v)}
            ctxt = (f"scratch names of this backend hit: {hit}; renaming: reserved columns {ren} reserved tables {rent} "
                    f"(all: {cm} {tm})")
            # the kind has no colon: core's shrinker keeps candidates whose text up to the first colon is unchanged, so a
            # shrink can neither change backend / failure type nor drift from an unattributed failure to a known one
            tag = f" [known {finding}]" if finding else ""
            if not same_err:
                fails.append(fail(f"C15 {be} raise-differs{tag}", f"original {a.get('err', 'ok')}, renamed {b.get('err', 'ok')}; "
                                  + ctxt, finding))
            else:
                fails.append(fail(f"C15 {be} not-equivariant{tag}", f"{d}; " + ctxt, finding))
        if fails and not opts.get("all", False):
            break
    return fails


# ------------------------------------------------------------------------------------------------
# C26  independent plain-Python rule checker
# ------------------------------------------------------------------------------------------------

import ast as _ast

_AGG_CACHE = {}


def _agg_names():
    """names of aggregating / window functions, from the method catalogue (classes g p w up)"""
    if "n" not in _AGG_CACHE:
        rows = [dict(r) for _, r in L.catalog.methods_table.iterrows()]
        _AGG_CACHE["n"] = {r["op"] for r in rows if r["op_class"] in ("g", "p", "w", "up")} - {"sum"} | {"sum"}
        _AGG_CACHE["w"] = {r["op"] for r in rows if r["op_class"] == "w"}
        _AGG_CACHE["p"] = {r["op"] for r in rows if r["op_class"] in ("p", "up")}
    return _AGG_CACHE


class ExprInfo:
    def __init__(self, text):
        self.ok = True
        self.names = set()
        self.calls = []          # every call name
        self.top = None          # (fn, receiver kind "col"|"lit"|None, n extra args, all extra literal?) of a simple call
        norm = text.replace("%+%", "*").replace("%?%", "*").replace("%/%", "*")
        try:
            tree = _ast.parse(norm.strip(), mode="eval").body
        except SyntaxError:
            self.ok = False
            return
        self.is_literal = isinstance(tree, _ast.Constant) or (isinstance(tree, _ast.UnaryOp) and isinstance(tree.operand, _ast.Constant))
        self.is_name = isinstance(tree, _ast.Name)
        funcs = set()
        for n in _ast.walk(tree):
            if isinstance(n, _ast.Call):
                if isinstance(n.func, _ast.Attribute):
                    self.calls.append(n.func.attr)
                elif isinstance(n.func, _ast.Name):
                    self.calls.append(n.func.id)
                    funcs.add(id(n.func))
        for n in _ast.walk(tree):
            if isinstance(n, _ast.Name) and id(n) not in funcs:
                self.names.add(n.id)

        def lit(x):
            return isinstance(x, _ast.Constant) or (isinstance(x, _ast.UnaryOp) and isinstance(x.operand, _ast.Constant))
        if isinstance(tree, _ast.Call):
            if isinstance(tree.func, _ast.Attribute):
                rv = tree.func.value
                kind = "col" if isinstance(rv, _ast.Name) else ("lit" if lit(rv) else "expr")
                self.top = (tree.func.attr, kind, len(tree.args), all(lit(a) for a in tree.args))
            elif isinstance(tree.func, _ast.Name):
                if not tree.args:
                    self.top = (tree.func.id, None, 0, True)
                else:
                    a0 = tree.args[0]
                    kind = "col" if isinstance(a0, _ast.Name) else ("lit" if lit(a0) else "expr")
                    self.top = (tree.func.id, kind, len(tree.args) - 1, all(lit(a) for a in tree.args[1:]))


def rules_accept(cols, step, bcols=None):
    """
    the documented construction rules (C26) as a decidable predicate on the declared columns of the prefix.
    -> (True | False | None, reason).  None = no verdict (expression text the checker cannot read).
    """
    cols = list(cols)
    cs = set(cols)
    agg = _agg_names()
    call = step["call"]

    def nodup(xs):
        return len(xs) == len(set(xs))

    if call in ("extend", "project"):
        ops = step.get("ops") or []
        keys = [k for k, _ in ops]
        if not nodup(keys):
            return False, "duplicate op keys"
        infos = {}
        for k, t in ops:
            ei = ExprInfo(t)
            if not ei.ok:
                return None, "unparseable"
            infos[k] = ei
            if not ei.names <= cs:
                return False, f"unknown column {sorted(ei.names - cs)}"
        for k, ei in infos.items():
            others = set()
            for k2, e2 in infos.items():
                if k2 != k:
                    others |= e2.names
            if k in others:
                return False, f"{k} both produced and used"
    if call == "extend":
        part, order, rev = step.get("partition_by"), step.get("order_by") or [], step.get("reverse") or []
        plist = part if isinstance(part, list) else []
        if not ops:
            return True, "no-op"
        for lst in (plist, order, rev):
            if not nodup(lst) or not set(lst) <= cs:
                return False, "unknown or duplicate partition/order column"
        if set(plist) & set(order):
            return False, "partition_by and order_by overlap"
        if not set(rev) <= set(order):
            return False, "reverse not in order_by"
        if set(keys) & (set(plist) | set(order)):
            return False, "changes a partition / order column"
        windowed = (part == 1) or bool(plist) or bool(order) or any(
            ei.top is not None and ei.top[0] in agg["n"] for ei in infos.values())
        for k, ei in infos.items():
            simple = ei.top is not None and ei.top[0] in agg["n"] and ei.top[1] in ("col", "lit", None) and ei.top[3]
            nested = any(c in agg["n"] for c in ei.calls) and not simple
            if nested:
                return False, f"{k}: aggregate inside a larger expression"
            if windowed and not simple:
                return False, f"{k}: non-aggregating expression in a windowed extend"
            if windowed and simple:
                fn = ei.top[0]
                if order and fn in L.er.fn_names_that_contradict_ordered_windowed_situation:
                    return False, f"{fn} with order_by"
                if not order and fn in L.er.fn_names_that_imply_ordered_windowed_situation:
                    return False, f"{fn} without order_by"
        return True, "ok"
    if call == "project":
        group = step.get("group_by") or []
        if not nodup(group) or not set(group) <= cs:
            return False, "unknown or duplicate group column"
        if not ops and not group:
            return False, "no ops and no group_by"
        if set(keys) & set(group):
            return False, "alters a grouping column"
        for k, ei in infos.items():
            simple = ei.top is not None and ei.top[0] in agg["n"] and ei.top[1] in ("col", "lit", None) and ei.top[2] == 0
            if not simple:
                return False, f"{k}: non-aggregating or too complex"
            if ei.top[0] in L.er.fn_names_not_allowed_in_project:
                return False, f"{ei.top[0]} not allowed in project"
        return True, "ok"
    if call == "select_rows":
        ei = ExprInfo(step["expr"])
        if not ei.ok:
            return None, "unparseable"
        if not ei.names <= cs:
            return False, "unknown column"
        if any(c in agg["n"] for c in ei.calls):
            return False, "aggregate in a row filter"
        return True, "ok"
    if call == "select_columns":
        c = step["cols"]
        if not c:
            return False, "empty selection"
        return (set(c) <= cs), "unknown column"
    if call == "drop_columns":
        c = step["cols"]
        if not c:
            return True, "no-op"
        if not set(c) <= cs:
            return False, "unknown column"
        return (len(cs - set(c)) > 0), "drops everything"
    if call in ("rename_columns", "map_columns"):
        mp = step["map"]
        if not mp:
            return True, "no-op"
        if call == "rename_columns":
            olds, news = [b for a, b in mp], [a for a, b in mp]
        else:
            olds, news = [a for a, b in mp], [b for a, b in mp if b is not None]
        if not set(olds) <= cs:
            return False, "unknown column"
        if not nodup(news):
            return False, "two columns get one name"
        survivors = cs - set(olds)
        if set(news) & survivors:
            return False, "collides with an existing column"
        if call == "map_columns" and not (survivors | set(news)):
            return False, "nothing left"
        return True, "ok"
    if call == "order_rows":
        c, rev = step["cols"] or [], step.get("reverse") or []
        if not c and step.get("limit") is None:
            return True, "no-op"
        if not set(c) <= cs:
            return False, "unknown column"
        return (set(rev) <= set(c)), "reverse not in order columns"
    if call == "natural_join":
        if bcols is None:
            return None, "b unknown"
        on = step.get("on") or []
        on_a = [k[0] if isinstance(k, list) else k for k in on]
        on_b = [k[1] if isinstance(k, list) else k for k in on]
        jt = step["jointype"].upper()
        if jt not in ("INNER", "LEFT", "RIGHT", "FULL", "CROSS"):
            return False, "not one of the five join types"
        if not set(on_a) <= cs or not set(on_b) <= set(bcols):
            return False, "missing join key"
        if jt == "CROSS" and on:
            return False, "cross join with keys"
        if step.get("check"):
            same = {a for a, b in zip(on_a, on_b) if a == b}
            if (cs & set(bcols)) - same:
                return False, "non-key common columns"
        return True, "ok"
    if call == "concat_rows":
        if bcols is None:
            return None, "b unknown"
        if cs != set(bcols):
            return False, "different columns"
        if step.get("id_column") is not None and step["id_column"] in cs:
            return False, "id column collides"
        return True, "ok"
    if call == "convert_records":
        sp = step.get("blocks_in")
        if sp is not None:
            need = set(sp["record_keys"]) | set(sp["control"]["cols"])
        else:
            sp = step["blocks_out"]
            need = set(sp["record_keys"])
            for j, c in enumerate(sp["control"]["cols"]):
                if c not in sp["control_keys"]:
                    need |= {r[j]["s"] for r in sp["control"]["rows"]}
        return (need <= cs), "missing columns"
    return None, "unknown call"


def oracle_C26(case, **opts):
    """for each prefix of the main chain accepted by the builders and the next step: the builder accepts the step iff
    the independent rule checker accepts it; and an accepted pipeline never fails *evaluation* with a rule error"""
    root, steps, rootdef = flatten_main(case["pipe"])
    if root is None:
        return []
    fails = []
    b = P.Builder(case["tables"])
    prefix, err = _try(lambda: b.table(root))
    if err:
        return []
    if rootdef is not None:
        b.defs[rootdef] = prefix
    for i, (step, d) in enumerate(steps):
        bcols = None
        if "b" in step:
            bo, be_ = _try(lambda: b.pipe(step["b"]))
            if be_:
                break
            bcols = list(bo.column_names)
        verdict, why = rules_accept(prefix.column_names, step, bcols)
        nxt, e = _try(lambda: _apply(prefix, step, b))
        if verdict is not None and verdict != (e is None):
            cand = None
            js = json.dumps(step, ensure_ascii=False)[:220]
            if verdict is False and e is None:
                if "aggregate inside" in why or "non-aggregating" in why or "aggregate in a row filter" in why:
                    cand = "N21-non-aggregating-or-nested-window-expression-accepted"
                elif "five join types" in why:
                    cand = "N22-jointype-outer-accepted"
            fails.append(fail("C26:accepts-rule-violation" if verdict is False else "C26:rejects-conforming-step",
                              f"step {i} on columns {list(prefix.column_names)} (after {prefix.node_name}): {js}: rules say "
                              f"{'reject (' + why + ')' if verdict is False else 'accept'}, builder "
                              f"{'accepted' if e is None else 'raised ' + e}", None, cand))
        if e is not None:
            break
        prefix = nxt
        if d is not None:
            b.defs[d] = prefix
    return fails


ALL_ORACLES = ["C01", "C02", "C03", "C04", "C06", "C07", "C08", "C09", "C10", "C11", "C12", "C15", "C16", "C18", "C19",
               "C26", "C27"]


def run_all(case, names=None, **opts):
    """convenience: {property: failures}"""
    out = {}
    for n in names or ALL_ORACLES:
        try:
            out[n] = globals()["oracle_" + n](case, **opts)
        except Exception as e:   # an oracle that raises is an oracle bug, reported as such
            out[n] = [fail(n + ":ORACLE-EXCEPTION", repr(e))]
    return out
