"""
JSON encoding of data_algebra expression terms for the line protocol (shared by every suite that exchanges
expressions; Lean side: lean/DAVerif/Drv/TermJson.lean).

  Lit  := null | true | false | {"i": int} | {"f": [num, den]} | {"f": "nan"|"inf"|"-inf"} | {"s": "text"}
  Term := {"v": Lit} | {"c": "col"} | {"list": [Lit…]} | {"dict": [[Lit, Lit]…]}
        | {"op": "name", "args": [Term…], "inline": bool, "method": bool}

int / float / bool / str / None payloads are kept apart; floats travel as exact fractions.
"""
import fractions
import math


class NotEncodable(Exception):
    pass


def lit_to_json(v):
    if v is None:
        return None
    if isinstance(v, bool):
        return bool(v)
    if isinstance(v, int):
        return {"i": int(v)}
    if isinstance(v, float):
        if math.isnan(v):
            return {"f": "nan"}
        if math.isinf(v):
            return {"f": "inf" if v > 0 else "-inf"}
        fr = fractions.Fraction(v)
        return {"f": [fr.numerator, fr.denominator]}
    if isinstance(v, str):
        return {"s": v}
    # numpy scalars and the like
    try:
        import numpy
        if isinstance(v, numpy.bool_):
            return bool(v)
        if isinstance(v, numpy.integer):
            return {"i": int(v)}
        if isinstance(v, numpy.floating):
            return lit_to_json(float(v))
    except ImportError:
        pass
    raise NotEncodable(f"literal of type {type(v).__name__}")


def lit_from_json(j):
    if j is None or isinstance(j, bool):
        return j
    if "i" in j:
        return int(j["i"])
    if "s" in j:
        return j["s"]
    f = j["f"]
    if isinstance(f, str):
        return float(f)
    return float(fractions.Fraction(int(f[0]), int(f[1])))


def term_to_json(t):
    """walk a real expr_rep object"""
    import data_algebra.expr_rep as er
    if isinstance(t, er.Value):
        return {"v": lit_to_json(t.value)}
    if isinstance(t, er.ColumnReference):
        return {"c": t.column_name}
    if isinstance(t, er.ListTerm):
        items = []
        for x in t.value:
            if isinstance(x, er.Value):
                items.append(lit_to_json(x.value))
            elif isinstance(x, er.PreTerm):
                raise NotEncodable("list item that is not a constant")
            else:
                items.append(lit_to_json(x))
        return {"list": items}
    if isinstance(t, er.DictTerm):
        kvs = []
        for k, v in t.value.items():
            if isinstance(k, er.PreTerm) or isinstance(v, er.PreTerm) or isinstance(v, (list, dict, tuple, set)):
                raise NotEncodable("dict entry that is not a pair of constants")
            kvs.append([lit_to_json(k), lit_to_json(v)])
        return {"dict": kvs}
    if isinstance(t, er.Expression):
        if t.params is not None:
            raise NotEncodable("Expression.params")
        return {"op": t.op, "args": [term_to_json(a) for a in t.args], "inline": bool(t.inline),
                "method": bool(t.method)}
    raise NotEncodable(f"not a term: {type(t).__name__}")


def term_from_json(j):
    """build the real object directly through the constructors (no builder checks besides Expression.__init__)"""
    import data_algebra.expr_rep as er
    if "v" in j:
        return er.Value(lit_from_json(j["v"]))
    if "c" in j:
        return er.ColumnReference(j["c"])
    if "list" in j:
        return er.ListTerm([er.Value(lit_from_json(x)) for x in j["list"]])
    if "dict" in j:
        return er.DictTerm({lit_from_json(k): lit_from_json(v) for k, v in j["dict"]})
    return er.Expression(j["op"], [term_from_json(a) for a in j["args"]], inline=j["inline"], method=j["method"])
