"""validate MANIFEST.json and evidence/*.json against the schemas (run with python3-vt, which has jsonschema)"""
import glob, json, sys
import jsonschema
ok = True
jsonschema.validate(json.load(open('MANIFEST.json')), json.load(open('/root/.vp/MANIFEST.schema.json')))
es = json.load(open('/root/.vp/EVIDENCE.schema.json'))
for f in sorted(glob.glob('evidence/*.json')):
    try:
        jsonschema.validate(json.load(open(f)), es)
    except Exception as e:
        ok = False
        print(f, 'INVALID', str(e)[:300])
print('valid' if ok else 'INVALID')
sys.exit(0 if ok else 1)
