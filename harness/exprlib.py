"""
Expression-level helpers shared by the C13 and C12 checks: lark tree / token export, the token-level fragment
predicate (mirror of `Expr.inFragment` in lean/DAVerif/Expr/Parse.lean), CPython-ast normal forms for the
"Python's precedence" tie, text and term generators, scalar-row evaluation through the Pandas executor.
"""
import ast
import itertools
import math

from . import termjson


def _mods():
    import lark
    import data_algebra.parse_by_lark as pbl
    import data_algebra.expr_rep as er
    return lark, pbl, er


# ------------------------------------------------------------------------------------------------
# lark export
# ------------------------------------------------------------------------------------------------

VALUE_KINDS = {"NAME", "DEC_NUMBER", "FLOAT_NUMBER", "STRING", "LONG_STRING"}
OTHER_NUMBERS = {"HEX_NUMBER", "OCT_NUMBER", "BIN_NUMBER", "IMAG_NUMBER"}


def norm_kind(k):
    if k in VALUE_KINDS:
        return k
    if k in OTHER_NUMBERS:
        return "OTHER_NUMBER"
    return "OP"


def tree_to_json(t, normalise=False):
    lark, _, _ = _mods()
    if t is None:
        return None
    if isinstance(t, lark.Tree):
        return {"t": str(t.data), "ch": [tree_to_json(c, normalise) for c in t.children]}
    return {"k": norm_kind(t.type) if normalise else t.type, "s": str(t)}


def lex_basic(text):
    """tokens of the context-free lexer (what the model parser is given); None when the text does not lex"""
    lark, pbl, _ = _mods()
    try:
        return [{"k": t.type, "s": str(t)} for t in pbl.parser.lex(text)]
    except lark.exceptions.LarkError:
        return None


def lark_parse(text):
    """(tree, None) or (None, error class name)"""
    lark, pbl, _ = _mods()
    try:
        return pbl.parser.parse(text), None
    except lark.exceptions.LarkError as e:
        return None, type(e).__name__


def tree_tokens(t, acc=None):
    """the value-carrying tokens of a tree, in order (used to notice keywords lexed as NAME in context)"""
    lark, _, _ = _mods()
    if acc is None:
        acc = []
    if isinstance(t, lark.Tree):
        for c in t.children:
            tree_tokens(c, acc)
    elif t is not None:
        acc.append((t.type, str(t)))
    return acc


SUPPORTED_OPS = ["or", "and", "not", "in", "is", "<", ">", "==", ">=", "<=", "<>", "!=", "|", "^", "&", "<<", ">>", "+",
                 "-", "*", "/", "%+%", "%?%", "%", "//", "%/%", "~", "**", "(", ")", "[", "]", "{", "}", ",", ".", ":",
                 "None", "True", "False"]


def in_fragment(toks):
    """mirror of Expr.inFragment: decided on the token list alone"""
    prev = None
    for t in toks:
        k = norm_kind(t["k"])
        s = t["s"]
        if k == "OP" and s not in SUPPORTED_OPS:
            return False
        if k == "OP" and s in ("*", "**"):
            if prev is None or (norm_kind(prev["k"]) == "OP" and prev["s"] in ("(", ",", "[", "{", ":")):
                return False
        if k == "OP" and s == "[":
            if prev is not None:
                pk = norm_kind(prev["k"])
                if pk != "OP" or prev["s"] in (")", "]", "}", "None", "True", "False"):
                    return False
        prev = t
    return True


# ------------------------------------------------------------------------------------------------
# CPython tie: lark's tree and CPython's ast brought to one normal form
# ------------------------------------------------------------------------------------------------

class NoTie(Exception):
    """the text uses something with no CPython counterpart (DSL operators) or outside the compared forms"""


_BIN = {ast.Add: "+", ast.Sub: "-", ast.Mult: "*", ast.Div: "/", ast.FloorDiv: "//", ast.Mod: "%", ast.Pow: "**",
        ast.BitOr: "|", ast.BitXor: "^", ast.BitAnd: "&", ast.LShift: "<<", ast.RShift: ">>"}
_CMP = {ast.Lt: "<", ast.Gt: ">", ast.Eq: "==", ast.GtE: ">=", ast.LtE: "<=", ast.NotEq: "!=", ast.In: "in",
        ast.NotIn: "not in", ast.Is: "is", ast.IsNot: "is not"}
_UN = {ast.USub: "-", ast.UAdd: "+", ast.Invert: "~"}


def _const(v):
    if isinstance(v, float) and v != v:
        return ("const", "float", "nan")
    return ("const", type(v).__name__, repr(v))


def pyast_norm(n):
    if isinstance(n, ast.Expression):
        return pyast_norm(n.body)
    if isinstance(n, ast.BoolOp):
        return ("bool", "or" if isinstance(n.op, ast.Or) else "and", tuple(pyast_norm(v) for v in n.values))
    if isinstance(n, ast.UnaryOp):
        if isinstance(n.op, ast.Not):
            return ("not", pyast_norm(n.operand))
        return ("un", _UN[type(n.op)], pyast_norm(n.operand))
    if isinstance(n, ast.BinOp):
        if type(n.op) not in _BIN:
            raise NoTie("binop")
        return ("bin", _BIN[type(n.op)], pyast_norm(n.left), pyast_norm(n.right))
    if isinstance(n, ast.Compare):
        return ("cmp", pyast_norm(n.left), tuple(_CMP[type(o)] for o in n.ops), tuple(pyast_norm(c) for c in n.comparators))
    if isinstance(n, ast.Call):
        if n.keywords or any(isinstance(a, ast.Starred) for a in n.args):
            raise NoTie("call form")
        return ("call", pyast_norm(n.func), tuple(pyast_norm(a) for a in n.args))
    if isinstance(n, ast.Attribute):
        return ("attr", pyast_norm(n.value), n.attr)
    if isinstance(n, ast.Name):
        return ("name", n.id)
    if isinstance(n, ast.Constant):
        if isinstance(n.value, (bytes, complex)) or n.value is Ellipsis:
            raise NoTie("constant kind")
        return _const(n.value)
    if isinstance(n, ast.List):
        return ("list", tuple(pyast_norm(e) for e in n.elts))
    if isinstance(n, ast.Tuple):
        return ("tuple", tuple(pyast_norm(e) for e in n.elts))
    if isinstance(n, ast.Set):
        return ("set", tuple(pyast_norm(e) for e in n.elts))
    if isinstance(n, ast.Dict):
        if any(k is None for k in n.keys):
            raise NoTie("dict unpacking")
        return ("dict", tuple((pyast_norm(k), pyast_norm(v)) for k, v in zip(n.keys, n.values)))
    raise NoTie(type(n).__name__)


_LEVEL_RULES = {"arith_expr", "term", "shift_expr"}
_SILENT_RULES = {"expr": "|", "xor_expr": "^", "and_expr": "&"}


def lark_norm(t):
    """the standard reading of lark's tree: binary levels associate to the left, `power` is binary with the right
    operand already nested by the grammar, prefix operators apply to the phrase that follows"""
    lark, _, _ = _mods()
    if t is None:
        raise NoTie("placeholder")
    if not isinstance(t, lark.Tree):
        raise NoTie("bare token")
    d, ch = str(t.data), t.children
    if d in ("or_test", "and_test"):
        return ("bool", "or" if d == "or_test" else "and", tuple(lark_norm(c) for c in ch))
    if d == "not":
        return ("not", lark_norm(ch[0]))
    if d == "comparison":
        ops = []
        comps = []
        i = 1
        while i < len(ch):
            o = str(ch[i])
            if o in ("not", "is") and i + 1 < len(ch) and not isinstance(ch[i + 1], lark.Tree) \
                    and str(ch[i + 1]) in ("in", "not"):
                o = o + " " + str(ch[i + 1])
                i += 1
            if o == "<>":
                raise NoTie("<>")
            ops.append(o)
            comps.append(lark_norm(ch[i + 1]))
            i += 2
        return ("cmp", lark_norm(ch[0]), tuple(ops), tuple(comps))
    if d in _LEVEL_RULES:
        acc = lark_norm(ch[0])
        for i in range(1, len(ch), 2):
            o = str(ch[i])
            if o in ("%+%", "%?%", "%/%"):
                raise NoTie(o)
            acc = ("bin", o, acc, lark_norm(ch[i + 1]))
        return acc
    if d in _SILENT_RULES:
        acc = lark_norm(ch[0])
        for c in ch[1:]:
            acc = ("bin", _SILENT_RULES[d], acc, lark_norm(c))
        return acc
    if d == "power":
        return ("bin", "**", lark_norm(ch[0]), lark_norm(ch[1]))
    if d == "factor":
        return ("un", str(ch[0]), lark_norm(ch[1]))
    if d == "funccall":
        args = ()
        if len(ch) > 1 and ch[1] is not None:
            if any(c is None or (isinstance(c, lark.Tree) and c.data in ("argvalue", "starargs", "kwargs", "comp_for"))
                   for c in ch[1].children):
                raise NoTie("call form")
            args = tuple(lark_norm(c) for c in ch[1].children)
        return ("call", lark_norm(ch[0]), args)
    if d == "getattr":
        return ("attr", lark_norm(ch[0]), str(ch[1]))
    if d == "var":
        return ("name", str(ch[0]))
    if d == "number":
        tok = ch[0]
        if tok.type == "DEC_NUMBER":
            return _const(int(str(tok)))
        if tok.type == "FLOAT_NUMBER":
            return _const(float(str(tok)))
        return _const(ast.literal_eval(str(tok)))
    if d == "string":
        v = ast.literal_eval(str(ch[0]))
        if isinstance(v, bytes):
            raise NoTie("bytes")
        return _const(v)
    if d == "atom":
        vs = [ast.literal_eval(str(c.children[0])) for c in ch]
        if any(isinstance(v, bytes) for v in vs):
            raise NoTie("bytes")
        return _const("".join(vs))
    if d == "const_true":
        return _const(True)
    if d == "const_false":
        return _const(False)
    if d == "const_none":
        return _const(None)
    if d in ("list", "tuple", "set"):
        c = ch[0]
        if c is None:
            items = ()
        elif isinstance(c, lark.Tree) and c.data in ("tuplelist_comp", "set_comp"):
            if any(isinstance(x, lark.Tree) and x.data in ("comp_for", "star_expr") for x in c.children):
                raise NoTie("comprehension")
            items = tuple(lark_norm(x) for x in c.children)
        else:
            items = (lark_norm(c),)
        return (d, items)
    if d == "dict":
        c = ch[0]
        if c is None:
            return ("dict", ())
        kvs = []
        for kv in c.children:
            if not (isinstance(kv, lark.Tree) and kv.data == "key_value"):
                raise NoTie("dict form")
            kvs.append((lark_norm(kv.children[0]), lark_norm(kv.children[1])))
        return ("dict", tuple(kvs))
    raise NoTie(d)


def python_tie(text, tree):
    """None when CPython's ast for `text` is lark's tree under the standard reading (or nothing can be compared);
    else a description of the difference"""
    try:
        ln = lark_norm(tree)
    except NoTie:
        return None
    try:
        pa = ast.parse(text.strip(), mode="eval")
    except SyntaxError:
        return None  # lark accepts a text CPython rejects: no Python meaning to compare with
    except (ValueError, RecursionError, MemoryError):
        return None
    try:
        pn = pyast_norm(pa)
    except NoTie:
        return None
    if ln != pn:
        return f"tree shape differs from CPython's: lark {ln} vs ast {pn}"
    return None


# ------------------------------------------------------------------------------------------------
# generators
# ------------------------------------------------------------------------------------------------

COLS = ["x", "y", "z", "b", "c", "h"]          # columns in scope for every case
UNKNOWN_NAMES = ["q"]
INTS = ["0", "1", "2", "3", "5", "10"]
FLOATS = ["1.5", "2.0", "0.25", "0.5", "3.0", "10.0", ".5", "4.", "1e3", "2.5e-1"]
STRS = ["'a'", "\"b\"", "''", "'it\\'s'", "\"it's\"", "'a\\nb'", "'x y'", "'\\\\'", "'\"'"]
CMP_OPS = ["<", ">", "==", ">=", "<=", "!="]
ADD_OPS = ["+", "-"]
MUL_OPS = ["*", "/", "//", "%"]


def builder_names():
    _, _, er = _mods()
    names = []
    for n, f in vars(er.Term).items():
        if callable(f) and not n.startswith("_"):
            names.append(n)
    return names


_NON_BUILDERS = None


def non_builder_attrs():
    """attribute names `getattr` finds on some term object that are not builder methods (outside the model)"""
    global _NON_BUILDERS
    if _NON_BUILDERS is None:
        _, _, er = _mods()
        objs = [er.ColumnReference("x"), er.Value(1), er.Expression("+", [er.Value(1), er.Value(2)], inline=True),
                er.ListTerm([]), er.DictTerm({})]
        s = set()
        for o in objs:
            s |= set(dir(o))
        s -= set(builder_names())
        _NON_BUILDERS = s
    return _NON_BUILDERS


class TextGen:
    """grammar-directed texts over the accepted fragment (not type-directed): for the walk / parse / print suites"""

    def __init__(self, rng, wild=0.08):
        self.rng = rng
        self.wild = wild
        self.methods = builder_names()
        self.stats = {}

    def _count(self, k):
        self.stats[k] = self.stats.get(k, 0) + 1

    def atom(self, d):
        r = self.rng
        k = r.random()
        if k < 0.34:
            self._count("name")
            return r.choice(COLS) if r.random() > 0.04 else r.choice(UNKNOWN_NAMES)
        if k < 0.52:
            self._count("int")
            return r.choice(INTS)
        if k < 0.60:
            self._count("float")
            return r.choice(FLOATS)
        if k < 0.66:
            self._count("str")
            return r.choice(STRS)
        if k < 0.71:
            self._count("const")
            return r.choice(["True", "False", "None"])
        if k < 0.83 and d > 0:
            self._count("paren")
            return "(" + self.expr(d - 1) + ")"
        if k < 0.93 and d > 0:
            return self.call(d - 1)
        if d > 0:
            return self.collection(d - 1)
        return r.choice(COLS)

    def collection(self, d):
        r = self.rng
        self._count("collection")
        n = r.choice([0, 1, 1, 2, 2, 3])
        lit = lambda: r.choice(INTS + FLOATS[:3] + STRS[:3] + ["True", "False", "-1", "-2.5", "None", "x", "1 + 2"]
                               if r.random() < 0.25 else INTS + STRS[:2])
        kind = r.choice(["list", "list", "tuple", "set", "dict"])
        items = [lit() for _ in range(n)]
        trail = "," if (items and r.random() < 0.2) else ""
        if kind == "list":
            return "[" + ", ".join(items) + trail + "]"
        if kind == "tuple":
            if len(items) == 1:
                trail = ","
            return "(" + ", ".join(items) + trail + ")"
        if kind == "set":
            if not items:
                items = [lit()]
            return "{" + ", ".join(items) + trail + "}"
        return "{" + ", ".join(lit() + ": " + lit() for _ in range(n)) + trail + "}"

    def call(self, d):
        r = self.rng
        k = r.random()
        if k < 0.75:
            self._count("method")
            m = r.choice(self.methods) if r.random() > 0.06 else r.choice(["foo", "bar_2"])
            recv = r.choice(COLS) if r.random() < 0.6 else self.postfix_recv(d)
            want = {"shift": [0, 1], "mapv": [1, 2], "around": [1], "trimstr": [2], "if_else": [2], "where": [2]}
            if m in want:
                n = r.choice(want[m])
            else:
                n = r.choice([0, 0, 1, 1, 2]) if r.random() < 0.25 else None
            if n is None:
                _, _, er = _mods()
                import inspect
                try:
                    ps = list(inspect.signature(getattr(er.Term, m)).parameters.values())[1:]
                    n = len([p for p in ps if p.default is inspect.Parameter.empty])
                    if len(ps) > n and r.random() < 0.5:
                        n = len(ps)
                except (AttributeError, ValueError, TypeError):
                    n = 0
            args = []
            for i in range(n):
                if m == "mapv" and i == 0 and r.random() < 0.85:
                    args.append(r.choice(["{1: 2}", "{'a': 1, 'b': 2}", "{1: 'a', 2: 'b'}", "{1: 2, 1.0: 3}", "{True: 1}"]))
                elif m in ("is_in",) and r.random() < 0.8:
                    args.append(r.choice(["[1, 2]", "['a', 'b']", "(1, 2, 3)", "{1, 2}", "[1]", "[True]", "[-1]", "[1.5, 2]"]))
                elif m in ("shift", "around", "trimstr") and r.random() < 0.8:
                    args.append(r.choice(["1", "2", "-1", "0", "True", "1.0", "x"]))
                else:
                    args.append(self.expr(max(d - 1, 0)))
            return recv + "." + m + "(" + ", ".join(args) + ")"
        self._count("function")
        f = r.choice(["fmax", "fmin", "around", "sum", "abs", "_row_number", "_size", "is_null", "maximum", "foo", "x", "if_else"])
        n = r.choice([0, 1, 1, 2, 2, 3])
        return f + "(" + ", ".join(self.expr(max(d - 1, 0)) for _ in range(n)) + ")"

    def postfix_recv(self, d):
        r = self.rng
        k = r.random()
        if k < 0.45 and d > 0:
            return "(" + self.expr(d - 1) + ")"
        if k < 0.65:
            return "(" + r.choice(INTS + FLOATS[:3] + ["-1", "-2.5"]) + ")"
        if k < 0.8 and d > 0:
            return self.call(d - 1)
        if k < 0.88:
            return r.choice(STRS[:3] + INTS[:2] + ["True", "None", "[1, 2]", "{1: 2}"])
        return r.choice(COLS)

    def power(self, d):
        r = self.rng
        a = self.atom(d)
        if r.random() < 0.22 and d > 0:
            self._count("power")
            return a + " ** " + self.factor(d - 1)
        return a

    def factor(self, d):
        r = self.rng
        if r.random() < 0.2 and d > 0:
            op = r.choice(["-", "-", "-", "+", "~"] if r.random() < 0.9 else ["~"])
            self._count("unary" + op)
            sp = "" if r.random() < 0.7 else " "
            return op + sp + self.factor(d - 1)
        return self.power(d)

    def chain(self, sub, ops, d, p=0.3, maxn=3, extra=()):
        r = self.rng
        s = sub(d)
        n = 0
        same = r.random() < 0.5
        op0 = None
        while r.random() < p and n < maxn and d > 0:
            op = r.choice(ops) if (op0 is None or not same) else op0
            if extra and r.random() < self.wild:
                op = r.choice(extra)
            op0 = op
            s = s + " " + op + " " + sub(d - 1)
            n += 1
        if n:
            self._count("chain" + str(min(n, 3)))
        return s

    def term(self, d):
        return self.chain(self.factor, MUL_OPS, d, extra=["%+%", "%?%", "%/%"])

    def arith(self, d):
        return self.chain(self.term, ADD_OPS, d, p=0.35)

    def shift(self, d):
        return self.chain(self.arith, ["<<", ">>"], d, p=0.01)

    def bitand(self, d):
        return self.chain(self.shift, ["&"], d, p=0.012)

    def bitxor(self, d):
        return self.chain(self.bitand, ["^"], d, p=0.008)

    def bitor(self, d):
        return self.chain(self.bitxor, ["|"], d, p=0.012)

    def comparison(self, d):
        return self.chain(self.bitor, CMP_OPS, d, p=0.3, maxn=3, extra=["in", "not in", "is", "is not", "<>"])

    def not_test(self, d):
        r = self.rng
        if r.random() < 0.12 and d > 0:
            self._count("not")
            return "not " + self.not_test(d - 1)
        return self.comparison(d)

    def and_test(self, d):
        return self.chain(self.not_test, ["and"], d, p=0.2)

    def or_test(self, d):
        return self.chain(self.and_test, ["or"], d, p=0.15)

    def expr(self, d):
        return self.or_test(d)

    def text(self, d=None):
        if d is None:
            d = self.rng.choice([1, 2, 2, 3, 3, 4])
        t = self.expr(d)
        if self.rng.random() < 0.1:
            t = t.replace(" ", "")  # compact spelling (keywords glue to names: often a different or malformed text)
        elif self.rng.random() < 0.1:
            t = "  " + t.replace(" ", "  ") + " "
        return t


def mutate_text(rng, text):
    """one token-level fault: deletion, duplication, swap, or a stray token"""
    toks = text.split(" ")
    if not toks:
        return text
    k = rng.random()
    i = rng.randrange(len(toks))
    stray = ["(", ")", ",", "+", "*", "**", "not", "and", ".", "[", "]", "{", "}", ":", "if", "else", "lambda", "=", "1",
             "x", "==", "~", "in", "is", "<", "@", "x[1]", "*x", "a=1", "for"]
    if k < 0.3:
        del toks[i]
    elif k < 0.5:
        toks.insert(i, toks[i])
    elif k < 0.7 and len(toks) > 1:
        j = rng.randrange(len(toks))
        toks[i], toks[j] = toks[j], toks[i]
    else:
        toks.insert(i, rng.choice(stray))
    return " ".join(toks)


def all_token_texts(vocab, maxlen):
    for n in range(1, maxlen + 1):
        for seq in itertools.product(vocab, repeat=n):
            yield " ".join(seq)


# -------- type-directed texts whose Python meaning and DSL meaning are both defined (oracle stream) --------------

EVAL_ROWS = {
    # ints (never 0 in p: used as divisor), halves, bools
    "x": [0, 1, 2, 3, -1, -2, 5, 2, 1, 3],
    "y": [1, 2, 0, -3, 3, 2, -1, 2, 5, 0],
    "z": [2, 0, 1, 1, -2, 3, 2, 2, -3, 1],
    "p": [1, 2, 3, 1, 2, 3, 5, 2, 1, 4],
    "h": [0.5, 1.5, -0.5, 2.0, 0.25, -1.5, 3.0, 0.5, 2.5, -2.0],
    "b": [True, False, True, True, False, False, True, False, True, False],
    "c": [True, True, False, False, True, False, False, True, True, False],
}


class EvalGen:
    """arithmetic over int/half columns and constants, comparisons (also chained), and/or/not over booleans"""

    def __init__(self, rng):
        self.rng = rng
        self.stats = {}

    def _count(self, k):
        self.stats[k] = self.stats.get(k, 0) + 1

    def num_atom(self, d):
        r = self.rng
        k = r.random()
        if k < 0.5:
            return r.choice(["x", "y", "z", "p", "h"])
        if k < 0.75:
            return r.choice(["1", "2", "3", "5", "0", "10"])
        if k < 0.85:
            return r.choice(["1.5", "0.5", "2.0", "0.25"])
        if d > 0:
            return "(" + self.num(d - 1) + ")"
        return "x"

    def num_power(self, d):
        r = self.rng
        a = self.num_atom(d)
        if r.random() < 0.25:
            self._count("power")
            e = r.choice(["2", "3", "2", "1", "0"])
            if r.random() < 0.25:
                self._count("power-tower")
                e = e + " ** " + r.choice(["2", "1", "0"])
            elif r.random() < 0.15:
                # a negated exponent needs a float base (numpy refuses negative integer powers of integers)
                a = r.choice(["h", "1.5", "2.0", "(h)", "(x + 0.5)"])
                e = "-" + r.choice(["1", "2"])
                self._count("power-negexp")
            return a + " ** " + e
        return a

    def num_factor(self, d):
        r = self.rng
        if r.random() < 0.22:
            op = r.choice(["-", "-", "-", "+"])
            self._count("unary" + op)
            return op + self.num_factor(d)
        return self.num_power(d)

    def num_term(self, d):
        r = self.rng
        s = self.num_factor(d)
        n = 0
        while r.random() < 0.35 and n < 3:
            op = r.choice(["*", "*", "/", "//", "%"])
            self._count("mul" + op)
            s = s + " " + op + " " + self.num_factor(max(d - 1, 0))
            n += 1
        return s

    def num(self, d):
        r = self.rng
        s = self.num_term(d)
        n = 0
        while r.random() < 0.4 and n < 3:
            op = r.choice(["+", "-"])
            self._count("add" + op)
            s = s + " " + op + " " + self.num_term(max(d - 1, 0))
            n += 1
        return s

    def comparison(self, d):
        r = self.rng
        s = self.num(d)
        n = r.choice([1, 1, 1, 2, 2, 3])
        self._count("cmp-chain%d" % n)
        for _ in range(n):
            s = s + " " + r.choice(CMP_OPS) + " " + self.num(max(d - 1, 0))
        return s

    def bool_atom(self, d):
        r = self.rng
        k = r.random()
        if k < 0.3:
            return r.choice(["b", "c"])
        if k < 0.36:
            return r.choice(["True", "False"])
        if k < 0.5 and d > 0:
            return "(" + self.boolean(d - 1) + ")"
        if k < 0.56:
            return r.choice(["b", "c"]) + " " + r.choice(["==", "!="]) + " " + r.choice(["b", "c", "True", "False"])
        return self.comparison(d)

    def bool_not(self, d):
        r = self.rng
        if r.random() < 0.2:
            self._count("not")
            return "not " + self.bool_not(d)
        return self.bool_atom(d)

    def bool_and(self, d):
        r = self.rng
        s = self.bool_not(d)
        n = 0
        while r.random() < 0.3 and n < 3:
            self._count("and")
            s = s + " and " + self.bool_not(max(d - 1, 0))
            n += 1
        return s

    def boolean(self, d):
        r = self.rng
        s = self.bool_and(d)
        n = 0
        while r.random() < 0.25 and n < 3:
            self._count("or")
            s = s + " or " + self.bool_and(max(d - 1, 0))
            n += 1
        return s

    def text(self):
        d = self.rng.choice([0, 1, 1, 2, 2, 3])
        return self.boolean(d) if self.rng.random() < 0.5 else self.num(d)


def _guarded_pow(a, b):
    """Python's `a ** b`, refusing results beyond 2**64 (a shrunk text like `5 ** 10 ** 9` must not be computed)"""
    if isinstance(a, (int, float)) and isinstance(b, (int, float)):
        if abs(a) > 1 and b > 0 and b * math.log2(abs(a)) > 64:
            raise OverflowError("power too large")
    return a ** b


class _PowGuard(ast.NodeTransformer):
    def visit_BinOp(self, node):
        self.generic_visit(node)
        if isinstance(node.op, ast.Pow):
            return ast.copy_location(ast.Call(func=ast.Name(id="__pow", ctx=ast.Load()), args=[node.left, node.right],
                                              keywords=[]), node)
        return node


def python_values(text, rows=None):
    """Python's value of `text` on every row; a row on which Python raises, or yields a non-real number, is None"""
    rows = rows or EVAL_ROWS
    n = len(next(iter(rows.values())))
    tree = ast.fix_missing_locations(_PowGuard().visit(ast.parse(text.strip(), mode="eval")))
    code = compile(tree, "<expr>", "eval")
    out = []
    for i in range(n):
        env = {k: v[i] for k, v in rows.items()}
        try:
            v = eval(code, {"__builtins__": {}, "__pow": _guarded_pow}, env)
        except (ZeroDivisionError, OverflowError, TypeError, ValueError):
            out.append(None)
            continue
        if isinstance(v, complex) or (isinstance(v, float) and (math.isnan(v) or math.isinf(v))):
            out.append(None)
        elif isinstance(v, (int, float)) and abs(v) > 2 ** 52:
            out.append(None)  # outside exact float64 / int64 comfort: numpy and Python integers part ways
        else:
            out.append(v)
    return out


def pandas_values(texts, rows=None):
    """evaluate each text as a new column through the Pandas executor; per text a list of values or ('err', class)"""
    import pandas
    from data_algebra.data_ops import describe_table
    rows = rows or EVAL_ROWS
    d = pandas.DataFrame(rows)
    td = describe_table(d, table_name="d")
    res = []
    for t in texts:
        try:
            ops = td.extend({"r_": t})
        except Exception as e:
            res.append(("parse-err", type(e).__name__))
            continue
        try:
            out = ops.transform(d)
            col = out["r_"]
            res.append([None if (v is None or (isinstance(v, float) and v != v)) else (v.item() if hasattr(v, "item") else v)
                        for v in col.tolist()])
        except Exception as e:
            res.append(("eval-err", type(e).__name__))
    return res


def same_value(py, got):
    if py is None:
        return True  # Python assigns no (real) value on this row
    if got is None:
        return False
    if isinstance(py, bool) or isinstance(got, bool):
        return bool(py) == bool(got) and (float(py) == float(got))
    try:
        return math.isclose(float(py), float(got), rel_tol=1e-9, abs_tol=1e-12)
    except (TypeError, ValueError):
        return py == got
