"""
Minimal witnesses for the candidate defects the pipeline oracles re-find on the unchanged tree (live D-candidates of
DESIGN §5.5 and the additional N-candidates found while building harness/oracles.py).  Each entry:
    (id, oracle, expected substring of kind|finding|candidate|detail, case [, oracle options])
`check_witnesses()` runs every witness through its oracle and says whether it still fires:
    PYTHONPATH=/repo:/verif /venv/bin/python -W ignore -m harness.pipe_witnesses
"""
import json
import sys

from . import oracles as O
from . import pipes as P

T = P.mk_table


def ext(ops, partition_by=None, order_by=None, reverse=None):
    return {"call": "extend", "ops": [list(o) for o in ops], "partition_by": partition_by, "order_by": order_by,
            "reverse": reverse}


def proj(ops, group_by=()):
    return {"call": "project", "ops": [list(o) for o in ops], "group_by": list(group_by)}


def join(b, on, jt, check=False):
    return {"call": "natural_join", "b": b, "on": on, "jointype": jt, "check": check}


def tab(name, *steps):
    return {"table": name, "steps": list(steps)}


def case(tables, pipe):
    return {"tables": tables, "pipe": pipe, "meta": {"fault": None}}


WITNESSES = [
    # ---- live candidates of DESIGN §5.5 -------------------------------------------------------------
    ("D16", "C01", "D16", case({"d": T(["i"], ["int"], [[1]])},
     tab("d", {"call": "concat_rows", "b": tab("d"), "id_column": "tn", "a_name": "b\\s", "b_name": 'l"q'}))),
    ("D18", "C16", "D18", case({"d": T(["x", "v"], ["int", "int"], [[None, 1], [None, 2]])},
     tab("d", join(tab("d"), ["x"], "inner")))),
    ("D18-C01", "C01", "D18", case({"d": T(["x"], ["int"], [[None], [None]])}, tab("d", join(tab("d"), ["x"], "right")))),
    ("D19", "C16", "D19", case({"d": T(["k", "a"], ["int", "int"], [[None, 1], [None, 2], [1, 3]]),
                                "e": T(["k", "b"], ["int", "int"], [[None, 5], [1, 6]])},
     tab("d", join(tab("e"), ["k"], "full")))),
    ("D20", "C16", "D20-polars-full", case({"d": T(["k", "a"], ["int", "int"], [[1, 1]]),
                                           "e": T(["k", "b"], ["int", "int"], [[2, 2]])},
     tab("d", join(tab("e"), ["k"], "full")))),
    ("D20x", "C16", "D20-polars-cross", case({"d": T(["a"], ["int"], [[1]]), "e": T(["b"], ["int"], [[2]])},
     tab("d", join(tab("e"), [], "cross")))),
    ("D21", "C01", "D21", case({"d": T(["k", "i"], ["int", "int"], [[1, 1], [None, 2]])},
     tab("d", {"call": "order_rows", "cols": ["k", "i"], "reverse": None, "limit": None}))),
    ("D22", "C01", "D22", case({"d": T(["y", "i"], ["float", "int"], [[2.5, 1], [None, 2]])},
     tab("d", ext([["c", "y.cumsum()"]], 1, ["i"])))),
    ("D23", "C15", "D23", case({"d": T(["g", "x"], ["str", "int"], [["a", 1], ["a", 2], ["b", 3]])},
     tab("d", proj([["s", "x.sum()"]], ["g"]))), {"force_columns": {"g": "_data_table_temp_col"}, "renamings": 1}),
    ("D24", "C15", "D24", case({"d": T(["g", "x"], ["str", "int"], [["a", 1], ["b", 3]])},
     tab("d", ext([["y", "x + 1"]]), {"call": "select_rows", "expr": "y > 1"}, ext([["z", "y.sum()"]], ["g"]))),
     {"force_tables": {"d": "extend_0"}, "renamings": 1}),
    ("D25", "C04", "D25", case({"d": T(["x", "g", "w"], ["int", "str", "int"], [[1, "a", 10], [2, "a", 20], [3, "b", 30]])},
     {"src": {"def": 1, "table": "d", "steps": [ext([["y", "x + 1"]])]},
      "steps": [ext([["w", "w.sum()"]], ["g"]),
                join({"src": {"ref": 1}, "steps": [{"call": "rename_columns", "map": [["w2", "w"], ["y2", "y"], ["g2", "g"]]}]},
                     ["x"], "left")]})),
    ("D27", "C03", "D27", case({"d": T(["j", "k"], ["int", "int"], [[1, None]])}, tab("d", ext([["m", "j.minimum(k)"]])))),
    ("D30", "C10", "D30", case({"d": T(["o", "x", "w"], ["int", "int", "int"], [[1, 1, 1], [1, 10, 2], [1, 100, 3]])},
     tab("d", ext([["z", "w.cumsum()"], ["y", "x.cumsum()"]], 1, ["o"]), {"call": "select_columns", "cols": ["y"]}))),
    # ---- additional candidates (not in DESIGN's list) ---------------------------------------------------
    ("N1", "C01", "N1", case({"d": T(["g", "x"], ["str", "int"], [[None, None], ["a", 2]])},
     tab("d", ext([["c", "x > 1"], ["e", "g == 'a'"]])))),
    ("N1-filter", "C01", "N1", case({"d": T(["y"], ["float"], [[None], [1.5]])},
     tab("d", {"call": "select_rows", "expr": "y != 1.5"}))),
    ("N1-polars", "C03", "N1", case({"d": T(["x"], ["int"], [[None], [2]])}, tab("d", ext([["c", "x > 1"]])))),
    ("N2", "C01", "N2", case({"d": T(["y"], ["float"], [[1.5], [-0.5]])}, tab("d", ext([["m", "y % 1"]])))),
    ("N3", "C01", "N3", case({"d": T(["y"], ["float"], [[2.5], [0.5]])}, tab("d", ext([["r", "y.round()"]])))),
    ("N4", "C01", "N4", case({"d": T(["s"], ["str"], [[None], ["a"]])}, tab("d", ext([["t", "s.concat('z')"]])))),
    ("N6", "C09", "N6", case({"d": T(["g", "x"], ["str", "int"], [["a", None], ["a", 1]])},
     tab("d", proj([["n", "x.nunique()"]], ["g"])))),
    ("N8", "C16", "N8", case({"d": T(["k", "c"], ["int", "bool"], [[1, True]]), "e": T(["k", "c"], ["int", "bool"], [])},
     tab("d", join(tab("e"), ["k"], "left")))),
    ("N10", "C01", "N10", case({"d": T(["g", "x"], ["str", "int"], [["a", 5], [None, None]])},
     tab("d", {"call": "select_rows", "expr": "x.is_null()"}, join(tab("d"), ["x"], "left")))),
    ("N11", "C16", "N11", case({"d": T(["a"], ["int"], [[1]]), "e": T(["b"], ["int"], [])},
     tab("d", join(tab("e"), [], "cross")))),
    ("N13", "C16", "N13", case({"d": T(["k", "a"], ["int", "int"], [[1, 1]]), "e": T(["j", "b"], ["int", "int"], [[1, 2]])},
     tab("d", join(tab("e"), [["k", "j"]], "full")))),
    ("N14", "C01", "N14", case({"d": T(["x", "i"], ["int", "int"], [[2, 1]])},
     tab("d", ext([["v", "(x > 1).if_else(2, i).coalesce(10)"]])))),
    ("N19", "C08", "N19", case({"d": T(["x", "i"], ["int", "int"], [[1, 1]]), "e": T(["i", "aa"], ["int", "int"], [[1, 1]])},
     tab("d", join(tab("e"), [["i", "aa"]], "left")))),
    ("N20", "C11", "N20", case({"d": T(["j"], ["int"], [[3]])}, tab("d", {"call": "select_rows", "expr": "j.is_in({3})"}))),
    ("N21", "C26", "N21", case({"d": T(["x"], ["int"], [[1]])}, tab("d", ext([["n1", "x.sum() + 1"]])))),
    ("N22", "C26", "N22", case({"d": T(["k"], ["int"], [[1]])}, tab("d", join(tab("d"), ["k"], "outer")))),
    ("N23", "C12", "raised", case({"d": T(["x"], ["int"], [[1]])}, tab("d", {"call": "select_rows", "expr": "x.is_in({-1})"}))),
    ("N26", "C12", "not-equal", case({"d": T(["x", "y"], ["int", "float"], [[1, 0.5]])},
     tab("d", ext([["n4", "x"]]), ext([["r", "y + n4"]]), ext([["r", "y"]])))),
    ("N27", "C04", "sqlite-options-change-result", case({"d": T(["t", "i"], ["str", "int"], [["a", 1], ["b", 2], ["c", 3]])},
     {"src": {"def": 1, "table": "d", "steps": [{"call": "order_rows", "cols": ["i"], "reverse": None, "limit": 2}]},
      "steps": [{"call": "concat_rows", "b": {"ref": 1}, "id_column": None, "a_name": "a", "b_name": "b"}]})),
    ("N25", "C11", "N25", case({"d": T(["i"], ["int"], [[0]])}, tab("d", ext([["u", "i.is_in({0})"]]))), {"seed": 1}),
]


# candidates of DESIGN §5.5 that are REPAIRED in /repo (fix: commits).  Expected: silent on the current tree, firing on
# the tree before the fixes (git worktree of commit defc384) - this is the regression / mutation check of the oracles.
_G3 = T(["g", "x", "y"], ["str", "int", "int"], [["a", 1, 5], ["b", 2, 6]])
REPAIRED = [
    ("D1", "C07", "compose-raised", case({"d": _G3}, tab("d", ext([["z", "x + 1"]]), {"call": "select_rows", "expr": "x > 0"}))),
    ("D2", "C07", "C07:", case({"d": _G3}, tab("d", ext([["z", "x + 1"]]), {"call": "map_columns", "map": [["y", None], ["x", "x2"]]}))),
    ("D3", "C26", "non-key common", case({"d": _G3}, tab("d", {"call": "order_rows", "cols": ["x"], "reverse": None, "limit": None},
                                                            join(tab("d"), ["g"], "inner", True)))),
    ("D4", "C26", "unknown column", case({"d": _G3}, tab("d", {"call": "select_columns", "cols": ["x"]},
                                                          {"call": "select_columns", "cols": ["y"]}))),
    ("D5", "C06", "chained-vs-stepwise", case({"d": _G3}, tab("d", ext([["a", "x + 1"], ["y", "y + 1"]]),
                                                              ext([["a", "x"], ["c", "y * 2"]])))),
    ("D6", "C12", "C12:", case({"d": _G3}, tab("d", ext([["p", "(-x) ** 2"], ["q", "(-5) ** x"]])))),
    ("D8", "C11", "control table", case({"d": T(["i", "x", "y"], ["int", "int", "int"], [[1, 2, 3]])},
     tab("d", {"call": "convert_records", "blocks_in": None,
               "blocks_out": {"control": T(["measure", "value"], ["str", "str"], [["m1", "x"], ["m2", "y"]]),
                              "record_keys": ["i"], "control_keys": ["measure"], "strict": True}}))),
    ("D9", "C11", "literal type", case({"d": _G3}, tab("d", ext([["z", "x / 2"]]))), {"seed": 0}),
    ("D13", "C09", "project-rows", case({"d": T(["g", "x"], ["str", "int"], [["a", 1], [None, 2], ["a", 3], [None, 4]])},
     tab("d", proj([["s", "x.sum()"]], ["g"])))),
    ("D13-window", "C27", "window-value", case({"d": T(["g", "x"], ["str", "int"], [["a", 1], [None, 2], ["a", 3], [None, 4]])},
     tab("d", ext([["s", "x.sum()"]], ["g"])))),
    ("D14", "C09", "in-context", case({"d": T(["g", "x"], ["str", "int"], [["a", 1], [None, 2], ["a", 3], [None, 4]])},
     tab("d", proj([["s", "x.sum()"], ["n", "x.max()"]]), ext([["s", "1"], ["n", "2"]])))),
    ("D28", "C11", "op key order", case({"d": T(["x", "u", "v"], ["int", "int", "int"], [[1, 2, 3]])},
     tab("d", ext([["u", "x + 1"], ["v", "x + 2"]])))),
    ("D10", "C11", "extra column", case({"d": T(["x"], ["int"], [[1]])}, tab("d"))),
    ("N7", "C04", "to_sql-raise", case({"d": T(["k"], ["int"], [[1]])},
     tab("d", ext([["r", "_size()"]], ["k"]), {"call": "select_columns", "cols": ["r"]}, ext([["n1", "r.mean()"]], ["r"])))),
    ("N18", "C16", "sqlite-raised", case({"d": T(["k", "a"], ["int", "int"], [[1, 1]]), "e": T(["j", "b"], ["int", "int"], [[1, 2]])},
     tab("d", join(tab("e"), [["k", "j"]], "right")))),
    ("N24", "C01", "pandas-raised", case({"d": T(["g", "s"], ["str", "str"], [["a", None], [None, "b"]])},
     tab("d", proj([], ["s", "g"])))),
    ("N9", "C26", "rejects-conforming", case({"d": T(["g"], ["str"], [["a"]])},
     tab("d", ext([["n1", "g.concat(g)"]]), ext([["e2", "_size()"]], 1)))),
    ("D15", "C01", "pandas-vs-sqlite", case({"d": T(["x", "y"], ["float", "float"], [[2.0, None], [1.0, 3.0]])},
     tab("d", ext([["m", "x.maximum(y)"], ["f", "x.fmax(y)"]])))),
]


def check_witnesses(verbose=True, which=None):
    out = []
    for w in (WITNESSES if which is None else which):
        wid, orc, tag, c = w[:4]
        opts = w[4] if len(w) > 4 else {}
        try:
            fs = getattr(O, "oracle_" + orc)(c, **opts)
        except Exception as e:
            fs = [O.fail("ORACLE-EXCEPTION", repr(e))]
        hit = [f for f in fs if tag in (f["kind"] + "|" + str(f["finding"]) + "|" + str(f.get("candidate")) + "|" + f["detail"])]
        out.append((wid, orc, bool(hit), (hit or fs or [{"kind": "-", "detail": "no failure", "finding": None}])[0]))
        if verbose:
            h = out[-1][3]
            print(f"{'FIRES ' if hit else 'silent'} {wid:10s} {orc}  {h['kind']}  [{h.get('finding') or h.get('candidate') or '-'}]  {h['detail'][:150]}")
    return out


if __name__ == "__main__":
    if "--repaired" in sys.argv:
        check_witnesses(which=REPAIRED)
    else:
        check_witnesses()
    sys.exit(0)
