"""
Adapters between the real data_algebra objects / pipes.py cases and the JSON forms the Lean driver's operator
suites parse (lean/DAVerif/Drv/OpsJson.lean): model Tree (no ids, `rm` summary for record maps) and model Steps
(expressions as Term JSON).
"""
import re

from . import pipes


def lit_json(v):
    j = pipes.enc_val(v)
    return j


def term_json(t):
    j = pipes.term_to_json(t)
    return _fix_term(j)


def _fix_lit(v):
    if isinstance(v, dict):
        if "nan" in v:
            return {"f": "nan"}
        if "inf" in v:
            return {"f": "inf" if v["inf"] > 0 else "-inf"}
    return v


def _fix_term(j):
    if "v" in j:
        return {"v": _fix_lit(j["v"])}
    if "list" in j:
        return {"list": [_fix_lit(x) for x in j["list"]]}
    if "dict" in j:
        return {"dict": [[_fix_lit(k), _fix_lit(v)] for k, v in j["dict"]]}
    if "op" in j:
        return {"op": j["op"], "args": [_fix_term(a) for a in j["args"]], "inline": j["inline"], "method": j["method"]}
    return j


def recmap_summary(rm):
    return {"needed": list(rm.columns_needed), "produced": list(rm.columns_produced),
            "repr": repr(rm.blocks_in) + " -> " + repr(rm.blocks_out)}


def to_model_tree(n):
    """real node objects -> model Tree JSON (exactly what opsToJson in the driver renders)"""
    nn = n.node_name
    cn = list(n.column_names)
    if nn == "TableDescription":
        return {"node": "table", "name": n.table_name, "cols": cn, "column_names": cn}
    if nn == "ExtendNode":
        return {"node": "extend", "src": to_model_tree(n.sources[0]),
                "ops": [[k, term_json(v)] for k, v in n.ops.items()], "partition": list(n.partition_by),
                "order": list(n.order_by), "reverse": list(n.reverse), "windowed": bool(n.windowed_situation),
                "column_names": cn}
    if nn == "ProjectNode":
        return {"node": "project", "src": to_model_tree(n.sources[0]),
                "ops": [[k, term_json(v)] for k, v in n.ops.items()], "group": list(n.group_by), "column_names": cn}
    if nn == "SelectRowsNode":
        return {"node": "select_rows", "src": to_model_tree(n.sources[0]), "expr": term_json(n.expr),
                "column_names": cn}
    if nn == "SelectColumnsNode":
        return {"node": "select_columns", "src": to_model_tree(n.sources[0]), "cols": list(n.column_selection),
                "column_names": cn}
    if nn == "DropColumnsNode":
        return {"node": "drop_columns", "src": to_model_tree(n.sources[0]), "cols": list(n.column_deletions),
                "column_names": cn}
    if nn == "RenameColumnsNode":
        return {"node": "rename", "src": to_model_tree(n.sources[0]),
                "map": [[k, v] for k, v in n.column_remapping.items()], "column_names": cn}
    if nn == "MapColumnsNode":
        return {"node": "map_columns", "src": to_model_tree(n.sources[0]),
                "map": [[k, v] for k, v in n.column_remapping.items()], "deletions": list(n.column_deletions),
                "column_names": cn}
    if nn == "OrderRowsNode":
        return {"node": "order", "src": to_model_tree(n.sources[0]), "cols": list(n.order_columns),
                "reverse": list(n.reverse), "limit": n.limit, "column_names": cn}
    if nn == "NaturalJoinNode":
        return {"node": "join", "a": to_model_tree(n.sources[0]), "b": to_model_tree(n.sources[1]),
                "on_a": list(n.on_a), "on_b": list(n.on_b), "type": n.jointype, "column_names": cn}
    if nn == "ConcatRowsNode":
        return {"node": "concat", "a": to_model_tree(n.sources[0]), "b": to_model_tree(n.sources[1]),
                "id": n.id_column, "a_name": n.a_name, "b_name": n.b_name, "column_names": cn}
    if nn == "ConvertRecordsNode":
        return {"node": "convert_records", "src": to_model_tree(n.sources[0]), "rm": recmap_summary(n.record_map),
                "column_names": cn}
    raise ValueError("unknown node " + nn)


def is_tree_shaped(n, seen=None):
    """True when no Python node object (other than table descriptions) is used twice"""
    seen = set() if seen is None else seen
    if n.node_name != "TableDescription":
        if id(n) in seen:
            return False
        seen.add(id(n))
    return all(is_tree_shaped(s, seen) for s in n.sources)


_IDENT = re.compile(r"[A-Za-z_][A-Za-z_0-9]*")


def parse_permissive(text, cols):
    """parse expression text with the real parser against the given columns plus every identifier in the text
    (so that an unknown column becomes a ColumnReference the model can reject itself)"""
    L = pipes.L
    names = set(cols) | set(_IDENT.findall(text))
    names -= {"True", "False", "None", "and", "or", "not", "in", "is"}
    dd = {c: L.er.ColumnReference(c) for c in names}
    import data_algebra.parse_by_lark as pbl
    return pbl.parse_by_lark(text, data_def=dd)


def on_lists(on):
    on_a, on_b = [], []
    if on is None:
        return on_a, on_b
    if isinstance(on, str):
        return [on], [on]
    for v in on:
        if isinstance(v, str):
            on_a.append(v)
            on_b.append(v)
        else:
            on_a.append(v[0])
            on_b.append(v[1])
    return on_a, on_b


def model_step(step, cur_cols, sub_builder):
    """pipes Step (text expressions) -> model Step JSON (Terms); raises if the text itself does not parse"""
    call = step["call"]
    if call in ("extend", "project"):
        ops = [[k, term_json(parse_permissive(v, cur_cols)) if isinstance(v, str) else {"v": pipes.enc_val(v)}]
               for k, v in (step.get("ops") or [])]
        s = {"call": call, "ops": ops}
        if call == "extend":
            s.update(partition_by=step.get("partition_by"), order_by=step.get("order_by"),
                     reverse=step.get("reverse"))
        else:
            s.update(group_by=step.get("group_by"))
        return s
    if call == "select_rows":
        e = step.get("expr")
        return {"call": call, "expr": None if e is None else term_json(parse_permissive(e, cur_cols))}
    if call in ("select_columns", "drop_columns"):
        return {"call": call, "cols": list(step["cols"])}
    if call == "rename_columns":
        return {"call": call, "map": [[k, v] for k, v in step["map"]]}
    if call == "map_columns":
        return {"call": call, "map": [[k, v] for k, v in step["map"]]}
    if call == "order_rows":
        return {"call": call, "cols": list(step["cols"]), "reverse": step.get("reverse"), "limit": step.get("limit")}
    if call == "natural_join":
        on_a, on_b = on_lists(pipes._on_arg(step.get("on")))
        return {"call": call, "b": to_model_tree(sub_builder(step["b"])), "on_a": on_a, "on_b": on_b,
                "jointype": step["jointype"], "check": bool(step.get("check", False))}
    if call == "concat_rows":
        return {"call": call, "b": to_model_tree(sub_builder(step["b"])), "id_column": step.get("id_column"),
                "a_name": step.get("a_name", "a"), "b_name": step.get("b_name", "b")}
    if call == "convert_records":
        L = pipes.L
        rm = L.cdata.RecordMap(blocks_in=pipes.spec_to_real(step.get("blocks_in")),
                               blocks_out=pipes.spec_to_real(step.get("blocks_out")),
                               strict=bool(step.get("strict", True)))
        return {"call": call, "rm": recmap_summary(rm)}
    raise ValueError(call)


def table_for_model(t):
    """pipes Table JSON -> driver Table JSON (drop kinds; inf cells become null markers are not generated)"""
    return {"cols": list(t["cols"]), "rows": [[_fix_lit(v) for v in r] for r in t["rows"]]}


def canon_table(t, sort_cols=True, sort_rows=True, ndigits=9):
    """canonical comparison form of a Table JSON outcome: numbers as rounded floats, null/NaN alike,
    columns sorted by name unless sort_cols is False, rows sorted unless sort_rows is False"""
    cols = list(t["cols"])
    order = sorted(range(len(cols)), key=lambda i: cols[i]) if sort_cols else list(range(len(cols)))

    def cv(v):
        if v is None:
            return None
        if isinstance(v, bool):
            return v
        if isinstance(v, dict):
            if "i" in v:
                return float(v["i"])
            if "f" in v:
                f = v["f"]
                if isinstance(f, str):
                    return None if f == "nan" else f
                return round(f[0] / f[1], ndigits) + 0.0
            if "s" in v:
                return "s:" + v["s"]
            if "nan" in v:
                return None
            if "inf" in v:
                return "inf" if v["inf"] > 0 else "-inf"
        return v

    rows = [[cv(r[i]) for i in order] for r in t["rows"]]
    if sort_rows:
        rows.sort(key=lambda r: [(0, "") if x is None else (1, repr(x)) if not isinstance(x, (int, float)) or isinstance(
            x, bool) else (2, "%024.9f" % (x + 1e12)) for x in r])
    return {"cols": [cols[i] for i in order], "rows": rows}
