"""run the repository's pinned baseline in <repo dir> (default /repo) and compare with BASELINE.json stable_pass
usage: /venv/bin/python harness/baseline.py [repo_dir]      exit 0 iff every stable-pass test passes"""
import json, os, subprocess, sys, tempfile
import xml.etree.ElementTree as ET
repo = sys.argv[1] if len(sys.argv) > 1 else "/repo"
base = json.load(open("/root/.vp/BASELINE.json"))
want = set(base["stable_pass"])
with tempfile.TemporaryDirectory() as td:
    x = os.path.join(td, "j.xml")
    env = dict(os.environ, PYTHONPATH=repo)
    env.pop("WINVECTOR_DATA_ALGEBRA_VERIF", None)
    subprocess.run(["/venv/bin/python", "-m", "pytest", "-q", "-p", "no:cacheprovider", "--timeout=900", "-n", "8",
                    "--continue-on-collection-errors", f"--junitxml={x}"], cwd=repo, env=env,
                   stdout=subprocess.DEVNULL, stderr=subprocess.DEVNULL)
    passed = set()
    for tc in ET.parse(x).getroot().iter("testcase"):
        if not any(c.tag in ("failure", "error", "skipped") for c in tc):
            passed.add(tc.get("classname") + "::" + tc.get("name"))
missing = sorted(want - passed)
print(f"stable_pass {len(want)}; passed now {len(passed)}; stable tests not passing: {len(missing)}")
for m in missing[:40]:
    print("  ", m)
sys.exit(1 if missing else 0)
