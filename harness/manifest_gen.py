"""writes /verif/MANIFEST.json from the list of built property checks (run by hand after adding a property)"""
import importlib
import json
import os
import sys

VERIF = os.path.dirname(os.path.dirname(os.path.abspath(__file__)))
sys.path.insert(0, VERIF)

ALL = [f"C{i:02d}" for i in range(1, 28)]
BASE = json.load(open("/root/.vp/BASELINE.json"))["cmd"] if os.path.exists("/root/.vp/BASELINE.json") else ""


def main():
    checks, na = [], []
    for pid in ALL:
        p = os.path.join(VERIF, "harness", "props", pid.lower() + ".py")
        if not os.path.exists(p):
            na.append({"property_id": pid, "reason": "check not built yet (model and theorems under construction; "
                                                     "see DESIGN.md section 6 for the plan) - not a claim that the "
                                                     "technique cannot apply"})
            continue
        m = importlib.import_module("harness.props." + pid.lower())
        checks.append({
            "property_id": pid,
            "quick_cmd": f"bin/check {pid} --tier quick",
            "thorough_cmd": f"bin/check {pid} --tier thorough",
            "evidence_file": f"evidence/{pid}.json",
            "replay_cmd_template": f"bin/check {pid} --replay {{path}}",
            "engine": "lean4-proof+correspondence",
            "level_claimed": {"category": "proof", "text": m.LEVEL_TEXT, "design_ref": f"DESIGN.md section 6 ({pid})"},
            "level_note": m.LEVEL_NOTE,
            "technique": getattr(m, "TECHNIQUE", "Lean 4 theorems over a hand-written executable model + "
                                                 "differential correspondence with the implementation"),
        })
    man = {
        "version": 1,
        "setup_cmd": "PYTHONPATH=/repo /venv/bin/python -W ignore harness/extract_tables.py && PYTHONPATH=/repo /venv/bin/python -W ignore harness/extract_expr_tables.py && cd lean && lake build DAVerif driver",
        "hooks": {
            "guard": "WINVECTOR_DATA_ALGEBRA_VERIF",
            "enable": "bin/check exports WINVECTOR_DATA_ALGEBRA_VERIF=1 (no source hook is needed so far; the harness "
                      "imports /repo's working tree directly)",
            "baseline_off_cmd": BASE.replace(" --junitxml=<file>", ""),
            "source_commits": [],
            "add_only": True,
        },
        "engines": [{"name": "lean4-proof+correspondence", "path": "lean/", "serves_properties": [c["property_id"] for c in checks],
                     "kind_free_text": "Lean 4.33 library DAVerif (model + theorems) and compiled line-protocol driver; "
                                       "Python harness in harness/ runs the real code and the driver on the same cases"}],
        "checks": checks,
        "not_applicable": na,
        "notes": "One entry point: bin/check Cxx [--tier quick|thorough] [--replay file]. Exit 0 held / 1 VIOLATION / 2 "
                 "infrastructure. Known findings: known_findings.json. See DESIGN.md.",
    }
    json.dump(man, open(os.path.join(VERIF, "MANIFEST.json"), "w"), indent=1)
    print(len(checks), "checks;", len(na), "not yet claimed")


if __name__ == "__main__":
    main()
