"""
Tabulate what the pipeline oracles report on generated cases (the re-finding run of notes/pipegen_report.md):
    PYTHONPATH=/repo:/verif /venv/bin/python -W ignore -m harness.oracle_survey [ORACLES|all] [N] [seed] [bias-json]
Prints count, property, failure kind, finding-or-candidate; nothing is written.
"""
import collections
import json
import random
import sys
import time

from . import oracles as O
from . import pipes as P


def survey(names, n, seed, bias=None, tier="quick"):
    rng = random.Random(seed)
    tab = collections.Counter()
    first = {}
    secs = collections.Counter()
    for _ in range(n):
        case = P.gen_case(rng, tier, **(bias or {}))
        for nm in names:
            t0 = time.time()
            try:
                fs = getattr(O, "oracle_" + nm)(case)
            except Exception as e:
                fs = [O.fail(nm + ":ORACLE-EXCEPTION", repr(e))]
            secs[nm] += time.time() - t0
            for x in fs:
                key = (nm, x["kind"], x["finding"] or x.get("candidate") or "-")
                tab[key] += 1
                first.setdefault(key, (case, x))
    return tab, first, secs


def main():
    a = sys.argv[1:]
    names = O.ALL_ORACLES if (not a or a[0] == "all") else a[0].split(",")
    n = int(a[1]) if len(a) > 1 else 100
    seed = int(a[2]) if len(a) > 2 else 0
    bias = json.loads(a[3]) if len(a) > 3 else {}
    tab, first, secs = survey(names, n, seed, bias)
    print("cases", n, "seconds/case", {k: round(v / n, 3) for k, v in secs.items()})
    for k, v in sorted(tab.items()):
        print(f"{v:4d}  {k[0]}  {k[1]:44s} {k[2]}")


if __name__ == "__main__":
    main()
