"""
Glue between the correspondence suites (suites_ops / suites_sql) and the property oracles (oracles.py):
`with_oracle(SuiteClass, oracle_fn, ...)` gives a suite whose correspondence is the base class's and whose
`oracle` / `finding` come from an `oracle_Cxx(case) -> [failure]` function of harness/oracles.py.

A case's failures are all looked at: an unattributed failure (finding None) is reported first, so that a known
finding can never hide a different violation on the same case.
"""
import json
import os
import zlib

from . import pipes
from .core import Suite


def _sig(case):
    return json.dumps(case.get("pipe"), sort_keys=True) + json.dumps(case.get("tables"), sort_keys=True)[:2000]


def with_oracle(base, oracle_fn, name=None, oracle_opts=None, every=1, ignore_kinds=(), corpus_dir=None, **suite_opts):
    oracle_opts = dict(oracle_opts or {})

    class _S(base):
        def __init__(self):
            super().__init__(**suite_opts)
            self._fail = {}
            self._n = 0
            self.oracle_runs = 0

        def oracle(self, case, real_out):
            self._n += 1
            # which cases the oracle judges is a fixed function of the case (not of its position in the stream), so that
            # a replay of a reported case judges it again
            if every > 1 and not case.get("_always") and (zlib.crc32(_sig(case).encode()) % every) != 0:
                return None
            c = dict(case)
            c.setdefault("meta", {})
            self.oracle_runs += 1
            fs = oracle_fn(c, **oracle_opts) or []
            if ignore_kinds:
                # failure kinds outside the property's statement (e.g. the reference executor itself raised, so there
                # is no result to compare with): counted, not judged
                kept = [f for f in fs if not any(k in f["kind"] for k in ignore_kinds)]
                self.ignored = getattr(self, "ignored", 0) + (len(fs) - len(kept))
                fs = kept
            if not fs:
                return None
            fs = sorted(fs, key=lambda f: 0 if not (f.get("finding") or f.get("candidate")) else 1)
            f = fs[0]
            self._fail[_sig(case)] = f
            return f"{f['kind']}: {f['detail']}"

        def corpus(self):
            """minimised past failures (corpus/<corpus_dir>/*.json with this suite's name), run first"""
            out = list(super().corpus() or [])
            if corpus_dir:
                d = os.path.join(os.path.dirname(os.path.dirname(os.path.abspath(__file__))), "corpus", corpus_dir)
                if os.path.isdir(d):
                    for fn in sorted(os.listdir(d)):
                        if fn.endswith(".json"):
                            obj = json.load(open(os.path.join(d, fn)))
                            if obj.get("suite") in (self.name, getattr(self, "driver_suite", None)) and "case" in obj:
                                out.append(dict(obj["case"], _always=True))
            return out

        def finding(self, case, real_out, why):
            f = self._fail.get(_sig(case))
            # `candidate` ids (defects first seen by the oracles) count exactly like DESIGN's `finding` ids: whether an id
            # suppresses anything is decided by known_findings.json alone
            return (f.get("finding") or f.get("candidate")) if f else None

    if name:
        if getattr(base, "corr", True) and getattr(base, "name", None) and not getattr(base, "driver_suite", None):
            _S.driver_suite = base.name
        _S.name = name
    _S.__name__ = "Oracle_" + base.__name__
    return _S()


class OracleOnly(Suite):
    """a suite without a model side: generated cases are only judged by an oracle on the real code"""
    corr = False
    name = "oracle_only"
    n_quick, n_thorough = 150, 2000
    gen_opts = dict(fault_rate=0.0, convert_records=0.0)

    def __init__(self, **opts):
        self.opts = dict(self.gen_opts, **opts)
        self.distribution = {}

    def gen(self, rng, tier):
        import random
        n = self.n_quick if tier == "quick" else self.n_thorough
        for _ in range(n):
            case = pipes.gen_case(random.Random(rng.getrandbits(64)), tier, **self.opts)
            if pipes.est_rows(case) > pipes.MAX_EST_ROWS:
                continue
            for c in case["meta"].get("calls", []):
                self.distribution[c] = self.distribution.get(c, 0) + 1
            yield {"tables": case["tables"], "pipe": case["pipe"], "meta": case.get("meta", {})}

    def real(self, case):
        return {"built": pipes.build_or_error(case)[1] is None}

    def nontrivial(self, case, real_out):
        return bool(real_out.get("built"))

    def shrink(self, case):
        for c in pipes.shrink_case(case):
            yield {"tables": c["tables"], "pipe": c["pipe"], "meta": case.get("meta", {})}
