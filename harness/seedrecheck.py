"""Re-run the (current) check of every seeded change in /verif/seeded/<id>/ against a scratch worktree with the patch
applied, and record the outcome under "recheck" in its meta.json (the original evaluation, incl. the baseline run, stays).
   /venv/bin/python harness/seedrecheck.py [id ...]
"""
import json
import os
import re
import subprocess
import sys
import time

VERIF = os.path.dirname(os.path.dirname(os.path.abspath(__file__)))


def sh(cmd, env=None, cwd=None, timeout=3600):
    r = subprocess.run(cmd, shell=True, capture_output=True, text=True, env=env, cwd=cwd, timeout=timeout)
    return r.returncode, r.stdout + r.stderr


def main():
    ids = sys.argv[1:] or sorted(os.listdir(os.path.join(VERIF, "seeded")))
    head = sh("git -C /repo log --format=%h -n 1")[1].strip()
    for sid in ids:
        d = os.path.join(VERIF, "seeded", sid)
        mp = os.path.join(d, "meta.json")
        if not os.path.exists(mp):
            continue
        meta = json.load(open(mp))
        prop = meta["property"]
        wt = f"/tmp/seedrc_{sid}"
        sh(f"git -C /repo worktree remove --force {wt}")
        rc, out = sh(f"git -C /repo worktree add --detach {wt} HEAD")
        res = {"repo_head": head, "when": time.strftime("%Y-%m-%d %H:%M")}
        try:
            rca, oa = sh(f"git -C {wt} apply {d}/patch.diff")
            res["patch_applies"] = rca == 0
            if rca == 0:
                env = dict(os.environ, VERIF_REPO=wt, VERIF_EVIDENCE_DIR=os.path.join(d, "evidence"))
                t0 = time.time()
                rcc, oc = sh(f"bin/check {prop} --tier quick", env=env, cwd=VERIF)
                viol = re.findall(r"^VIOLATION .*$", oc, re.M)
                res.update(check_rc=rcc, wall_s=round(time.time() - t0, 1), violation_lines=viol[:3],
                           caught=(rcc == 1 and bool(viol)),
                           with_failing_input=any("no-failing-input-found" not in v for v in viol))
            else:
                res["note"] = "the patch no longer applies to /repo HEAD (a later fix touched the same lines)"
        finally:
            sh(f"git -C /repo worktree remove --force {wt}")
        meta["recheck"] = res
        json.dump(meta, open(mp, "w"), indent=1)
        print(sid, res.get("patch_applies"), res.get("check_rc"), res.get("caught"), res.get("with_failing_input"), flush=True)


if __name__ == "__main__":
    main()
