"""
Shared machinery of /verif/bin/check  (DESIGN.md §1, §4, §5, §7).

A property module (harness/props/cXX.py) exports

    PROPERTY   = "C24"
    THEOREMS   = ["DAVerif.OSet.C24_step_refines", ...]     # property theorems (Props/CXX.lean)
    LEAN_MODULES = ["DAVerif.Props.C24"]                    # modules holding them
    SUITES     = [Suite, ...]                               # correspondence + oracle suites
    NOT_PROVEN = [...]                                      # parts sampled, not proven (free text)
    ASSUMPTIONS = [...]

A Suite gives
    name            suite name (also the driver's suite name unless driver_suite is set)
    gen(rng, tier)  -> iterable of JSON-able cases
    real(case)      -> canonical outcome of the implementation (JSON-able), run in-process on /repo
    model_canon(out)-> canonicalise the driver's outcome (default identity)
    oracle(case, real_out) -> None | str      property oracle on the real code only (failing-input search)
    finding(case, real_out, why) -> id | None  which known finding (guard G_k) the failing case falls under
    nontrivial(case, real_out) -> bool
    shrink(case)    -> iterable of smaller cases
"""
import fcntl
import hashlib
import itertools
import json
import os
import random
import re
import subprocess
import sys
import time
import traceback

VERIF = os.path.dirname(os.path.dirname(os.path.abspath(__file__)))
LEAN_DIR = os.path.join(VERIF, "lean")
DRIVER = os.path.join(LEAN_DIR, ".lake", "build", "bin", "driver")
WORK = os.path.join(VERIF, ".work")
REPO = os.environ.get("VERIF_REPO", "/repo")
GUARD_ENV = "WINVECTOR_DATA_ALGEBRA_VERIF"

ALLOWED_AXIOMS = {"propext", "Classical.choice", "Quot.sound"}
FORBIDDEN_RE = re.compile(
    r"\bsorry\b|\badmit\b|^\s*axiom\s|native_decide|bv_decide|implemented_by|\bunsafe\s|maxHeartbeats\s+0\b"
)


class Infra(Exception):
    """infrastructure problem: exit 2, never a VIOLATION"""


class Suite:
    name = "?"
    driver_suite = None
    corr = True  # has a model side

    def gen(self, rng, tier):
        return []

    def real(self, case):
        raise NotImplementedError

    def driver_case(self, case):
        """what is sent to the Lean driver for this case (default: the case itself)"""
        return case

    def model_canon(self, out, case=None):
        return out

    def real_canon(self, out, case=None):
        return out

    def agree(self, real_c, model_c):
        """do the canonicalised outcomes of implementation and model agree (default: equal JSON)"""
        return canon_json(real_c) == canon_json(model_c)

    def oracle(self, case, real_out):
        return None

    def finding(self, case, real_out, why):
        return None

    def nontrivial(self, case, real_out):
        return True

    def shrink(self, case):
        return []

    def corpus(self):
        return []


# ------------------------------------------------------------------------------------------------
# Lean side: regenerate tables, build, audit
# ------------------------------------------------------------------------------------------------

def _strip_comments(src):
    # remove /- ... -/ (nested) and -- ... comments
    out = []
    i, depth, n = 0, 0, len(src)
    while i < n:
        if src.startswith("/-", i):
            depth += 1
            i += 2
        elif depth and src.startswith("-/", i):
            depth -= 1
            i += 2
        elif depth:
            i += 1
        elif src.startswith("--", i):
            j = src.find("\n", i)
            i = n if j < 0 else j
        else:
            out.append(src[i])
            i += 1
    return "".join(out)


def source_audit():
    """grep the whole library for forbidden constructs (comments discarded)"""
    hits = []
    for root, _, files in os.walk(LEAN_DIR):
        if ".lake" in root:
            continue
        for f in files:
            if not f.endswith(".lean"):
                continue
            p = os.path.join(root, f)
            txt = _strip_comments(open(p, encoding="utf-8").read())
            for ln, line in enumerate(txt.split("\n"), 1):
                if FORBIDDEN_RE.search(line):
                    hits.append(f"{os.path.relpath(p, LEAN_DIR)}: {line.strip()[:120]}")
    return hits


def regenerate_tables():
    """S0: rewrite lean/DAVerif/Generated/*.lean from /repo's working tree (translator)."""
    res = {}
    for name in ("extract_tables.py", "extract_expr_tables.py"):
        ext = os.path.join(VERIF, "harness", name)
        if not os.path.exists(ext):
            continue
        r = subprocess.run([sys.executable, ext], capture_output=True, text=True, timeout=300,
                           env=dict(os.environ, PYTHONPATH=REPO))
        if r.returncode != 0:
            return {"error": name + ": " + (r.stdout + r.stderr)[-4000:]}
        try:
            res[name] = json.loads(r.stdout.strip().split("\n")[-1])
        except Exception:
            res[name] = {"ok": True}
    return res or {"skipped": True}


def lake_build(targets=("DAVerif", "driver"), timeout=3000):
    os.makedirs(WORK, exist_ok=True)
    with open(os.path.join(WORK, "lake.lock"), "w") as lk:
        fcntl.flock(lk, fcntl.LOCK_EX)
        t0 = time.time()
        try:
            r = subprocess.run(["lake", "build", *targets], cwd=LEAN_DIR, capture_output=True, text=True,
                               timeout=timeout)
        except subprocess.TimeoutExpired:
            raise Infra("lake build timed out")
        return r.returncode == 0, r.stdout + r.stderr, time.time() - t0


def failing_modules(build_log):
    mods = re.findall(r"^- (DAVerif[\w.]*)", build_log, re.M)
    errs = re.findall(r"^error: (\S+\.lean):(\d+):\d+: (.*)$", build_log, re.M)
    return mods, errs


def print_axioms(modules, theorems):
    """run `#print axioms` on every property theorem; returns {theorem: [axioms]} ; missing theorem -> None"""
    os.makedirs(WORK, exist_ok=True)
    src = "".join(f"import {m}\n" for m in modules)
    src += "".join(f"#print axioms {t}\n" for t in theorems)
    p = os.path.join(WORK, f"audit_{os.getpid()}.lean")
    open(p, "w").write(src)
    try:
        r = subprocess.run(["lake", "env", "lean", p], cwd=LEAN_DIR, capture_output=True, text=True, timeout=900)
    except subprocess.TimeoutExpired:
        raise Infra("axiom audit timed out")
    finally:
        try:
            os.remove(p)
        except OSError:
            pass
    out = r.stdout + r.stderr
    res = {}
    flat = out.replace("\n", " ")
    for t in theorems:
        m = re.search(r"'" + re.escape(t) + r"' depends on axioms: \[([^\]]*)\]", flat)
        if m:
            res[t] = [a.strip() for a in m.group(1).split(",") if a.strip()]
        elif re.search(r"'" + re.escape(t) + r"' does not depend on any axioms", flat):
            res[t] = []
        else:
            res[t] = None
    return res, out


class Driver:
    """one compiled Lean driver process; cases in, canonical outcomes out (batch mode)"""

    def run(self, suite_name, cases):
        if not cases:
            return []
        if not os.path.exists(DRIVER):
            raise Infra("driver binary missing")
        lines = []
        for i, c in enumerate(cases):
            lines.append(json.dumps({"suite": suite_name, "id": i, "case": c}, ensure_ascii=False,
                                    separators=(",", ":")))
        try:
            r = subprocess.run([DRIVER], input=("\n".join(lines) + "\n").encode("utf-8"), capture_output=True,
                               timeout=1800)
        except subprocess.TimeoutExpired:
            raise Infra("driver timed out")
        outs = [None] * len(cases)
        for ln in r.stdout.decode("utf-8", "replace").split("\n"):
            ln = ln.strip()
            if not ln:
                continue
            try:
                o = json.loads(ln)
            except Exception:
                continue
            if isinstance(o.get("id"), int) and 0 <= o["id"] < len(cases):
                outs[o["id"]] = {"bad": o["bad"]} if "bad" in o else {"out": o.get("out")}
        if r.returncode != 0 and any(o is None for o in outs):
            # the driver died (stack overflow / panic): report the first unanswered case as model failure
            for i, o in enumerate(outs):
                if o is None:
                    outs[i] = {"bad": f"driver-died rc={r.returncode} {r.stderr.decode('utf-8', 'replace')[-200:]}"}
        return outs


# ------------------------------------------------------------------------------------------------
# known findings
# ------------------------------------------------------------------------------------------------

def load_known():
    p = os.path.join(VERIF, "known_findings.json")
    if not os.path.exists(p):
        return {"known": [], "fixed": []}
    return json.load(open(p))


# ------------------------------------------------------------------------------------------------
# the check
# ------------------------------------------------------------------------------------------------

def kind_of(why):
    """the kind of an oracle failure: the text before the first ':', or `Cxx:what` for the oracles of harness/oracles.py
    (whose kinds all start with the property id)"""
    parts = str(why).split(":")
    if len(parts) >= 2 and re.fullmatch(r"C\d\d", parts[0].strip()):
        return parts[0].strip() + ":" + parts[1].strip()
    return parts[0]


def canon_json(x):
    return json.dumps(x, sort_keys=True, ensure_ascii=False, separators=(",", ":"))


def safe_real(suite, case):
    try:
        return suite.real(case)
    except Infra:
        raise
    except Exception as e:  # the harness itself must not fall over: record as an outcome
        return {"harness_exc": type(e).__name__ + ": " + str(e)[:200],
                "tb": traceback.format_exc()[-600:]}


class Check:
    def __init__(self, mod, tier, seed):
        self.mod = mod
        self.prop = mod.PROPERTY
        self.tier = tier
        self.seed = seed
        self.t0 = time.time()
        self.violations = []  # (kind, replay_path, suffix)
        self.known_printed = []
        self.ev = {
            "property_id": self.prop, "tier": tier, "seed": seed, "level": "proof",
            "coverage": {}, "assumptions": list(getattr(mod, "ASSUMPTIONS", [])), "wall_s": 0.0, "violations": 0,
        }
        self.replay_dir = os.path.join(VERIF, "replays", self.prop)
        self.known = [k for k in load_known()["known"] if k["property"] == self.prop]

    # ---- replay files -------------------------------------------------------------------------
    def write_replay(self, obj, tag):
        os.makedirs(self.replay_dir, exist_ok=True)
        h = hashlib.sha256(canon_json(obj).encode()).hexdigest()[:12]
        p = os.path.join(self.replay_dir, f"{tag}_{h}.json")
        with open(p, "w") as f:
            json.dump(obj, f, indent=1, ensure_ascii=False, sort_keys=True)
        return os.path.relpath(p, VERIF)

    def violation(self, obj, tag, no_input=False):
        obj = dict(obj, property=self.prop)
        p = self.write_replay(obj, tag)
        line = f"VIOLATION property={self.prop} replay={p}" + (" no-failing-input-found" if no_input else "")
        print(line, flush=True)
        self.violations.append(line)

    # ---- S0 + S1 ------------------------------------------------------------------------------
    def prove(self):
        cov = self.ev["coverage"]
        gen = regenerate_tables()
        cov["tables_regenerated"] = gen
        broken = []  # names of theorems / modules that no longer check
        if isinstance(gen, dict) and gen.get("error"):
            broken.append("translator extract_tables.py failed: " + gen["error"][-300:])
        ok, log, dt = lake_build()
        cov["lake_build_s"] = round(dt, 2)
        if not ok:
            mods, errs = failing_modules(log)
            broken.append("lake build failed in modules " + ", ".join(mods or ["?"]))
            cov["build_errors"] = [f"{f}:{ln}: {msg}" for f, ln, msg in errs[:10]]
        hits = source_audit()
        cov["forbidden_construct_hits"] = hits
        for h in hits:
            broken.append("forbidden construct: " + h)
        theorems = list(self.mod.THEOREMS)
        axioms = {}
        if ok:
            axioms, raw = print_axioms(self.mod.LEAN_MODULES, theorems)
            for t, ax in axioms.items():
                if ax is None:
                    broken.append(f"theorem {t} not found / does not check")
                elif not set(ax) <= ALLOWED_AXIOMS:
                    broken.append(f"theorem {t} depends on axioms {sorted(set(ax) - ALLOWED_AXIOMS)}")
        discharged = sum(1 for t in theorems if axioms.get(t) is not None and set(axioms[t]) <= ALLOWED_AXIOMS)
        cov["obligations"] = len(theorems)
        cov["discharged"] = discharged if ok else 0
        cov["theorems"] = {t: axioms.get(t) for t in theorems}
        cov["checker_cmd"] = ("cd /verif/lean && lake build DAVerif driver && lake env lean <#print axioms of every "
                              "theorem listed under coverage.theorems>")
        cov["trusted_base"] = [
            "Lean 4.33.0 kernel",
            "axioms: subset of {propext, Classical.choice, Quot.sound} (audited per theorem, see coverage.theorems)",
            "hand-written Lean model tied to /repo by the correspondence suites listed in coverage.suites "
            "(differential testing; bounded by generator quality)",
            "harness/extract_tables.py (translator of data tables, where used)",
        ] + list(getattr(self.mod, "TRUSTED", []))
        if ok and self.tier == "thorough":
            # independent re-check of the compiled property modules by leanchecker (Lean's external kernel re-checker)
            t1 = time.time()
            try:
                r = subprocess.run(["lake", "env", "leanchecker", *self.mod.LEAN_MODULES], cwd=LEAN_DIR,
                                   capture_output=True, text=True, timeout=1500)
                cov["leanchecker"] = {"modules": list(self.mod.LEAN_MODULES), "rc": r.returncode,
                                      "wall_s": round(time.time() - t1, 1)}
                if r.returncode != 0:
                    broken.append("leanchecker rejected " + ", ".join(self.mod.LEAN_MODULES) + ": "
                                  + (r.stdout + r.stderr)[-300:])
            except subprocess.TimeoutExpired:
                cov["leanchecker"] = {"modules": list(self.mod.LEAN_MODULES), "rc": "timeout"}
        cov["not_proven_only_sampled"] = list(getattr(self.mod, "NOT_PROVEN", []))
        self.driver_ok = ok and os.path.exists(DRIVER)
        return broken

    # ---- S2 + S3 ------------------------------------------------------------------------------
    BATCH = 400

    def _stream(self, suite, drv, case_iter):
        while True:
            cases = list(itertools.islice(case_iter, self.BATCH))
            if not cases:
                return
            reals = [safe_real(suite, c) for c in cases]
            models = [None] * len(cases)
            if suite.corr and self.driver_ok:
                models = drv.run(suite.driver_suite or suite.name, [suite.driver_case(c) for c in cases])
            yield from zip(cases, reals, models)

    def run_suites(self, broken):
        cov = self.ev["coverage"]
        cov["suites"] = {}
        rng = random.Random(self.seed)
        drv = Driver()
        total = 0
        distinct = set()
        samples = []
        corr_breaks = []  # (suite, case, real, model)
        oracle_failures = []  # (suite, case, real, why, model_equal)
        for suite in self.mod.SUITES:
            srng = random.Random(rng.getrandbits(64))
            st = {"cases": 0, "model_agree": 0, "model_differ": 0, "oracle_fail": 0, "nontrivial": 0,
                  "harness_exc": 0}
            t1 = time.time()
            # cases are streamed in batches (generate -> real code -> Lean driver -> compare -> drop) so that a thorough
            # run's memory does not grow with the number of cases
            for c, r, m in self._stream(suite, drv, itertools.chain(suite.corpus(), suite.gen(srng, self.tier))):
                st["cases"] += 1
                total += 1
                if isinstance(r, dict) and "harness_exc" in r:
                    st["harness_exc"] += 1
                key = canon_json(c)
                nt = False
                try:
                    nt = bool(suite.nontrivial(c, r))
                except Exception:
                    pass
                if nt:
                    st["nontrivial"] += 1
                    distinct.add(hashlib.sha1(key.encode()).digest())
                agree = None
                if suite.corr and m is not None:
                    if "bad" in m:
                        agree = False
                        mc = {"bad": m["bad"]}
                    else:
                        mc = suite.model_canon(m["out"], c)
                        agree = suite.agree(suite.real_canon(r, c), mc)
                    if agree:
                        st["model_agree"] += 1
                    else:
                        st["model_differ"] += 1
                        corr_breaks.append((suite, c, r, mc))
                try:
                    why = suite.oracle(c, r)
                except Exception as e:
                    why = "oracle raised " + type(e).__name__ + ": " + str(e)[:200]
                if why:
                    st["oracle_fail"] += 1
                    oracle_failures.append((suite, c, r, why, agree))
                if len(samples) < 3 and nt:
                    samples.append({"suite": suite.name, "case": c, "real": r})
            st["wall_s"] = round(time.time() - t1, 2)
            dist = getattr(suite, "distribution", None)
            if dist:
                st["input_distribution"] = dist
            cov["suites"][suite.name] = st
        cov["evaluations"] = total
        cov["distinct_nontrivial"] = len(distinct)
        cov["rule"] = getattr(self.mod, "RULE", "cases generated from VERIF_SEED by the suite generators; distinct by "
                                               "canonical JSON; non-trivial per suite.nontrivial")
        cov["samples"] = samples[:3] if samples else [{"note": "no non-trivial sample"}]
        return corr_breaks, oracle_failures

    # ---- S4 -----------------------------------------------------------------------------------
    def verdict(self, broken, corr_breaks, oracle_failures):
        cov = self.ev["coverage"]
        known_ids = {k["id"]: k for k in self.known}
        seen_known = {}
        new_fail = []
        for suite, c, r, why, agree in oracle_failures:
            fid = None
            try:
                fid = suite.finding(c, r, why)
            except Exception:
                fid = None
            if fid in known_ids and agree is not False:
                seen_known.setdefault(fid, (suite, c, why))
            else:
                new_fail.append((suite, c, r, why, agree))
        for fid, (suite, c, why) in sorted(seen_known.items()):
            print(f"KNOWN-FINDING: property={self.prop} {fid}: {known_ids[fid]['what']}", flush=True)
            self.known_printed.append(fid)
        cov["known_findings_seen"] = sorted(seen_known)
        cov["known_findings_listed"] = sorted(known_ids)
        reported = set()
        for suite, c, r, why, agree in new_fail:
            # shrink
            c2, r2, why2 = self.shrink(suite, c, r, why, known_ids=known_ids)
            sig = (suite.name, kind_of(why2)[:80])
            if sig in reported:
                continue
            reported.add(sig)
            self.violation({"suite": suite.name, "case": c2, "oracle": why2, "observed": r2,
                            "model_agrees_with_code": agree,
                            "broken_obligations": broken}, "fail")
            if len(reported) >= 5:
                break
        if not new_fail:
            if broken:
                self.violation({"suite": None, "no_longer_checks": broken,
                                "note": "a proof obligation of this property no longer checks; the failing-input "
                                        "search on the implementation found no input violating the property"},
                               "proof", no_input=True)
            elif corr_breaks:
                suite, c, r, mc = corr_breaks[0]
                c2 = self.shrink_corr(suite, c)
                self.violation({"suite": suite.name, "case": c2[0], "code_outcome": c2[1], "model_outcome": c2[2],
                                "no_longer_checks": f"correspondence suite {suite.name} ({len(corr_breaks)} differing "
                                                    f"cases)",
                                "note": "model and implementation differ; the oracle found no input on which the "
                                        "property fails"}, "corr", no_input=True)
        cov["correspondence_breaks"] = len(corr_breaks)
        cov["oracle_failures_new"] = len(new_fail)

    def shrink(self, suite, c, r, why, budget=300, known_ids=()):
        """smaller case with the same KIND of failure that is still not a listed finding (a shrink step must never
        drift from a new violation onto a known one: the replay would then be silent)"""
        cur, cur_r, cur_why = c, r, why
        progress = True
        n = 0
        while progress and n < budget:
            progress = False
            for cand in suite.shrink(cur):
                n += 1
                if n >= budget:
                    break
                rr = safe_real(suite, cand)
                try:
                    w = suite.oracle(cand, rr)
                except Exception:
                    w = None
                if w and kind_of(w) == kind_of(cur_why):
                    try:
                        if suite.finding(cand, rr, w) in known_ids:
                            continue
                    except Exception:
                        pass
                    cur, cur_r, cur_why = cand, rr, w
                    progress = True
                    break
        return cur, cur_r, cur_why

    def shrink_corr(self, suite, c, budget=200):
        drv = Driver()

        def differs(case):
            rr = safe_real(suite, case)
            m = drv.run(suite.driver_suite or suite.name, [suite.driver_case(case)])[0]
            mc = {"bad": m["bad"]} if "bad" in m else suite.model_canon(m["out"], case)
            return (not suite.agree(suite.real_canon(rr, case), mc)), rr, mc

        d, rr, mc = differs(c)
        cur = (c, rr, mc)
        n = 0
        progress = True
        while progress and n < budget:
            progress = False
            for cand in suite.shrink(cur[0]):
                n += 1
                if n >= budget:
                    break
                d, rr, mc = differs(cand)
                if d:
                    cur = (cand, rr, mc)
                    progress = True
                    break
        return cur

    # ---- evidence -----------------------------------------------------------------------------
    def finish(self):
        self.ev["wall_s"] = round(time.time() - self.t0, 2)
        self.ev["violations"] = len(self.violations)
        # seeded-change evaluation (VERIF_EVIDENCE_DIR set by harness/seedeval.py) must not overwrite the evidence of /repo
        evdir = os.environ.get("VERIF_EVIDENCE_DIR") or os.path.join(VERIF, "evidence")
        os.makedirs(evdir, exist_ok=True)
        p = os.path.join(evdir, f"{self.prop}.json")
        with open(p, "w") as f:
            json.dump(self.ev, f, indent=1, ensure_ascii=False, default=str)
        return 1 if self.violations else 0

    def main(self):
        broken = self.prove()
        extra = getattr(self.mod, "extra_obligations", None)
        if extra:
            broken += list(extra(self) or [])
        corr_breaks, oracle_failures = self.run_suites(broken)
        self.verdict(broken, corr_breaks, oracle_failures)
        return self.finish()


def replay(mod, path):
    obj = json.load(open(path))
    suites = {s.name: s for s in mod.SUITES}
    if obj.get("suite") not in suites:
        print("replay names no case (proof obligation / correspondence record):")
        print(json.dumps(obj, indent=1)[:3000])
        return 1
    suite = suites[obj["suite"]]
    c = obj["case"]
    r = safe_real(suite, c)
    print("code outcome :", canon_json(r)[:2000])
    fails = False
    if suite.corr and os.path.exists(DRIVER):
        m = Driver().run(suite.driver_suite or suite.name, [suite.driver_case(c)])[0]
        mc = {"bad": m["bad"]} if "bad" in m else suite.model_canon(m["out"], c)
        print("model outcome:", canon_json(mc)[:2000])
        eq = suite.agree(suite.real_canon(r, c), mc)
        print("code = model :", eq)
        if not eq and obj.get("no_longer_checks"):
            fails = True
    why = suite.oracle(c, r)
    print("oracle       :", why or "property holds on this case")
    if why:
        known = {k["id"]: k for k in load_known()["known"] if k["property"] == mod.PROPERTY}
        fid = None
        try:
            fid = suite.finding(c, r, why)
        except Exception:
            fid = None
        if fid in known and not fails:
            print(f"KNOWN-FINDING: property={mod.PROPERTY} {fid}: {known[fid]['what']}")
        else:
            fails = True
    return 1 if fails else 0
