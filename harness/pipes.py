"""
Shared pipeline generator, builder, serialiser, runners and comparison helpers (DESIGN.md §4.2, Appendix C).

Everything here is plain Python over the REAL data_algebra in $VERIF_REPO (default /repo); nothing imports the Lean
side.  All randomness comes from the `random.Random` passed in; a case replays from its JSON alone.

JSON encodings (the Lean driver parses exactly these)

  Val    := null | true | false | {"i": int} | {"f": [num, den]} | {"s": "text"}
            (+ {"inf": 1|-1} only ever in *outcome* tables, never generated)
  Table  := {"cols": [str..], "kinds": ["int"|"float"|"str"|"bool"..], "rows": [[Val..]..]}
  Term   := {"v": Val} | {"c": "col"} | {"list": [Val..]} | {"dict": [[Val, Val]..]}
          | {"op": name, "args": [Term..], "inline": bool, "method": bool}
  Step   := {"call": "extend", "ops": [[col, text]..], "partition_by": [..]|1|null, "order_by": [..]|null,
             "reverse": [..]|null}
          | {"call": "project", "ops": [[col, text]..], "group_by": [..]}
          | {"call": "select_rows", "expr": text}
          | {"call": "select_columns"|"drop_columns", "cols": [..]}
          | {"call": "rename_columns", "map": [[new, old]..]} | {"call": "map_columns", "map": [[old, new|null]..]}
          | {"call": "order_rows", "cols": [..], "reverse": [..]|null, "limit": int|null}
          | {"call": "natural_join", "b": Pipe, "on": [..]|[[a,b]..], "jointype": str, "check": bool}
          | {"call": "concat_rows", "b": Pipe, "id_column": str|null, "a_name": str, "b_name": str}
          | {"call": "convert_records", "blocks_in": Spec|null, "blocks_out": Spec|null}
  Pipe   := {"table": name, "steps": [Step..]} | {"src": Pipe, "steps": [Step..]} | {"ref": k}
            any Pipe object may carry "def": k  -> the built Python object is remembered under k; {"ref": k}
            re-uses that very object (shared sub-DAG).  "src" (a pipeline continued from another pipeline) is the one
            addition to the brief's grammar: it is what lets a *prefix* of the main pipeline be shared.
  Spec   := {"control": Table, "record_keys": [..], "control_keys": [..], "strict": bool}
  Case   := {"tables": {name: Table}, "pipe": Pipe, "meta": {...}}      (meta is informational only)
  Tree   := see to_tree()

pandas representation chosen by tables_to_pandas (documented because oracles depend on it):
  int   no nulls -> int64 ; with nulls -> float64 (NaN)      [int-ness survives only in "kinds"]
  float -> float64 (NaN for null)
  str   -> pandas default inference (pandas 3: `str` dtype, NaN for null); all-null / empty -> object (None)
  bool  no nulls -> bool ; with nulls -> object (True/False/None)
"""
import copy
import fractions
import json
import math
import re
import sqlite3
import warnings

KINDS = ("int", "float", "str", "bool")


# ------------------------------------------------------------------------------------------------
# lazy imports of the real library (so that importing this module is cheap and VERIF_REPO is honoured by PYTHONPATH)
# ------------------------------------------------------------------------------------------------

class _Lib:
    _loaded = False

    def __getattr__(self, name):
        if not _Lib._loaded:
            self._load()
        return self.__dict__[name]

    def _load(self):
        import numpy
        import pandas
        import data_algebra
        import data_algebra.data_ops
        import data_algebra.view_representations as vr
        import data_algebra.expr_rep as er
        import data_algebra.cdata
        import data_algebra.SQLite
        import data_algebra.PostgreSQL
        import data_algebra.op_catalog
        from data_algebra.sql_format_options import SQLFormatOptions
        d = self.__dict__
        d.update(np=numpy, pd=pandas, da=data_algebra, vr=vr, er=er, cdata=data_algebra.cdata,
                 SQLite=data_algebra.SQLite, PostgreSQL=data_algebra.PostgreSQL, catalog=data_algebra.op_catalog,
                 SQLFormatOptions=SQLFormatOptions, TableDescription=vr.TableDescription)
        _Lib._loaded = True


L = _Lib()


# ------------------------------------------------------------------------------------------------
# Val / Table encodings
# ------------------------------------------------------------------------------------------------

def _is_null(v):
    if v is None:
        return True
    try:
        if isinstance(v, float) and math.isnan(v):
            return True
    except Exception:
        pass
    try:
        pd = L.pd
        if v is pd.NaT or v is pd.NA:
            return True
    except Exception:
        pass
    return False


def _py_scalar(v):
    """numpy / pandas scalars -> plain Python scalars"""
    if v is None or isinstance(v, (bool, int, float, str)):
        return v
    it = getattr(v, "item", None)
    if callable(it):
        try:
            return it()
        except Exception:
            pass
    return v


def enc_val(v, kind=None):
    """Python scalar -> Val.  `kind` (the column's kind) decides int-vs-float and bool-vs-0/1."""
    v = _py_scalar(v)
    if _is_null(v):
        return None
    if kind == "bool" and isinstance(v, (int, float)) and not isinstance(v, bool) and v in (0, 1):
        return bool(v)
    if isinstance(v, bool):
        if kind in ("int", "float"):
            v = int(v)
        else:
            return v
    if isinstance(v, int):
        if kind == "float":
            return {"f": [v, 1]}
        return {"i": v}
    if isinstance(v, float):
        if math.isinf(v):
            return {"inf": 1 if v > 0 else -1}
        if kind == "int" and v == math.floor(v):
            return {"i": int(v)}
        fr = fractions.Fraction(v)
        return {"f": [fr.numerator, fr.denominator]}
    if isinstance(v, str):
        return {"s": v}
    return {"s": str(v)}


def dec_val(j):
    """Val -> Python scalar (floats for {"f":..}, ints for {"i":..})"""
    if j is None or isinstance(j, bool):
        return j
    if "i" in j:
        return int(j["i"])
    if "f" in j:
        return j["f"][0] / j["f"][1]
    if "s" in j:
        return j["s"]
    if "inf" in j:
        return math.inf if j["inf"] > 0 else -math.inf
    raise ValueError("bad Val " + repr(j))


def val_num(j):
    """numeric reading of a Val (bools as 0/1) or None"""
    if j is None:
        return None
    if isinstance(j, bool):
        return 1.0 if j else 0.0
    if "i" in j:
        return float(j["i"])
    if "f" in j:
        return j["f"][0] / j["f"][1]
    if "inf" in j:
        return math.inf if j["inf"] > 0 else -math.inf
    return None


def mk_table(cols, kinds, rows):
    """build a Table from Python values"""
    return {"cols": list(cols), "kinds": list(kinds),
            "rows": [[enc_val(v, k) for v, k in zip(r, kinds)] for r in rows]}


def table_column(table, col):
    j = table["cols"].index(col)
    return [r[j] for r in table["rows"]]


def tables_to_pandas(tables):
    """{name: Table} -> {name: DataFrame}; see the module docstring for the dtype policy."""
    pd, np = L.pd, L.np
    out = {}
    for name, t in tables.items():
        data = {}
        n = len(t["rows"])
        for j, (c, k) in enumerate(zip(t["cols"], t["kinds"])):
            vals = [dec_val(r[j]) for r in t["rows"]]
            has_null = any(v is None for v in vals)
            if k == "int":
                if has_null:
                    data[c] = pd.Series([np.nan if v is None else float(v) for v in vals], dtype="float64")
                else:
                    data[c] = pd.Series([int(v) for v in vals], dtype="int64")
            elif k == "float":
                data[c] = pd.Series([np.nan if v is None else float(v) for v in vals], dtype="float64")
            elif k == "bool":
                if has_null:
                    data[c] = pd.Series(vals, dtype=object)
                else:
                    data[c] = pd.Series([bool(v) for v in vals], dtype=bool)
            else:
                if n == 0 or all(v is None for v in vals):
                    data[c] = pd.Series(vals, dtype=object)
                else:
                    data[c] = pd.Series(vals)  # pandas' own inference (pandas 3: str dtype)
        out[name] = pd.DataFrame(data, columns=list(t["cols"])) if data else pd.DataFrame(index=range(n))
    return out


def tables_to_polars(tables, lazy=False):
    import polars as pl
    tmap = {"int": pl.Int64, "float": pl.Float64, "str": pl.Utf8, "bool": pl.Boolean}
    out = {}
    for name, t in tables.items():
        data = {}
        schema = {}
        for j, (c, k) in enumerate(zip(t["cols"], t["kinds"])):
            vals = [dec_val(r[j]) for r in t["rows"]]
            if k == "float":
                vals = [None if v is None else float(v) for v in vals]
            data[c] = vals
            schema[c] = tmap[k]
        df = pl.DataFrame(data, schema=schema)
        out[name] = df.lazy() if lazy else df
    return out


def _infer_kind(values, dtype_hint=None):
    """kind of a result column from its non-null Python values"""
    seen = set()
    for v in values:
        v = _py_scalar(v)
        if _is_null(v):
            continue
        if isinstance(v, bool):
            seen.add("bool")
        elif isinstance(v, int):
            seen.add("int")
        elif isinstance(v, float):
            seen.add("float")
        elif isinstance(v, str):
            seen.add("str")
        else:
            seen.add("str")
    if not seen:
        return dtype_hint or "float"
    if seen == {"bool"}:
        return "bool"
    if seen <= {"int", "bool"}:
        return "int"
    if seen <= {"int", "float", "bool"}:
        return "float"
    return "str"


def frame_to_table(df, kinds=None):
    """
    canonical Table of a result frame (pandas or polars, eager or lazy).
    NaN/None/NaT -> null; bool stays bool; numpy ints -> {"i":..}; floats -> exact {"f":[n,d]};
    integral floats in a column whose kind (given through `kinds`: list parallel to columns or {col: kind}) is int
    -> {"i":..}.  Without `kinds` the kind is read off the dtype / values.
    """
    mod = type(df).__module__.split(".")[0]
    if mod == "polars":
        if hasattr(df, "collect") and not hasattr(df, "rows"):
            df = df.collect()
        cols = list(df.columns)
        columns = [df[c].to_list() for c in cols]
        hints = []
        for c in cols:
            dt = str(df[c].dtype)
            hints.append("bool" if dt == "Boolean" else "int" if dt.startswith(("Int", "UInt")) else
                         "float" if dt.startswith("Float") else "str" if dt in ("String", "Utf8") else None)
    else:
        pd = L.pd
        cols = [c for c in df.columns]
        columns = []
        hints = []
        for j in range(len(cols)):
            s = df.iloc[:, j]
            dt = s.dtype
            if pd.api.types.is_bool_dtype(dt):
                hints.append("bool")
            elif pd.api.types.is_integer_dtype(dt):
                hints.append("int")
            elif pd.api.types.is_float_dtype(dt):
                hints.append("float")
            else:
                hints.append(None)
            columns.append(s.tolist())
    n = len(columns[0]) if columns else len(df)
    out_kinds = []
    for j, c in enumerate(cols):
        k = None
        if isinstance(kinds, dict):
            k = kinds.get(c)
        elif kinds is not None and j < len(kinds):
            k = kinds[j]
        if k is None:
            k = hints[j] if hints[j] is not None else _infer_kind(columns[j], "str")
        out_kinds.append(k)
    rows = [[enc_val(columns[j][i], out_kinds[j]) for j in range(len(cols))] for i in range(n)]
    return {"cols": [str(c) for c in cols], "kinds": out_kinds, "rows": rows}


# ------------------------------------------------------------------------------------------------
# build: Pipe JSON -> real ViewRepresentation, through the real builders
# ------------------------------------------------------------------------------------------------

def spec_to_real(spec):
    """Spec JSON -> data_algebra.cdata.RecordSpecification (or None)"""
    if spec is None:
        return None
    ct = tables_to_pandas({"c": spec["control"]})["c"]
    return L.cdata.RecordSpecification(ct, record_keys=list(spec["record_keys"]),
                                       control_table_keys=list(spec["control_keys"]), strict=bool(spec["strict"]))


def spec_from_real(rs):
    if rs is None:
        return None
    return {"control": frame_to_table(rs.control_table), "record_keys": list(rs.record_keys),
            "control_keys": list(rs.control_table_keys), "strict": bool(rs.strict)}


def _on_arg(on):
    if on is None:
        return None
    return [tuple(v) if isinstance(v, (list, tuple)) else v for v in on]


def apply_step(ops, step, sub_builder):
    """one REAL builder call. `sub_builder(pipe) -> ops` builds the b argument of joins / concats."""
    call = step["call"]
    if call == "extend":
        return ops.extend([(k, v) for k, v in step["ops"]] if _dup_keys(step["ops"]) else {k: v for k, v in step["ops"]},
                          partition_by=step.get("partition_by"), order_by=step.get("order_by"),
                          reverse=step.get("reverse"))
    if call == "project":
        o = step.get("ops") or []
        return ops.project([(k, v) for k, v in o] if _dup_keys(o) else {k: v for k, v in o},
                           group_by=step.get("group_by"))
    if call == "select_rows":
        return ops.select_rows(step["expr"])
    if call == "select_columns":
        return ops.select_columns(list(step["cols"]))
    if call == "drop_columns":
        return ops.drop_columns(list(step["cols"]))
    if call == "rename_columns":
        return ops.rename_columns({k: v for k, v in step["map"]})
    if call == "map_columns":
        return ops.map_columns({k: v for k, v in step["map"]})
    if call == "order_rows":
        return ops.order_rows(list(step["cols"]), reverse=step.get("reverse"), limit=step.get("limit"))
    if call == "natural_join":
        b = sub_builder(step["b"])
        return ops.natural_join(b, on=_on_arg(step.get("on")), jointype=step["jointype"],
                                check_all_common_keys_in_equi_spec=bool(step.get("check", False)))
    if call == "concat_rows":
        b = sub_builder(step["b"])
        return ops.concat_rows(b, id_column=step.get("id_column"), a_name=step.get("a_name", "a"),
                               b_name=step.get("b_name", "b"))
    if call == "convert_records":
        rm = L.cdata.RecordMap(blocks_in=spec_to_real(step.get("blocks_in")),
                               blocks_out=spec_to_real(step.get("blocks_out")),
                               strict=bool(step.get("strict", True)))
        return ops.convert_records(rm)
    raise ValueError("unknown call " + repr(call))


def _dup_keys(pairs):
    ks = [p[0] for p in pairs]
    return len(ks) != len(set(ks))


class Builder:
    """builds Pipe JSON with def/ref sharing; one TableDescription object per table name"""

    def __init__(self, tables):
        self.tables = tables
        self.defs = {}
        self.table_objs = {}

    def table(self, name):
        if name not in self.table_objs:
            t = self.tables[name]
            cols = t["cols"] if isinstance(t, dict) else list(t)
            self.table_objs[name] = L.TableDescription(table_name=name, column_names=list(cols))
        return self.table_objs[name]

    def pipe(self, p):
        if "ref" in p and "steps" not in p and "table" not in p and "src" not in p:
            return self.defs[p["ref"]]
        if "table" in p:
            ops = self.table(p["table"])
        else:
            ops = self.pipe(p["src"])
        for s in p.get("steps", []):
            ops = apply_step(ops, s, self.pipe)
        if "def" in p:
            self.defs[p["def"]] = ops
        return ops


def build(case_or_pipe, tables=None):
    """Case or Pipe (+ tables: {name: Table} or {name: [cols]}) -> the real ViewRepresentation. Raises what the library raises."""
    if "pipe" in case_or_pipe and "tables" in case_or_pipe:
        pipe, tables = case_or_pipe["pipe"], case_or_pipe["tables"] if tables is None else tables
    else:
        pipe = case_or_pipe
    with warnings.catch_warnings():
        warnings.simplefilter("ignore")
        return Builder(tables).pipe(pipe)


def build_or_error(case_or_pipe, tables=None):
    """-> (ops | None, error_class_name | None)"""
    try:
        return build(case_or_pipe, tables), None
    except Exception as e:  # every exception of the library is an outcome
        return None, type(e).__name__


# ------------------------------------------------------------------------------------------------
# to_tree: the BUILT node objects -> Tree JSON
# ------------------------------------------------------------------------------------------------

def term_to_json(t):
    er = L.er
    if isinstance(t, er.Value):
        v = _py_scalar(t.value)
        if isinstance(v, float) and math.isnan(v):
            return {"v": {"nan": True}}
        return {"v": enc_val(v)}
    if isinstance(t, er.ColumnReference):
        return {"c": t.column_name}
    if isinstance(t, er.ListTerm):
        return {"list": [enc_val(x.value if isinstance(x, er.Value) else x) for x in t.value]}
    if isinstance(t, er.DictTerm):
        return {"dict": [[enc_val(k), enc_val(v)] for k, v in t.value.items()]}
    if isinstance(t, er.Expression):
        return {"op": t.op, "args": [term_to_json(a) for a in t.args], "inline": bool(t.inline),
                "method": bool(t.method)}
    return {"v": enc_val(t)}


def to_tree(ops):
    """
    walk the real node objects.  Every node: {"node":..., "column_names":[..], "id": k, ...}; k is a small integer
    naming the Python object in first-visit (pre-order, a before b) order, so a shared sub-DAG shows the same id twice
    (it is expanded both times).
    extend: "partition" is the object's partition_by list, or 1 when the list is empty and the node is windowed
    (exactly what to_python_src_ prints); "windowed"/"ordered" are the two flags of the node.
    """
    ids = {}

    def walk(n):
        if id(n) not in ids:
            ids[id(n)] = len(ids)
        base = {"id": ids[id(n)], "column_names": list(n.column_names)}
        nn = n.node_name
        if nn == "TableDescription":
            base.update(node="table", name=n.table_name, cols=list(n.column_names))
        elif nn == "ExtendNode":
            part = list(n.partition_by)
            base.update(node="extend", src=walk(n.sources[0]), ops=[[k, term_to_json(v)] for k, v in n.ops.items()],
                        partition=(1 if (len(part) == 0 and n.windowed_situation) else part),
                        order=list(n.order_by), reverse=list(n.reverse), windowed=bool(n.windowed_situation),
                        ordered=bool(n.ordered_windowed_situation))
        elif nn == "ProjectNode":
            base.update(node="project", src=walk(n.sources[0]), ops=[[k, term_to_json(v)] for k, v in n.ops.items()],
                        group=list(n.group_by))
        elif nn == "SelectRowsNode":
            base.update(node="select_rows", src=walk(n.sources[0]), expr=term_to_json(n.expr))
        elif nn == "SelectColumnsNode":
            base.update(node="select_columns", src=walk(n.sources[0]), cols=list(n.column_selection))
        elif nn == "DropColumnsNode":
            base.update(node="drop_columns", src=walk(n.sources[0]), cols=list(n.column_deletions))
        elif nn == "RenameColumnsNode":
            base.update(node="rename", src=walk(n.sources[0]), map=[[k, v] for k, v in n.column_remapping.items()])
        elif nn == "MapColumnsNode":
            base.update(node="map_columns", src=walk(n.sources[0]),
                        map=[[k, v] for k, v in n.column_remapping.items()], deletions=list(n.column_deletions))
        elif nn == "OrderRowsNode":
            base.update(node="order", src=walk(n.sources[0]), cols=list(n.order_columns), reverse=list(n.reverse),
                        limit=n.limit)
        elif nn == "NaturalJoinNode":
            base.update(node="join", a=walk(n.sources[0]), b=walk(n.sources[1]), on_a=list(n.on_a), on_b=list(n.on_b),
                        type=n.jointype)
        elif nn == "ConcatRowsNode":
            base.update(node="concat", a=walk(n.sources[0]), b=walk(n.sources[1]), id=n.id_column, a_name=n.a_name,
                        b_name=n.b_name)
        elif nn == "ConvertRecordsNode":
            rm = n.record_map
            base.update(node="convert_records", src=walk(n.sources[0]))
            base["in"] = spec_from_real(rm.blocks_in)
            base["out"] = spec_from_real(rm.blocks_out)
        else:
            base.update(node=nn)
        return base

    return walk(ops)


def tree_nodes(tree):
    """iterate all nodes of a Tree (shared nodes repeated)"""
    yield tree
    for k in ("src", "a", "b"):
        if k in tree and isinstance(tree[k], dict):
            yield from tree_nodes(tree[k])


# ------------------------------------------------------------------------------------------------
# runners
# ------------------------------------------------------------------------------------------------

def _err(e):
    return {"err": type(e).__name__}


def run_pandas(ops, tables):
    try:
        with warnings.catch_warnings():
            warnings.simplefilter("ignore")
            frames = tables_to_pandas(tables)
            res = ops.eval(frames)
            return {"ok": frame_to_table(res)}
    except Exception as e:
        return _err(e)


def _fmt_options(sql_options):
    if sql_options is None:
        sql_options = {}
    if isinstance(sql_options, dict):
        kw = dict(warn_on_method_support=False, warn_on_novel_methods=False)
        kw.update(sql_options)
        return L.SQLFormatOptions(**kw)
    return sql_options


def _sqlite_conn(model):
    conn = sqlite3.connect(":memory:")
    if isinstance(model, L.SQLite.SQLiteModel):
        model.prepare_connection(conn)
    return conn


def _insert_tables(handle, tables):
    frames = tables_to_pandas(tables)
    for k, d in frames.items():
        handle.insert_table(d, table_name=k, allow_overwrite=True)


def run_sqlite(ops, tables, sql_options=None, model=None, return_sql=False):
    """to_sql() of the SQLite dialect (or `model`, an SQLiteModel instance, e.g. with allow_extend_merges=False) executed
    on a fresh in-memory SQLite with prepare_connection; tables loaded with insert_table; result through read_query."""
    conn = None
    sql = None
    try:
        with warnings.catch_warnings():
            warnings.simplefilter("ignore")
            if model is None:
                model = L.SQLite.SQLiteModel()
            conn = _sqlite_conn(model)
            handle = model.db_handle(conn)
            _insert_tables(handle, tables)
            sql = handle.to_sql(ops, sql_format_options=_fmt_options(sql_options))
            res = handle.read_query(sql)
            out = {"ok": frame_to_table(res)}
    except Exception as e:
        out = _err(e)
    finally:
        if conn is not None:
            try:
                conn.close()
            except Exception:
                pass
    if return_sql:
        out = dict(out, sql=sql)
    return out


class _StdSamp:
    """sample standard deviation, usable as aggregate and as window function (create_window_function)"""

    def __init__(self):
        self.v = []

    def step(self, x):
        if x is not None:
            self.v.append(float(x))

    def inverse(self, x):
        if x is not None:
            self.v.remove(float(x))

    def value(self):
        return self.finalize()

    def var(self):
        n = len(self.v)
        if n < 2:
            return None
        m = sum(self.v) / n
        return sum((x - m) ** 2 for x in self.v) / (n - 1)

    def finalize(self):
        v = self.var()
        return None if v is None else math.sqrt(v)


class _VarSamp(_StdSamp):
    def finalize(self):
        return self.var()


def _null_safe(f):
    def g(*a):
        if any(x is None for x in a):
            return None
        try:
            return f(*a)
        except Exception:
            return None
    return g


_SKIP_RE = re.compile(r"no such function: \w+|near \"[^\"]*\": syntax error|wrong number of arguments to function \w+"
                      r"|DISTINCT is not supported for window functions|misuse of \w+ function \w+\(\)"
                      r"|may not be used as a window function|unsupported frame specification"
                      # a limit of the STAND-IN engine's parser on the deeply nested text of a long pipeline (use_with=False)
                      r"|parser stack overflow", re.I)


def _pg_standin_conn():
    """SQLite 3.40 as a stand-in standard-SQL engine for PostgreSQL text: register what PostgreSQL has built in."""
    conn = sqlite3.connect(":memory:")
    have = set()
    for name, nargs, f in [
        ("LN", 1, math.log), ("LOG", 1, math.log10), ("LOG10", 1, math.log10), ("EXP", 1, math.exp),
        ("SQRT", 1, math.sqrt), ("SIN", 1, math.sin), ("COS", 1, math.cos), ("TANH", 1, math.tanh),
        ("SINH", 1, math.sinh), ("COSH", 1, math.cosh), ("ATAN", 1, math.atan), ("FLOOR", 1, math.floor),
        ("CEILING", 1, math.ceil), ("CEIL", 1, math.ceil), ("POWER", 2, math.pow),
        ("SIGN", 1, lambda x: (x > 0) - (x < 0)),
        ("MOD", 2, lambda a, b: math.fmod(a, b)),
    ]:
        try:
            conn.execute(f"SELECT {name}({', '.join(['1'] * nargs)})")
            have.add(name)
        except sqlite3.OperationalError:
            conn.create_function(name, nargs, _null_safe(f))
    if hasattr(conn, "create_window_function"):
        conn.create_window_function("STDDEV_SAMP", 1, _StdSamp)
        conn.create_window_function("VAR_SAMP", 1, _VarSamp)
    else:
        conn.create_aggregate("STDDEV_SAMP", 1, _StdSamp)
        conn.create_aggregate("VAR_SAMP", 1, _VarSamp)
    return conn


def run_pg_on_sqlite(ops, tables, options=None, return_sql=False):
    """
    PostgreSQL-dialect text (PostgreSQLModel().to_sql) executed on SQLite 3.40 (native RIGHT/FULL JOIN) as a stand-in
    engine.  {"skip": reason} when the text uses something the stand-in cannot run (unknown function, syntax the
    stand-in rejects); any error while *generating* the text is an {"err": ..} outcome.
    """
    sql = None
    conn = None
    try:
        with warnings.catch_warnings():
            warnings.simplefilter("ignore")
            model = L.PostgreSQL.PostgreSQLModel()
            try:
                sql = model.to_sql(ops, sql_format_options=_fmt_options(options))
            except Exception as e:
                out = _err(e)
                return dict(out, sql=None) if return_sql else out
            if "infinity'" in sql:
                # CAST('+infinity' AS DOUBLE PRECISION) is PostgreSQL-only (SQLite casts the text to 0.0)
                out = {"skip": "postgres infinity cast"}
                return dict(out, sql=sql) if return_sql else out
            conn = _pg_standin_conn()
            handle = model.db_handle(conn)
            _insert_tables(handle, tables)
            try:
                res = handle.read_query(sql)
                out = {"ok": frame_to_table(res)}
            except Exception as e:
                msg = str(e)
                m = _SKIP_RE.search(msg)
                if m:
                    out = {"skip": m.group(0)[:80]}
                else:
                    out = {"err": type(e).__name__, "msg": msg[-160:]}
    except Exception as e:
        out = _err(e)
    finally:
        if conn is not None:
            try:
                conn.close()
            except Exception:
                pass
    if return_sql:
        out = dict(out, sql=sql)
    return out


def run_polars(ops, tables, lazy=False, eager_model=False):
    """`eager_model=True`: evaluate with PolarsModel(use_lazy_eval=False), the model option the default registration
    never uses (the default model converts every frame to a LazyFrame first)"""
    try:
        with warnings.catch_warnings():
            warnings.simplefilter("ignore")
            frames = tables_to_polars(tables, lazy=lazy)
            if eager_model:
                import data_algebra.polars_model as _pm
                res = ops.eval(frames, data_model=_pm.PolarsModel(use_lazy_eval=False))
            else:
                res = ops.eval(frames)
            return {"ok": frame_to_table(res)}
    except BaseException as e:  # polars raises pyo3 panics as BaseException subclasses
        if isinstance(e, (KeyboardInterrupt, SystemExit)):
            raise
        return _err(e)


# ------------------------------------------------------------------------------------------------
# comparison
# ------------------------------------------------------------------------------------------------

def _cell_key(v):
    """total order key over canonical cells: null < numbers (bools as 0/1) < strings"""
    if v is None:
        return (0, 0.0, "")
    n = val_num(v)
    if n is not None:
        return (1, n, "")
    return (2, 0.0, v.get("s", json.dumps(v, sort_keys=True)))


def _cells_close(a, b, tol, zero_null=False):
    if a is None or b is None:
        if a is None and b is None:
            return True
        if zero_null:
            o = b if a is None else a
            n = val_num(o)
            return n is not None and n == 0.0
        return False
    na, nb = val_num(a), val_num(b)
    if na is not None and nb is not None:
        if math.isinf(na) or math.isinf(nb):
            return na == nb
        return abs(na - nb) <= tol * max(abs(na), abs(nb), 1.0)
    if na is not None or nb is not None:
        return False
    return a == b


def _rows_close(ra, rb, tol, zn):
    return all(_cells_close(x, y, tol, z) for x, y, z in zip(ra, rb, zn))


def _show_row(r):
    def s(v):
        if v is None:
            return "null"
        if isinstance(v, bool):
            return str(v)
        if "s" in v:
            return repr(v["s"])
        n = val_num(v)
        return repr(int(n)) if (n is not None and not math.isinf(n) and n == int(n)) else repr(n)
    return "(" + ", ".join(s(v) for v in r) + ")"


def same_table(a, b, ordered=False, col_order=False, tol=1e-8, zero_null_cols=None):
    """
    None when Tables a and b are the same, else a short description.
    columns as sets unless col_order; rows as multisets unless ordered; null ~ NaN (both are null already);
    numbers with relative tolerance; bools and 0/1 are one value (SQLite returns 0/1 for bools);
    zero_null_cols: columns in which `0` and null are accepted as equal (sum/count over groups without non-null
    values, the documented difference of C01).
    """
    ca, cb = list(a["cols"]), list(b["cols"])
    if len(set(ca)) != len(ca) or len(set(cb)) != len(cb):
        return f"duplicate column names: {ca} / {cb}"
    if set(ca) != set(cb):
        return f"column sets differ: only-left {sorted(set(ca) - set(cb))} only-right {sorted(set(cb) - set(ca))}"
    if col_order and ca != cb:
        return f"column order differs: {ca} vs {cb}"
    perm = [cb.index(c) for c in ca]
    rows_a = [list(r) for r in a["rows"]]
    rows_b = [[r[j] for j in perm] for r in b["rows"]]
    if len(rows_a) != len(rows_b):
        return f"row counts differ: {len(rows_a)} vs {len(rows_b)}"
    zn = [bool(zero_null_cols) and (c in zero_null_cols) for c in ca]
    if ordered:
        for i, (ra, rb) in enumerate(zip(rows_a, rows_b)):
            if not _rows_close(ra, rb, tol, zn):
                return f"row {i} differs (cols {ca}): {_show_row(ra)} vs {_show_row(rb)}"
        return None
    key = lambda r: [_cell_key(v) for v in r]
    sa = sorted(rows_a, key=key)
    sb = sorted(rows_b, key=key)
    if all(_rows_close(ra, rb, tol, zn) for ra, rb in zip(sa, sb)):
        return None
    # tolerant multiset matching (sorting can mis-align rows that differ within tolerance or through zero~null)
    rest = list(sb)
    only_a = []
    for ra in sa:
        for i, rb in enumerate(rest):
            if _rows_close(ra, rb, tol, zn):
                del rest[i]
                break
        else:
            only_a.append(ra)
    if not only_a and not rest:
        return None
    return (f"row multisets differ (cols {ca}): only-left {[_show_row(r) for r in only_a[:3]]} "
            f"only-right {[_show_row(r) for r in rest[:3]]}")


def same_outcome(x, y, **kw):
    """compare two runner outcomes: both errors (any class) -> same; ok vs err -> different"""
    if "skip" in x or "skip" in y:
        return None
    if "err" in x or "err" in y:
        if "err" in x and "err" in y:
            return None
        return f"one side raised: {x.get('err', 'ok')} vs {y.get('err', 'ok')}"
    return same_table(x["ok"], y["ok"], **kw)


# ================================================================================================
# GENERATORS
# ================================================================================================
#
# The generator is *type-directed and static*: it never runs the library.  It tracks, per declared column of the
# pipeline prefix, a kind and three conservative facts (may-be-null, unique-and-non-null, constant) and only proposes
# steps that the documented construction rules accept for those declared columns.

HOSTILE_STRINGS = ["it's", 'q"t', "back\\slash", "50%", "--x", "line\nbreak", "é", "ß∂", "a b", "x;y", "%s"]
TAME_STRINGS = ["a", "b", "c", "d"]
INT_POOL = [0, 1, 2, 3, -1, 5]
FLOAT_POOL = [0.5, 1.5, 2.5, -0.5, 1.0, 2.0, 0.0, -1.5]
KEY_INT_POOL = [1, 2, 3]
KEY_STR_POOL = ["a", "b", "c"]

# name -> kind convention for *input* columns: the same name has the same kind in every table, so that joins on
# common columns are well-kinded.  "i" is the unique non-null row id used as order tiebreak.
SCHEMA_POOL = [("i", "int"), ("g", "str"), ("k", "int"), ("x", "int"), ("y", "float"), ("h", "str"), ("z", "float"),
               ("s", "str"), ("b", "bool"), ("n", "int"), ("w", "float"), ("j", "int"), ("t", "str"), ("c", "bool")]
KEY_NAMES = ("g", "h", "k", "j")
FRESH_NAMES = ["n1", "n2", "n3", "n4", "m1", "m2", "q", "r", "u", "v", "e1", "e2", "aa", "bb"]
RESERVED_WORDS = {"and", "or", "not", "in", "is", "if", "else", "None", "True", "False", "lambda", "for"}

DEFAULT_BIAS = dict(
    fault_rate=0.15,          # fraction of pipelines that end in exactly one rule-violating step
    max_depth=None,           # default 8 (quick) / 14 (thorough)
    max_rows=None,            # default 8 (quick) / 24 (thorough)
    overwrite=0.3,            # an extend target overwrites an existing column
    extend_after_extend=0.35, # after a plain extend, another plain extend sharing targets / using its products
    select_after_drop=0.15,   # after drop_columns, a select_columns
    interior_order=0.06,      # order_rows without limit followed by more steps
    dead_project=0.2,         # after a project, drop / overwrite every aggregate it produced
    drop_window_output=0.1,   # after a windowed extend with >= 2 ops, drop some (not all) of its outputs
    diff_keys=0.3,            # differently named join keys
    join_types=("inner", "left", "right", "full", "cross"),
    window=1.0,               # multiplier on windowed-extend weight
    total_order=True,         # ordered windows / limits get a unique tiebreak column
    null_keys=0.35,           # a key column (g h k j) of an input table contains nulls
    empty_tables=0.08,
    final_order=0.25,         # pipeline ends in order_rows
    shared=0.55,              # joins / concats whose b re-uses a prefix of the pipeline itself
    hostile=True,             # hostile strings in cells, literals and concat labels
    null_cmp=0.04,            # a *stored* comparison / logic over operands that may be null (pandas: False, SQL: NULL)
    bool_nulls=0.0,           # input bool columns may contain nulls
    mod_ops=0.01,             # % mod remainder on half-valued floats (SQLite casts operands to integer)
    round_ops=0.02,           # round() (numpy: half-to-even, SQL: half away from zero)
    minmax_ops=1.0,           # multiplier on maximum/minimum/fmax/fmin (D15 fires on nullable operands)
    concat_null=0.0,          # concat over nullable strings (pandas renders null as 'nan')
    coalesce_expr=0.1,        # coalesce applied to a computed value instead of a column
    bool_common=False,        # bool-kinded common columns in joins (pandas 3 raises TypeError in the coalesce assignment)
    str_order_cmp=0.1,        # < <= > >= between strings (only null-free operands; pandas raises on object columns with NaN)
    convert_records=1.0,      # multiplier on convert_records weight
    limit_null_order=0.1,     # order_rows(limit) over nullable order columns (null placement differs per backend)
    null_order_keys=0.15,     # window order_by columns that may be null (window ORDER BY null placement differs)
    null_join_keys=0.3,       # join keys drawn from columns that may be null (null keys never match in SQL)
    any_value_nonconst=0.0,   # any_value on a column not known constant per group (out of scope per Appendix B)
    backends=("pandas", "sqlite"),
    step_weights=None,        # {call: multiplier}
)

_BACKEND_COL = {"pandas": "Pandas", "sqlite": "SQLiteModel", "postgres": "PostgreSQLModel", "pg": "PostgreSQLModel",
                "bigquery": "BigQueryModel", "spark": "SparkSQLModel", "mysql": "MySQLModel"}
_catalog_cache = {}


def catalog_supports(op, cls, backends):
    """does data_algebra.op_catalog.methods_table mark (op, class) as 'y' for every requested backend?
    classes: e row-wise, g windowed-unordered, p project, w windowed-ordered, u/up zero-arg / any_value."""
    key = (op, cls, tuple(sorted(backends)))
    if key in _catalog_cache:
        return _catalog_cache[key]
    if not _catalog_cache.get("_rows"):
        mt = L.catalog.methods_table
        _catalog_cache["_rows"] = [dict(r) for _, r in mt.iterrows()]
    rows = [r for r in _catalog_cache["_rows"] if r["op"] == op and (r["op_class"] == cls or
                                                                    (r["op_class"] == "up" and cls in ("p", "g")))]
    ok = bool(rows)
    for b in backends:
        colname = _BACKEND_COL.get(b)
        if colname is None:
            continue  # polars has no catalogue column: a raise is an accepted outcome there
        if not any(r[colname] == "y" for r in rows):
            ok = False
    _catalog_cache[key] = ok
    return ok


class CI:
    """static facts about one declared column"""
    __slots__ = ("kind", "null", "uniq", "const")

    def __init__(self, kind, null=True, uniq=False, const=False):
        self.kind, self.null, self.uniq, self.const = kind, null, uniq, const

    def copy(self):
        return CI(self.kind, self.null, self.uniq, self.const)

    def __repr__(self):
        return f"CI({self.kind}{'?' if self.null else ''}{' uniq' if self.uniq else ''}{' const' if self.const else ''})"


class PState:
    """declared columns of a pipeline prefix + the Pipe JSON that builds it"""

    def __init__(self, root, cols, ci, ctx=None):
        self.root = root            # {"table": name} or {"ref": k}
        self.cols = list(cols)
        self.ci = {c: ci[c].copy() for c in cols}
        self.steps = []
        self.snaps = []             # snaps[k] = (cols, ci) after k steps (k = 0: the root)
        self.dropped = {}           # name -> CI of a column that existed earlier and was removed
        self.last = None            # {"call":.., ...} facts about the last step, for the pattern biases
        self.ctx = ctx
        self.snaps.append((list(self.cols), {c: v.copy() for c, v in self.ci.items()}))

    def copy(self):
        o = PState.__new__(PState)
        o.root = self.root
        o.cols = list(self.cols)
        o.ci = {c: v.copy() for c, v in self.ci.items()}
        o.steps = copy.deepcopy(self.steps)
        o.snaps = list(self.snaps)
        o.dropped = dict(self.dropped)
        o.last = self.last
        o.ctx = self.ctx
        return o

    def push(self, step, cols, ci, last=None):
        for c in self.cols:
            if c not in cols:
                self.dropped[c] = self.ci[c]
        self.steps.append(step)
        self.cols = list(cols)
        self.ci = {c: ci[c] for c in cols}
        self.last = last or {"call": step["call"]}
        self.snaps.append((list(self.cols), {c: v.copy() for c, v in self.ci.items()}))

    def of_kind(self, kinds, nonnull=False, avoid=()):
        return [c for c in self.cols if self.ci[c].kind in kinds and (not nonnull or not self.ci[c].null)
                and c not in avoid]

    def uniq_cols(self):
        return [c for c in self.cols if self.ci[c].uniq]

    def fresh(self, rng, n=1, prefer_dropped=0.15):
        out = []
        pool = [c for c in FRESH_NAMES if c not in self.cols]
        dropped = [c for c in sorted(self.dropped) if c not in self.cols]
        for _ in range(n):
            if dropped and rng.random() < prefer_dropped:
                c = rng.choice(dropped)
                dropped.remove(c)
            elif pool:
                c = rng.choice(pool)
            else:
                c = "c%d" % rng.randint(10, 99)
            if c in pool:
                pool.remove(c)
            if c in out or c in self.cols:
                c = c + "_%d" % rng.randint(0, 9)
            out.append(c)
        return out


class Ex:
    """a generated expression: text + static facts"""
    __slots__ = ("text", "kind", "null", "prec", "cols", "size")

    def __init__(self, text, kind, null, prec, cols=(), size=1):
        self.text, self.kind, self.null, self.prec, self.cols, self.size = text, kind, null, prec, frozenset(cols), size


P_ATOM, P_POW, P_UNARY, P_MUL, P_ADD, P_CMP, P_NOT, P_AND, P_OR = 9, 8, 7, 6, 5, 4, 3, 2, 1


def _lit_text(v):
    if isinstance(v, bool):
        return "True" if v else "False"
    if isinstance(v, str):
        return repr(v)
    return repr(v)


def _w(e, prec):
    """text of e usable where a sub-expression of precedence >= prec is needed (prec P_ATOM = a method receiver:
    literals are parenthesised there, `(1).abs()`, `('a').concat(..)`)"""
    if prec >= P_ATOM and not e.cols and e.text[:1] in "0123456789'\"-":
        return "(" + e.text + ")"
    return e.text if e.prec >= prec else "(" + e.text + ")"


class ExprGen:
    """grammar-directed, well-kinded expressions over the declared columns of one pipeline prefix"""

    def __init__(self, rng, st, opts, avoid=()):
        self.rng, self.st, self.o = rng, st, opts
        self.avoid = set(avoid)
        self.backends = tuple(opts["backends"])
        self.strings = list(TAME_STRINGS) + (list(HOSTILE_STRINGS) if opts["hostile"] else [])

    # ---- helpers
    def sup(self, op, cls="e"):
        return catalog_supports(op, cls, self.backends)

    def cols(self, kinds, nonnull=False):
        return self.st.of_kind(kinds, nonnull=nonnull, avoid=self.avoid)

    def col(self, c):
        ci = self.st.ci[c]
        return Ex(c, ci.kind, ci.null, P_ATOM, [c])

    def lit(self, kind):
        r = self.rng
        if kind == "int":
            v = r.choice([0, 1, 2, 3, -1, 5, 10])
        elif kind == "float":
            v = r.choice([0.5, 1.5, 2.5, -0.5, 2.0, -1.5, 0.25])
        elif kind == "str":
            v = r.choice(self.strings + ["a", "b", ""])
        else:
            v = r.random() < 0.5
        neg = isinstance(v, (int, float)) and not isinstance(v, bool) and v < 0
        return Ex(_lit_text(v), kind, False, P_UNARY if neg else P_ATOM, [])

    def pick(self, weighted):
        items = [(w, f) for w, f in weighted if w > 0]
        tot = sum(w for w, _ in items)
        x = self.rng.random() * tot
        for w, f in items:
            x -= w
            if x <= 0:
                return f
        return items[-1][1]

    def split(self, budget, n):
        """split budget-1 among n children, each >= 1"""
        rest = max(budget - 1, n)
        parts = [1] * n
        for _ in range(rest - n):
            parts[self.rng.randrange(n)] += 1
        return parts

    def mk(self, text, kind, null, prec, kids):
        cols = set()
        size = 1
        for k in kids:
            cols |= k.cols
            size += k.size
        return Ex(text, kind, null, prec, cols, size)

    def anchor(self, e, nonnull=False):
        """the executors evaluate column-free sub-expressions on Python scalars (methods on literals, constant
        predicates) and fail in ways that say nothing about the properties; so every operator / method application
        gets at least one column: a column-free operand is replaced by a column of its kind when one exists."""
        if e.cols:
            return e
        kinds = ("int", "float") if e.kind in ("int", "float") else (e.kind,)
        cs = self.cols((e.kind,), nonnull=nonnull) or self.cols(kinds, nonnull=nonnull)
        if not cs:
            return None
        c = self.col(self.rng.choice(cs))
        if e.kind == "float" and c.kind == "int":
            return self.mk(f"{c.text} * 0.5", "float", c.null, P_MUL, [c])
        return c

    # ---- numeric
    def num(self, want, budget, nonnull=False):
        """want: "int" | "float" | "num".  nonnull: the value must not be null for any row."""
        r = self.rng
        if want == "num":
            want = r.choice(["int", "float"])
        if budget <= 1:
            return self.num_leaf(want, nonnull)
        fl = want == "float"
        o = self.o
        c = []
        if self.sup("+"):
            c.append((4, lambda: self.n_bin("+", want, budget, nonnull)))
        if self.sup("-"):
            c.append((3, lambda: self.n_bin("-", want, budget, nonnull)))
            c.append((1.5, lambda: self.n_neg(want, budget, nonnull)))
        if self.sup("*"):
            c.append((3, lambda: self.n_bin("*", want, budget, nonnull)))
        if fl and self.sup("/"):
            c.append((2, lambda: self.n_div("/", budget, nonnull)))
        if fl and self.sup("//"):
            c.append((0.4, lambda: self.n_div("//", budget, nonnull)))
        if fl and self.sup("%"):
            c.append((o["mod_ops"] * 10, lambda: self.n_div(r.choice(["%", "mod", "remainder"]), budget, nonnull)))
        if self.sup("**"):
            c.append((1, lambda: self.n_pow(want, budget, nonnull)))
        for m, wgt in (("abs", 1.2), ("sign", 0.5)):
            if self.sup(m):
                c.append((wgt, lambda m=m: self.n_meth1(m, want, budget, nonnull)))
        if fl:
            for m, wgt in (("floor", 0.6), ("ceil", 0.6), ("round", o["round_ops"] * 10)):
                if self.sup(m):
                    c.append((wgt, lambda m=m: self.n_meth1(m, "float", budget, nonnull)))
            if self.sup("around"):
                c.append((0.4, lambda: self.n_around(budget, nonnull)))
            c.append((0.5, lambda: self.n_transc(budget, nonnull)))
        if budget >= 3:
            for m in ("maximum", "minimum", "fmax", "fmin"):
                if self.sup(m):
                    c.append((0.4 * o["minmax_ops"], lambda m=m: self.n_minmax(m, want, budget, nonnull)))
            if self.sup("if_else"):
                c.append((1.0, lambda: self.n_cond(want, budget, nonnull)))
        if self.sup("coalesce"):
            c.append((1.2, lambda: self.n_coalesce(want, budget)))
        if self.sup("mapv") and self.cols(("str",)):
            c.append((0.5, lambda: self.n_mapv(want)))
        return self.pick(c)()

    def num_leaf(self, want, nonnull):
        r = self.rng
        cs = self.cols((want,), nonnull=nonnull)
        if cs and r.random() < 0.75:
            return self.col(r.choice(cs))
        if want == "float":
            ics = self.cols(("int",), nonnull=nonnull)
            if ics and r.random() < 0.4:
                e = self.col(r.choice(ics))
                return self.mk(f"{e.text} * 0.5", "float", e.null, P_MUL, [e])
        return self.lit(want)

    def n_kid_kinds(self, want):
        if want == "int":
            return "int", "int"
        return self.rng.choice([("float", "float"), ("float", "int"), ("int", "float")])

    def n_bin(self, op, want, budget, nonnull):
        r = self.rng
        if op in ("+", "*") and budget >= 5 and r.random() < 0.3:
            parts = self.split(budget, 3)
            ks = [self.num(want if i == 0 else r.choice([want, "int"]), parts[i], nonnull) for i in range(3)]
            if not any(k.cols for k in ks):
                k0 = self.anchor(ks[0], nonnull)
                if k0 is None:
                    return ks[0]
                ks[0] = k0
            prec = P_ADD if op == "+" else P_MUL
            return self.mk(f" {op} ".join(_w(k, prec + 1) for k in ks), want, any(k.null for k in ks), prec, ks)
        ka, kb = self.n_kid_kinds(want)
        pa, pb = self.split(budget, 2)
        a, b = self.num(ka, pa, nonnull), self.num(kb, pb, nonnull)
        if not a.cols and not b.cols:
            a2 = self.anchor(a, nonnull)
            if a2 is None:
                return a
            a = a2
        prec = P_ADD if op in ("+", "-") else P_MUL
        return self.mk(f"{_w(a, prec)} {op} {_w(b, prec + 1)}", want, a.null or b.null, prec, [a, b])

    def n_neg(self, want, budget, nonnull):
        a = self.num(want, budget - 1, nonnull)
        if not a.cols:
            return a
        return self.mk(f"-{_w(a, P_POW)}", want, a.null, P_UNARY, [a])

    def n_div(self, op, budget, nonnull):
        r = self.rng
        a = self.num("float", max(budget - 2, 1), nonnull)
        if not a.cols:
            a = self.anchor(a, nonnull)
            if a is None:
                return self.lit("float")
        if op in ("mod", "remainder"):
            d = r.choice([2, 1])
            return self.mk(f"{_w(a, P_ATOM)}.{op}({d})", "float", a.null, P_ATOM, [a])
        float_rooted = (a.text in self.st.ci and self.st.ci[a.text].kind == "float") or \
            re.fullmatch(r"-?\d+\.\d+", a.text) is not None
        if not float_rooted:
            # SQLite types values dynamically: floor()/ceil() of a prepared connection return INTEGER, and fmin / coalesce /
            # if_else / mapv hand an INTEGER operand through unchanged, so `/` on such a numerator would be the integer
            # division the property excludes ("integer / and %").  Only a bare float column or float literal is certain
            # to be REAL: every other numerator is multiplied by 1.5 (REAL on every backend, same value everywhere)
            a = self.mk(f"{_w(a, P_MUL)} * 1.5", "float", a.null, P_MUL, [a])
        if budget >= 6 and r.random() < 0.25:
            b = self.num("float", budget - a.size - 3, nonnull)
            den = self.mk(f"({_w(b, P_ATOM)}.abs() + 1)", "float", b.null, P_ATOM, [b])
        else:
            den = Ex(_lit_text(r.choice([2, 0.5, 4, 2.0] if op == "/" else [2, 0.5, 1])), "float", False, P_ATOM, [])
        return self.mk(f"{_w(a, P_MUL)} {op} {den.text}", "float", a.null or den.null, P_MUL, [a, den])

    def n_pow(self, want, budget, nonnull):
        a = self.num(want, budget - 2, nonnull)
        if not a.cols:
            return a
        return self.mk(f"{_w(a, P_ATOM)} ** {self.rng.choice([2, 2, 3])}", want, a.null, P_POW, [a])

    def n_meth1(self, m, want, budget, nonnull):
        a = self.num(want, budget - 1, nonnull)
        if not a.cols:
            return a
        return self.mk(f"{_w(a, P_ATOM)}.{m}()", want, a.null, P_ATOM, [a])

    def n_around(self, budget, nonnull):
        a = self.num("float", budget - 2, nonnull)
        if not a.cols:
            return a
        k = self.rng.choice([1, 1, 1, 0, 2, -1])      # -1: to tens (numpy.around / (x * 10.0**k).round() / 10.0**k)
        return self.mk(f"{_w(a, P_ATOM)}.around({k})", "float", a.null, P_ATOM, [a])

    def n_transc(self, budget, nonnull):
        r = self.rng
        a = self.num("float", max(budget - 2, 1), nonnull)
        if not a.cols:
            return a
        forms = []
        for m in ("sin", "cos", "tanh", "arctan"):
            if self.sup(m):
                forms.append(f"{_w(a, P_ATOM)}.{m}()")
        if self.sup("sqrt") and self.sup("abs"):
            forms.append(f"{_w(a, P_ATOM)}.abs().sqrt()")
        if self.sup("log") and self.sup("abs"):
            forms.append(f"({_w(a, P_ATOM)}.abs() + 1).log()")
        if self.sup("exp") and self.sup("abs"):
            forms.append(f"(-{_w(a, P_ATOM)}.abs()).exp()")
        if not forms:
            return a
        return self.mk(r.choice(forms), "float", a.null, P_ATOM, [a])

    def n_minmax(self, m, want, budget, nonnull):
        ka, kb = self.n_kid_kinds(want)
        pa, pb = self.split(budget, 2)
        a, b = self.num(ka, pa, nonnull), self.num(kb, pb, nonnull)
        if not a.cols:
            a = self.anchor(a, nonnull)
            if a is None:
                return b
        if m in ("fmax", "fmin") and self.rng.random() < 0.5:
            txt = f"{m}({a.text}, {b.text})"
        else:
            txt = f"{_w(a, P_ATOM)}.{m}({b.text})"
        return self.mk(txt, want, a.null or b.null, P_ATOM, [a, b])

    def n_cond(self, want, budget, nonnull):
        parts = self.split(budget, 3)
        c = self.boolean(parts[0], "store", nonnull=True)
        ka, kb = self.n_kid_kinds(want)
        a, b = self.num(ka, parts[1], nonnull), self.num(kb, parts[2], nonnull)
        if not c.cols:
            return a
        m = self.rng.choice(["if_else", "if_else", "where"]) if self.sup("where") else "if_else"
        return self.mk(f"{_w(c, P_ATOM)}.{m}({a.text}, {b.text})", want, a.null or b.null or c.null, P_ATOM, [c, a, b])

    def n_coalesce(self, want, budget):
        r = self.rng
        cs = [c for c in self.cols((want,)) if self.st.ci[c].null]
        allc = self.cols((want,))
        if cs and r.random() < 0.8:
            a = self.col(r.choice(cs))
        elif r.random() < self.o["coalesce_expr"] or not allc:
            a = self.num(want, max(budget - 2, 1))     # pandas' coalesce wants a Series: computed receivers may raise
        else:
            a = self.col(r.choice(allc))
        if not a.cols:
            return a
        l = self.lit(want)
        form = r.random()
        if form < 0.55:
            return self.mk(f"{_w(a, P_ATOM)}.coalesce({l.text})", want, False, P_ATOM, [a])
        if form < 0.8 and self.sup("coalesce"):
            return self.mk(f"{_w(a, P_POW)} %?% {_w(l, P_POW)}", want, False, P_MUL, [a])
        return self.mk(f"{_w(a, P_ATOM)}.coalesce_0()", want, False, P_ATOM, [a])

    def n_mapv(self, want):
        r = self.rng
        s = self.col(r.choice(self.cols(("str",))))
        keys = r.sample(KEY_STR_POOL + ["", "d"], r.randint(1, 3))
        vals = [r.choice([1, 2, 3, 10]) if want == "int" else r.choice([0.5, 1.5, 2.0]) for _ in keys]
        d = ", ".join(f"{_lit_text(k)}: {_lit_text(v)}" for k, v in zip(keys, vals))
        dflt = _lit_text(0 if want == "int" else 0.5)
        return self.mk(f"{s.text}.mapv({{{d}}}, {dflt})", want, False, P_ATOM, [s])

    # ---- boolean
    def boolean(self, budget, ctx="store", nonnull=None, positive=True):
        """
        ctx "store": the value is kept in a column / drives if_else; "filter": it is a select_rows predicate.
        nonnull True: every comparison / logic operand is null-free (so pandas' False and SQL's NULL cannot differ).
        In filter context with positive polarity nullable operands are fine (False and NULL both drop the row).
        """
        r = self.rng
        if nonnull is None:
            if ctx == "store":
                nonnull = not (r.random() < self.o["null_cmp"])
            else:
                nonnull = False
        if ctx == "filter" and not positive:
            nonnull = True if not (r.random() < self.o["null_cmp"]) else nonnull
        if budget <= 2:
            return self.bool_leaf(nonnull)
        c = [(5, lambda: self.b_cmp(budget, nonnull))]
        if self.sup("and"):
            c.append((2, lambda: self.b_logic("and", budget, ctx, nonnull, positive)))
        if self.sup("or"):
            c.append((1.5, lambda: self.b_logic("or", budget, ctx, nonnull, positive)))
        if self.sup("=="):
            c.append((1, lambda: self.b_not(budget, ctx, nonnull, positive)))
        if self.sup("is_null"):
            c.append((1.2, lambda: self.b_isnull(budget)))
        if self.sup("is_in"):
            c.append((1, lambda: self.b_isin(nonnull)))
        return self.pick(c)()

    def bool_leaf(self, nonnull):
        r = self.rng
        # a bare bool column as a logic operand must be null-free: numpy reads NaN as True (np.logical_or(False, NaN)),
        # SQL as NULL, and an object-dtype mask with NaN raises: never a null-safe filter (N1/N17 family)
        cs = self.cols(("bool",), nonnull=True)
        if cs and r.random() < 0.5:
            return self.col(r.choice(cs))
        return self.b_cmp(3, nonnull)

    def b_cmp(self, budget, nonnull):
        r = self.rng
        kinds = []
        if self.cols(("int", "float"), nonnull=nonnull):
            kinds += ["num"] * 3
        if self.cols(("str",), nonnull=nonnull):
            kinds += ["str"] * 2
        if self.cols(("bool",), nonnull=nonnull) and self.sup("=="):
            kinds += ["bool"]
        if not kinds:
            kinds = ["num"]
        k = r.choice(kinds)
        pa, pb = self.split(budget, 2)
        if k == "num":
            ops = [op for op in ("==", "!=", "<", "<=", ">", ">=") if self.sup(op)]
            op = r.choice(ops)
            if op == "!=" and not nonnull and not (r.random() < self.o["null_cmp"]):
                # numpy: NaN != x is True, SQL: NULL -> not even a positive filter is null-safe for !=
                nonnull = True
                if not self.cols(("int", "float"), nonnull=True):
                    op = "=="
                    nonnull = False
            a = self.num("num", pa, nonnull)
            b = self.num("num", pb, nonnull) if r.random() < 0.5 else self.lit(r.choice(["int", "float"]))
        elif k == "str":
            ops = [op for op in ("==", "==", "==", "!=", "!=") if self.sup(op)]
            op = r.choice(ops)
            if op == "!=" and not nonnull and not (r.random() < self.o["null_cmp"]):
                nonnull = True
                if not self.cols(("str",), nonnull=True):
                    op = "=="
                    nonnull = False
            a = self.string(pa, nonnull)
            b = self.string(pb, nonnull) if r.random() < 0.3 else self.lit("str")
            if r.random() < self.o["str_order_cmp"] and not a.null and not b.null:
                op = r.choice([op for op in ("<", ">=", "<=", ">") if self.sup(op)] or [op])
        else:
            a = self.col(r.choice(self.cols(("bool",), nonnull=nonnull)))
            b = self.lit("bool")
            op = "=="
        if not a.cols and not b.cols:
            a = self.anchor(a, nonnull)
            if a is None:
                cs = [c for c in self.st.cols if c not in self.avoid]
                if not cs:
                    return self.lit("bool")
                c0 = self.col(r.choice(cs))
                return self.mk(f"{c0.text}.is_null()", "bool", False, P_ATOM, [c0])
        return self.mk(f"{_w(a, P_ADD)} {op} {_w(b, P_ADD)}", "bool", a.null or b.null, P_CMP, [a, b])

    def b_logic(self, op, budget, ctx, nonnull, positive):
        n = 3 if (budget >= 7 and self.rng.random() < 0.3) else 2
        parts = self.split(budget, n)
        ks = [self.boolean(p, ctx, nonnull, positive) for p in parts]
        prec = P_AND if op == "and" else P_OR
        return self.mk(f" {op} ".join(_w(k, prec + 1) for k in ks), "bool", any(k.null for k in ks), prec, ks)

    def b_not(self, budget, ctx, nonnull, positive):
        a = self.boolean(budget - 1, ctx, True if not (self.rng.random() < self.o["null_cmp"]) else nonnull,
                         not positive)
        return self.mk(f"not {_w(a, P_NOT)}", "bool", a.null, P_NOT, [a])

    def b_isnull(self, budget):
        r = self.rng
        cs = [c for c in self.st.cols if c not in self.avoid]
        nullable = [c for c in cs if self.st.ci[c].null]
        form = r.random()
        if form < 0.75 or not self.cols(("float",)):
            if not cs:
                return self.b_cmp(3, True)
            a = self.col(r.choice(nullable if nullable and r.random() < 0.8 else cs))
            return self.mk(f"{a.text}.is_null()", "bool", False, P_ATOM, [a])
        a = self.col(r.choice(self.cols(("float",))))
        m = r.choice([m for m in ("is_bad", "is_bad", "is_nan", "is_inf") if self.sup(m)] or ["is_null"])
        return self.mk(f"{a.text}.{m}()", "bool", False, P_ATOM, [a])

    def b_isin(self, nonnull):
        r = self.rng
        cs = self.cols(("int", "str"), nonnull=nonnull)
        if not cs:
            return self.b_cmp(3, nonnull)
        a = self.col(r.choice(cs))
        if a.kind == "int":
            items = sorted(set(r.choice(INT_POOL) for _ in range(r.randint(1, 3))))
        else:
            items = sorted(set(r.choice(self.strings) for _ in range(r.randint(1, 3))))
        return self.mk(f"{a.text}.is_in({{{', '.join(_lit_text(v) for v in items)}}})", "bool", a.null, P_ATOM, [a])

    # ---- string
    def string(self, budget, nonnull=False):
        r = self.rng
        if budget <= 1:
            return self.str_leaf(nonnull)
        c = []
        if self.sup("concat"):
            c.append((3, lambda: self.s_concat(budget)))
        if self.sup("trimstr"):
            c.append((1, lambda: self.s_trim(budget, nonnull)))
        if self.sup("coalesce"):
            c.append((1.5, lambda: self.s_coalesce()))
        if self.sup("if_else") and budget >= 4:
            c.append((1, lambda: self.s_cond(budget, nonnull)))
        if self.sup("mapv") and self.cols(("str",)):
            c.append((0.7, lambda: self.s_mapv()))
        if self.sup("as_str") and self.cols(("int",), nonnull=True):
            c.append((0.3, lambda: self.s_asstr()))
        if not c:
            return self.str_leaf(nonnull)
        return self.pick(c)()

    def str_leaf(self, nonnull):
        r = self.rng
        cs = self.cols(("str",), nonnull=nonnull)
        if cs and r.random() < 0.75:
            return self.col(r.choice(cs))
        return self.lit("str")

    def s_nonnull(self, budget):
        """a string expression that cannot be null (concat operands)"""
        r = self.rng
        if r.random() < self.o["concat_null"]:
            return self.string(budget)
        cs = self.cols(("str",), nonnull=True)
        if cs and r.random() < 0.6:
            return self.col(r.choice(cs))
        allc = self.cols(("str",))
        if allc and r.random() < 0.6 and self.sup("coalesce"):
            a = self.col(r.choice(allc))
            return self.mk(f"{a.text}.coalesce({_lit_text(r.choice(['', 'z']))})", "str", False, P_ATOM, [a])
        return self.lit("str")

    def s_concat(self, budget):
        r = self.rng
        a, b = self.s_nonnull(budget // 2), self.s_nonnull(budget // 2)
        if not a.cols:
            a2 = self.anchor(a, True)
            if a2 is None or a2.null:
                return a if not b.cols else b
            a = a2
        if r.random() < 0.5:
            return self.mk(f"{_w(a, P_ATOM)}.concat({b.text})", "str", a.null or b.null, P_ATOM, [a, b])
        return self.mk(f"{_w(a, P_POW)} %+% {_w(b, P_POW)}", "str", a.null or b.null, P_MUL, [a, b])

    def s_trim(self, budget, nonnull):
        a = self.str_leaf(nonnull)
        if not a.cols:
            return a
        return self.mk(f"{_w(a, P_ATOM)}.trimstr(0, {self.rng.choice([1, 2])})", "str", a.null, P_ATOM, [a])

    def s_coalesce(self):
        r = self.rng
        cs = self.cols(("str",))
        if not cs:
            return self.lit("str")
        a = self.col(r.choice(cs))
        return self.mk(f"{a.text}.coalesce({self.lit('str').text})", "str", False, P_ATOM, [a])

    def s_cond(self, budget, nonnull):
        parts = self.split(budget, 3)
        c = self.boolean(parts[0], "store", nonnull=True)
        a, b = self.str_leaf(nonnull), self.str_leaf(nonnull)
        if not c.cols:
            return a
        return self.mk(f"{_w(c, P_ATOM)}.if_else({a.text}, {b.text})", "str", a.null or b.null or c.null, P_ATOM, [c, a, b])

    def s_mapv(self):
        r = self.rng
        s = self.col(r.choice(self.cols(("str",))))
        keys = r.sample(KEY_STR_POOL + [""], r.randint(1, 3))
        d = ", ".join(f"{_lit_text(k)}: {_lit_text(r.choice(self.strings))}" for k in keys)
        return self.mk(f"{s.text}.mapv({{{d}}}, {_lit_text(r.choice(['o', '']))})", "str", False, P_ATOM, [s])

    def s_asstr(self):
        a = self.col(self.rng.choice(self.cols(("int",), nonnull=True)))
        return self.mk(f"{a.text}.as_str()", "str", False, P_ATOM, [a])

    # ---- entry
    def any_expr(self, kind=None, budget=None, ctx="store"):
        r = self.rng
        if budget is None:
            budget = r.choice([1, 1, 2, 3, 3, 4, 5, 6, 8, 10, 12])
        if kind is None:
            kind = r.choice(["int", "float", "float", "int", "str", "bool"])
        if kind in ("int", "float"):
            return self.num(kind, budget)
        if kind == "str":
            return self.string(budget)
        return self.boolean(budget, ctx)


# ------------------------------------------------------------------------------------------------
# tables
# ------------------------------------------------------------------------------------------------

def gen_table(rng, cols_kinds, nrows=None, **opts):
    """
    random Table for columns `cols_kinds` ([(col, kind)..] or {col: kind}).
    opts: max_rows (8), hostile (True), unique (columns made unique and non-null), keys (columns drawn from tiny pools),
          null_keys (probability that a key column has nulls), bool_nulls, null_rate (0.2), empty (probability of 0 rows)
    0..max_rows rows; small value pools so duplicates / ties are frequent; per column a null mode:
    none 30 % | ~20 % nulls 55 % | all null 7 % | mostly null 8 %.
    """
    if isinstance(cols_kinds, dict):
        cols_kinds = list(cols_kinds.items())
    max_rows = opts.get("max_rows") or 8
    hostile = opts.get("hostile", True)
    unique = set(opts.get("unique", ()))
    keys = set(opts.get("keys", KEY_NAMES))
    null_keys = opts.get("null_keys", 0.35)
    null_rate = opts.get("null_rate", 0.3)
    if nrows is None:
        if rng.random() < opts.get("empty", 0.08):
            nrows = 0
        else:
            nrows = rng.randint(1, max_rows)
    strings = list(TAME_STRINGS) + [""] + (list(HOSTILE_STRINGS) if hostile else [])
    columns = []
    for c, k in cols_kinds:
        if c in unique:
            vals = rng.sample(range(1, nrows + 4), nrows)
            columns.append(vals)
            continue
        is_key = c in keys
        if k == "int":
            pool = KEY_INT_POOL if is_key else INT_POOL
        elif k == "float":
            pool = FLOAT_POOL
        elif k == "str":
            pool = KEY_STR_POOL + ([""] if hostile and rng.random() < 0.15 else []) if is_key else strings
        else:
            pool = [True, False]
        sub = rng.sample(pool, min(len(pool), rng.randint(1, 4 if not is_key else 3)))
        if is_key:
            mode = "some" if rng.random() < null_keys else "none"
        elif k == "bool":
            mode = "some" if rng.random() < opts.get("bool_nulls", 0.0) else "none"
        else:
            mode = rng.choices(["none", "some", "all", "most"], [0.30, 0.55, 0.07, 0.08])[0]
        p = {"none": 0.0, "some": null_rate, "all": 1.0, "most": 0.7}[mode]
        columns.append([None if rng.random() < p else rng.choice(sub) for _ in range(nrows)])
    rows = [[columns[j][i] for j in range(len(cols_kinds))] for i in range(nrows)]
    return mk_table([c for c, _ in cols_kinds], [k for _, k in cols_kinds], rows)


def table_state(name, table, unique=(), ctx=None):
    """PState of a bare table: facts are read off the generated data (nulls present? unique?)"""
    ci = {}
    n = len(table["rows"])
    for j, (c, k) in enumerate(zip(table["cols"], table["kinds"])):
        vals = [r[j] for r in table["rows"]]
        has_null = any(v is None for v in vals)
        keyed = [json.dumps(v, sort_keys=True) for v in vals]
        uniq = (not has_null) and len(set(keyed)) == len(keyed)
        # facts must hold for *every* conforming input the oracles may substitute (permuted / perturbed rows), so
        # uniqueness is only claimed for designated id columns; nullability is claimed from the data
        ci[c] = CI(k, null=has_null or n == 0 and False, uniq=(uniq and c in unique), const=False)
    return PState({"table": name}, table["cols"], ci, ctx)


# ------------------------------------------------------------------------------------------------
# step generators
# ------------------------------------------------------------------------------------------------

P_FNS = [  # (op, arg kinds or None for zero-arg, result kind rule, weight)
    ("_size", None, "int", 1.0), ("size", "any", "int", 0.6), ("count", "any", "int", 1.2),
    ("sum", "num", "same", 2.0), ("mean", "num", "float", 1.5), ("max", "numstr", "same", 1.2),
    ("min", "numstr", "same", 1.2), ("median", "num", "float", 0.5), ("nunique", "any", "int", 0.6),
    ("std", "num", "float", 0.4), ("var", "num", "float", 0.4), ("all", "bool", "bool", 0.3), ("any", "bool", "bool", 0.3),
    ("any_value", "key", "same", 0.5),
]
G_FNS = [("_size", None, "int", 1.0), ("size", "any", "int", 0.5), ("count", "any", "int", 1.0),
         ("sum", "num", "same", 2.0), ("mean", "num", "float", 1.5), ("max", "numstr", "same", 1.0),
         ("min", "numstr", "same", 1.0), ("median", "num", "float", 0.4), ("nunique", "any", "int", 0.4),
         ("std", "num", "float", 0.4), ("var", "num", "float", 0.4), ("any_value", "key", "same", 0.4),
         ("lit_sum", None, "int", 0.3)]
W_FNS = [("_row_number", None, "int", 1.5), ("cumsum", "num", "same", 2.0), ("cummax", "num", "same", 1.2),
         ("cummin", "num", "same", 1.2), ("shift", "any", "same", 1.5), ("cumcount", "any", "int", 0.5),
         ("_count", None, "int", 0.3), ("cumprod", "num", "same", 0.3), ("bfill", "any", "same", 0.3),
         ("ffill", "any", "same", 0.3), ("first", "any", "same", 0.3), ("last", "any", "same", 0.3),
         ("rank", "num", "float", 0.3)]
NONNULL_AGGS = {"_size", "size", "count", "nunique", "_row_number", "cumcount", "_count", "lit_sum"}

STEP_WEIGHTS = {"extend": 24, "wextend": 12, "project": 10, "select_rows": 12, "select_columns": 6,
                "drop_columns": 6, "rename_columns": 5, "map_columns": 4, "order_rows": 3, "natural_join": 10,
                "concat_rows": 4, "convert_records": 3}

FAULT_KINDS = ["unknown_column", "overwrite_window_column", "use_and_produce", "non_aggregate_in_project",
               "two_arg_window", "missing_join_key", "concat_different_columns", "select_dropped_column",
               "nonkey_common_check", "window_fn_without_order", "ordered_contradiction", "project_alters_group",
               "reverse_not_in_order", "cross_join_with_keys", "bad_jointype", "outer_jointype", "duplicate_op_keys",
               "drop_all_columns", "rename_collision", "partition_order_overlap", "limit_select_dropped_after_order",
               "check_after_order", "concat_id_collision", "empty_select", "nested_window_expr", "window_fn_in_select"]


class Gen:
    """pipeline generator over a fixed set of input tables"""

    def __init__(self, rng, tables, opts, unique=None, thorough=False):
        self.rng = rng
        self.tables = tables
        self.o = opts
        self.unique = unique or {}
        self.thorough = thorough
        self.next_def = 1
        self.main_defs = {}       # prefix length of the main pipeline -> def id
        self.tstates = {name: table_state(name, t, self.unique.get(name, ()), self) for name, t in tables.items()}
        self.labels = ["a", "b", "left", "right"] + (['l"q', "b\\s", "it's", "x y", "é", "%"] if opts["hostile"] else [])

    # ---- small utilities -----------------------------------------------------------------------
    def sup(self, op, cls):
        return catalog_supports(op, cls, tuple(self.o["backends"]))

    def wchoice(self, items):
        items = [(w, v) for w, v in items if w > 0]
        tot = sum(w for w, _ in items)
        x = self.rng.random() * tot
        for w, v in items:
            x -= w
            if x <= 0:
                return v
        return items[-1][1]

    def sample(self, xs, lo, hi):
        xs = list(xs)
        n = max(min(self.rng.randint(lo, hi), len(xs)), 0)
        return self.rng.sample(xs, n)

    # ---- extend ------------------------------------------------------------------------------------
    def step_extend(self, st):
        r, o = self.rng, self.o
        nops = r.choice([1, 1, 1, 2, 2, 3])
        chain = st.last and st.last.get("call") == "extend" and not st.last.get("windowed") \
            and r.random() < o["extend_after_extend"]
        prev_targets = list(st.last.get("targets", [])) if chain else []
        targets = []
        fresh = st.fresh(r, nops)
        for i in range(nops):
            if prev_targets and r.random() < 0.5:
                t = r.choice(prev_targets)
            elif r.random() < o["overwrite"]:
                t = r.choice(st.cols)
            else:
                t = fresh[i]
            if t not in targets:
                targets.append(t)
        ops, newci = [], {}
        for t in targets:
            avoid = [x for x in targets if x != t]   # a column produced in this step may only be used by itself
            eg = ExprGen(r, st, o, avoid=avoid)
            if chain and prev_targets and r.random() < 0.6:
                # prefer expressions over the previous extend's products (extend-merge territory, D5)
                usable = [c for c in prev_targets if c in st.cols and c not in avoid]
                if usable:
                    c = r.choice(usable)
                    k = st.ci[c].kind
                    if k in ("int", "float"):
                        e0 = eg.col(c)
                        lit = eg.lit(k)
                        op = r.choice(["+", "*", "-"])
                        e = eg.mk(f"{e0.text} {op} {_w(lit, P_MUL + 1)}", k, e0.null, P_ADD if op != "*" else P_MUL, [e0])
                    else:
                        e = eg.col(c)
                    ops.append([t, e.text])
                    newci[t] = CI(e.kind, e.null, False, False)
                    continue
            kind = st.ci[t].kind if (t in st.ci and r.random() < 0.6) else None
            e = eg.any_expr(kind)
            ops.append([t, e.text])
            newci[t] = CI(e.kind, e.null, uniq=False, const=(not e.cols))
            if len(e.cols) == 1 and e.text in st.ci:   # a bare column copy keeps its facts
                newci[t] = st.ci[e.text].copy()
        cols = list(st.cols) + [t for t in targets if t not in st.cols]
        ci = {c: (newci[c] if c in newci else st.ci[c]) for c in cols}
        step = {"call": "extend", "ops": ops, "partition_by": None, "order_by": None, "reverse": None}
        st.push(step, cols, ci, {"call": "extend", "windowed": False, "targets": targets})
        return True

    def _fn_choices(self, table, cls, st, part, avoid):
        """candidate (weight, fn, argcol|None, kind, null) for window / project functions"""
        out = []
        extra = self.o.get("extra_fns", ())
        for fn, argk, resk, wgt in table:
            cat = "sum" if fn == "lit_sum" else fn
            if not (self.sup(cat, cls) or fn in extra):
                continue
            if argk is None:
                out.append((wgt, fn, None, "int", False))
                continue
            if argk == "key":
                cands = [c for c in st.cols if (c in part or st.ci[c].const) and c not in avoid]
                if self.rng.random() < self.o["any_value_nonconst"]:
                    cands = [c for c in st.cols if c not in avoid]
            elif argk == "num":
                cands = st.of_kind(("int", "float"), avoid=avoid)
            elif argk == "numstr":
                cands = st.of_kind(("int", "float"), avoid=avoid) * 2 + st.of_kind(("str",), avoid=avoid)
            elif argk == "bool":
                cands = st.of_kind(("bool",), nonnull=True, avoid=avoid)
            else:
                cands = [c for c in st.cols if c not in avoid]
            if not cands:
                continue
            c = self.rng.choice(cands)
            k = st.ci[c].kind
            if resk == "same":
                rk = k
                if fn == "sum" and k == "bool":
                    rk = "int"
            else:
                rk = resk
            null = False if fn in NONNULL_AGGS else True
            if fn in ("sum", "mean", "max", "min", "median", "any_value", "cumsum", "cummax", "cummin", "all", "any",
                      "first", "last", "cumprod") and not st.ci[c].null:
                null = False
            if fn in ("std", "var", "shift", "rank", "bfill", "ffill"):
                null = True
            out.append((wgt, fn, c, rk, null))
        return out

    @staticmethod
    def _fn_text(fn, c, rng):
        if fn == "lit_sum":
            return "(1).sum()"
        if c is None:
            return fn + "()"
        if fn == "shift":
            k = rng.choice([None, 1, 1, 2, -1])
            return f"{c}.shift()" if k is None else f"{c}.shift({k})"
        return f"{c}.{fn}()"

    def step_wextend(self, st):
        """windowed extend: 1-3 partition columns (or 1), optional 1-3 order columns with mixed reversal"""
        r, o = self.rng, self.o
        keyish = [c for c in st.cols if st.ci[c].kind in ("str", "int", "bool") and not st.ci[c].uniq]
        if not keyish and r.random() < 0.5:
            keyish = [c for c in st.cols if not st.ci[c].uniq]
        # a window right after a window: often the SAME partition with the order columns permuted or one reversal
        # toggled (the builder merges consecutive windowed extends only for identical window specifications)
        prev = st.last if (st.last and st.last.get("windowed") and "part" in st.last) else None
        sibling = False
        if prev and r.random() < 0.35 and all(c in st.cols for c in prev["part"] + prev["order"]) \
                and not (set(prev["targets"]) & set(prev["part"] + prev["order"])):
            part, order, reverse = list(prev["part"]), list(prev["order"]), list(prev["reverse"])
            mode = r.random()
            if len(order) >= 2 and mode < 0.5:
                order = order[::-1]
            elif order and mode < 0.8:
                reverse = [c for c in reverse if c != order[0]] if order[0] in reverse else reverse + [order[0]]
            ordered = bool(order)
            sibling = True
        elif r.random() < 0.15 or not keyish:
            part = []
        else:
            part = self.sample(keyish, 1, r.choice([1, 1, 2, 3]))
        if not sibling:
            ordered = r.random() < 0.55
            order, reverse = [], []
        if ordered and not sibling:
            uq = [c for c in st.uniq_cols() if c not in part]
            if o["total_order"] and not uq:
                ordered = False
            else:
                oc = [c for c in st.cols if c not in part and c not in uq]
                if not (r.random() < o["null_order_keys"]):
                    oc = [c for c in oc if not st.ci[c].null]
                order = self.sample(oc, 0, 2)
                if o["total_order"]:
                    order.append(r.choice(uq))
                elif not order:
                    oc2 = [c for c in st.cols if c not in part]
                    if not oc2:
                        ordered = False
                    else:
                        order = [r.choice(oc2)]
                reverse = [c for c in order if r.random() < 0.35]
        if not part and not ordered and r.random() < 0.3 and keyish:
            part = [r.choice(keyish)]
        # a window keyed / ordered by a column the plain extend right below has just (re)defined: the SQL generator may
        # merge the two steps only if the window does not depend on that column
        pl = st.last if (st.last and st.last.get("call") == "extend" and not st.last.get("windowed")) else None
        if pl and not sibling and r.random() < (0.6 if ordered else 0.35):
            cand = [t for t in pl.get("targets", []) if t in st.cols and t not in part and t not in order
                    and not st.ci[t].null]
            if cand:
                t = r.choice(cand)
                if ordered:
                    order = [t] + order[-2:]      # the unique column that makes the order total is the last one
                    reverse = [c for c in reverse if c in order] + ([t] if r.random() < 0.35 else [])
                elif st.ci[t].kind in ("str", "int", "bool"):
                    part = part + [t]
        table = W_FNS if ordered else G_FNS
        cls = "w" if ordered else "g"
        frozen = set(part) | set(order)
        nops = r.choice([1, 1, 2, 2, 3])
        fresh = st.fresh(r, nops)
        targets = []
        for i in range(nops):
            cand = [c for c in st.cols if c not in frozen]
            t = r.choice(cand) if cand and r.random() < o["overwrite"] * 0.7 else fresh[i]
            if t not in targets:
                targets.append(t)
        ops, newci = [], {}
        for t in targets:
            avoid = [x for x in targets if x != t]
            ch = self._fn_choices(table, cls, st, part, avoid)
            if not ch:
                continue
            _, fn, c, kind, null = self.wchoice([(x[0], x) for x in ch])
            ops.append([t, self._fn_text(fn, c, r)])
            uniq = fn == "_row_number" and not part and o["total_order"]
            newci[t] = CI(kind, null, uniq=uniq, const=False)
        if not ops:
            return False
        targets = [t for t, _ in ops]
        cols = list(st.cols) + [t for t in targets if t not in st.cols]
        ci = {c: (newci[c] if c in newci else st.ci[c]) for c in cols}
        step = {"call": "extend", "ops": ops, "partition_by": (part if part else 1), "order_by": (order or None),
                "reverse": (reverse or None)}
        st.push(step, cols, ci, {"call": "extend", "windowed": True, "targets": targets, "ordered": ordered,
                                 "part": list(part), "order": list(order), "reverse": list(reverse)})
        return True

    # ---- project -------------------------------------------------------------------------------
    def step_project(self, st):
        r, o = self.rng, self.o
        keyish = [c for c in st.cols if st.ci[c].kind in ("str", "int", "bool")]
        if r.random() < 0.1:
            keyish = list(st.cols)
        if r.random() < 0.25 or not keyish:
            group = []
        else:
            group = self.sample(keyish, 1, r.choice([1, 1, 2, 3]))
        nops = r.choice([1, 1, 2, 2, 3]) if (not group or r.random() < 0.9) else 0
        fresh = st.fresh(r, max(nops, 1))
        targets = []
        for i in range(nops):
            cand = [c for c in st.cols if c not in group]
            t = r.choice(cand) if cand and r.random() < o["overwrite"] * 0.5 else fresh[i]
            if t not in targets and t not in group:
                targets.append(t)
        ops, newci = [], {}
        for t in targets:
            avoid = [x for x in targets if x != t]
            ch = self._fn_choices(P_FNS, "p", st, group, avoid)
            if not ch:
                continue
            _, fn, c, kind, null = self.wchoice([(x[0], x) for x in ch])
            ops.append([t, self._fn_text(fn, c, r)])
            newci[t] = CI(kind, null, uniq=False, const=not group)
        if not ops and not group:
            return False
        cols = list(group) + [t for t, _ in ops]
        ci = {}
        for c in group:
            ci[c] = st.ci[c].copy()
            ci[c].uniq = (len(group) == 1 and not st.ci[c].null)
            ci[c].const = False
        for t, _ in ops:
            ci[t] = newci[t]
        step = {"call": "project", "ops": ops, "group_by": list(group)}
        st.push(step, cols, ci, {"call": "project", "targets": [t for t, _ in ops], "group": list(group)})
        return True

    def step_kill_project_outputs(self, st):
        """after a project: overwrite or drop every aggregate it produced (SQL prunes them all, D14)"""
        r = self.rng
        tg = [t for t in st.last.get("targets", []) if t in st.cols]
        if not tg:
            return False
        group = st.last.get("group", [])
        if group and r.random() < 0.5:
            cols = [c for c in st.cols if c not in tg]
            step = {"call": "drop_columns", "cols": list(tg)}
            st.push(step, cols, {c: st.ci[c] for c in cols})
            return True
        ops, ci = [], dict(st.ci)
        for t in tg:
            k = r.choice(["int", "str", "float"])
            l = ExprGen(r, st, self.o).lit(k)
            ops.append([t, l.text])
            ci[t] = CI(k, False, False, True)
        step = {"call": "extend", "ops": ops, "partition_by": None, "order_by": None, "reverse": None}
        st.push(step, list(st.cols), ci, {"call": "extend", "windowed": False, "targets": list(tg)})
        return True

    # ---- row / column steps ----------------------------------------------------------------------
    def step_select_rows(self, st):
        r = self.rng
        e = ExprGen(r, st, self.o).boolean(r.choice([2, 3, 3, 4, 5, 6, 8]), "filter")
        st.push({"call": "select_rows", "expr": e.text}, list(st.cols), dict(st.ci))
        return True

    def step_select_columns(self, st):
        r = self.rng
        if len(st.cols) < 1:
            return False
        keep = self.sample(st.cols, 1, max(1, len(st.cols)))
        if r.random() < 0.6:
            keep = [c for c in st.cols if c in keep]     # mostly keep declared order, sometimes permute
        st.push({"call": "select_columns", "cols": keep}, keep, {c: st.ci[c] for c in keep})
        return True

    def step_drop_columns(self, st):
        if len(st.cols) < 2:
            return False
        uq = st.uniq_cols()
        cand = [c for c in st.cols if not (c in uq and self.rng.random() < 0.7)]   # tend to keep the tiebreak column
        drop = self.sample(cand, 1, max(1, min(len(st.cols) - 1, 3)))
        if not drop or len(drop) >= len(st.cols):
            return False
        cols = [c for c in st.cols if c not in drop]
        st.push({"call": "drop_columns", "cols": drop}, cols, {c: st.ci[c] for c in cols},
                {"call": "drop_columns", "dropped": drop})
        return True

    def _rename_pairs(self, st):
        """[(old, new)..]: fresh names, or a swap of two columns"""
        r = self.rng
        if len(st.cols) >= 2 and r.random() < 0.2:
            a, b = r.sample(st.cols, 2)
            return [(a, b), (b, a)]
        olds = self.sample(st.cols, 1, 2)
        news = st.fresh(r, len(olds), prefer_dropped=0.3)
        return list(zip(olds, news))

    def step_rename_columns(self, st):
        pairs = self._rename_pairs(st)
        m = dict(pairs)
        cols = [m.get(c, c) for c in st.cols]
        ci = {m.get(c, c): st.ci[c] for c in st.cols}
        st.push({"call": "rename_columns", "map": [[new, old] for old, new in pairs]}, cols, ci)
        return True

    def step_map_columns(self, st):
        r = self.rng
        pairs = self._rename_pairs(st)
        m = dict(pairs)
        dele = []
        if len(st.cols) - len(m) >= 2 and r.random() < 0.5:
            dele = self.sample([c for c in st.cols if c not in m and c not in m.values()], 1, 1)
        cols = [m.get(c, c) for c in st.cols if c not in dele]
        ci = {m.get(c, c): st.ci[c] for c in st.cols if c not in dele}
        mp = [[old, new] for old, new in pairs] + [[d, None] for d in dele]
        r.shuffle(mp)
        st.push({"call": "map_columns", "map": mp}, cols, ci)
        return True

    def step_order_rows(self, st, final=False):
        r, o = self.rng, self.o
        uq = st.uniq_cols()
        want_limit = bool(uq) and r.random() < (0.5 if not final else 0.4)
        if want_limit and not (r.random() < o["limit_null_order"]):
            cand = [c for c in st.cols if c not in uq and not st.ci[c].null]
        else:
            cand = [c for c in st.cols if c not in uq]
        order = self.sample(cand, 0 if uq else 1, 2)
        if uq and (want_limit or r.random() < 0.6):
            order.append(r.choice(uq))
        if not order:
            order = [r.choice(st.cols)]
        reverse = [c for c in order if r.random() < 0.35]
        limit = r.choice([0, 1, 2, 3, 5]) if want_limit else None
        step = {"call": "order_rows", "cols": order, "reverse": reverse or None, "limit": limit}
        st.push(step, list(st.cols), dict(st.ci), {"call": "order_rows", "limit": limit})
        return True

    # ---- two-table steps -------------------------------------------------------------------------
    def _b_source(self, st, main):
        """a start state for the b side: a prefix of the main pipeline (shared sub-DAG) or a table"""
        r = self.rng
        if main is not None and r.random() < self.o["shared"] and len(main.snaps) >= 1:
            k = r.randrange(len(main.snaps))
            if k == 0 and main.root.get("table") and r.random() < 0.5 and len(main.snaps) > 1:
                k = r.randrange(1, len(main.snaps))
            cols, ci = main.snaps[k]
            if k == 0 and "table" in main.root:
                root = {"table": main.root["table"]}
            else:
                if k not in self.main_defs:
                    self.main_defs[k] = self.next_def
                    self.next_def += 1
                root = {"ref": self.main_defs[k]}
            return PState(root, cols, ci, self), True
        name = r.choice(sorted(self.tables))
        t = self.tstates[name]
        return PState({"table": name}, t.cols, t.ci, self), False

    def _b_unary(self, b, n):
        """apply up to n random unary steps to the b side"""
        calls = ["extend", "select_rows", "project", "drop_columns", "rename_columns", "wextend", "select_columns"]
        for _ in range(n):
            c = self.rng.choice(calls)
            getattr(self, "step_" + c)(b)

    @staticmethod
    def _pipe_of(b):
        p = dict(b.root)
        if "ref" in p:
            if not b.steps:
                return {"ref": p["ref"]}
            return {"src": {"ref": p["ref"]}, "steps": b.steps}
        return {"table": p["table"], "steps": b.steps}

    def step_natural_join(self, st, main=None):
        r, o = self.rng, self.o
        b, shared = self._b_source(st, main if main is not None else st)
        jt = r.choice(list(o["join_types"]))
        style = r.random()
        if shared and style < 0.4:
            # join with an aggregate of itself
            keyish = [c for c in b.cols if b.ci[c].kind in ("str", "int", "bool") and c in st.cols
                      and st.ci[c].kind == b.ci[c].kind]
            if keyish:
                grp = self.sample(keyish, 1, 2)
                ch = self._fn_choices(P_FNS, "p", b, grp, [])
                ch = [x for x in ch if x[1] != "any_value"]
                if ch:
                    _, fn, c, kind, null = self.wchoice([(x[0], x) for x in ch])
                    t = ([n for n in st.fresh(r, 3) if n not in b.cols] +
                         [n for n in ("agg_t", "agg_t2", "agg_t3", "agg_t4") if n not in b.cols and n not in st.cols])[0]
                    cols = list(grp) + [t]
                    ci = {g: b.ci[g].copy() for g in grp}
                    for g in grp:
                        ci[g].uniq = len(grp) == 1 and not ci[g].null
                    ci[t] = CI(kind, null)
                    b.push({"call": "project", "ops": [[t, self._fn_text(fn, c, r)]], "group_by": grp}, cols, ci)
        elif shared and style < 0.75:
            # rename every non-key column (the CTE re-use pattern)
            keys = self.sample([c for c in b.cols if c in st.cols], 1, 2)
            others = [c for c in b.cols if c not in keys]
            if others:
                news = []
                for c in others:
                    n = c + "2"
                    while n in st.cols or n in b.cols or n in news:
                        n += "x"
                    news.append(n)
                m = dict(zip(others, news))
                cols = [m.get(c, c) for c in b.cols]
                ci = {m.get(c, c): b.ci[c] for c in b.cols}
                b.push({"call": "rename_columns", "map": [[m[c], c] for c in others]}, cols, ci)
        else:
            self._b_unary(b, r.choice([0, 0, 1, 1, 2]))
        # keys
        common = [c for c in st.cols if c in b.cols]
        good_common = [c for c in common if st.ci[c].kind == b.ci[c].kind]
        bad_common = [c for c in common if c not in good_common]
        if not o["bool_common"]:
            bad_common += [c for c in good_common if st.ci[c].kind == "bool"]
            good_common = [c for c in good_common if st.ci[c].kind != "bool"]
        if bad_common:
            # ill-kinded common columns would make the executors' type check raise: drop them from b
            keep = [c for c in b.cols if c not in bad_common]
            if not keep:
                return False
            b.push({"call": "select_columns", "cols": keep}, keep, {c: b.ci[c] for c in keep})
            common = good_common
        on = []
        if jt != "cross":
            if good_common and not (r.random() < o["diff_keys"]):
                pref = [c for c in good_common if st.ci[c].kind != "float"] or good_common
                if not (r.random() < o["null_join_keys"]):
                    pref = [c for c in pref if not st.ci[c].null and not b.ci[c].null] or pref
                ks = self.sample(pref, 1, r.choice([1, 1, 2]))
                on = list(ks)
            else:
                pairs = [(ca, cb) for ca in st.cols for cb in b.cols
                         if st.ci[ca].kind == b.ci[cb].kind and ca != cb and st.ci[ca].kind != "float"
                         and cb not in st.cols and ca not in b.cols]
                if pairs and not (r.random() < o["null_join_keys"]):
                    pairs = [(ca, cb) for ca, cb in pairs if not st.ci[ca].null and not b.ci[cb].null] or pairs
                if pairs:
                    on = [list(r.choice(pairs))]
                    if good_common and r.random() < 0.3:
                        on.append(r.choice(good_common))
                elif good_common:
                    on = [r.choice(good_common)]
                else:
                    jt = "cross"
        if jt == "full" and "sqlite" in o["backends"] and any(isinstance(k, list) for k in on):
            # SQLite's FULL JOIN emulation asserts same-named keys; differently named keys are generated for the
            # other join types only (the assertion itself is reachable through the faulty stream / C16's own cases)
            if r.random() < 0.95:
                jt = r.choice(["inner", "left", "right"])
        on_a = [k[0] if isinstance(k, list) else k for k in on]
        on_b = [k[1] if isinstance(k, list) else k for k in on]
        same_keys = [k for k in on if not isinstance(k, list)]
        check = r.random() < 0.15 and set(common) <= set(same_keys)
        cols = list(st.cols) + [c for c in b.cols if c not in st.cols]
        ci = {}
        a_pad = jt in ("right", "full")
        b_pad = jt in ("left", "full")
        b_unique = any(b.ci[c].uniq for c in on_b)
        a_unique = any(st.ci[c].uniq for c in on_a)
        for c in cols:
            ina, inb = c in st.ci, c in b.ci
            if ina and inb:
                v = st.ci[c].copy()
                v.null = (st.ci[c].null or a_pad) and (b.ci[c].null or b_pad)
                if c in same_keys:
                    v.null = st.ci[c].null or b.ci[c].null
            elif ina:
                v = st.ci[c].copy()
                v.null = v.null or a_pad
            else:
                v = b.ci[c].copy()
                v.null = v.null or b_pad
            keep_uniq = False
            if ina and st.ci[c].uniq and jt in ("inner", "left") and b_unique and not (inb and c not in same_keys):
                keep_uniq = True
            if (not ina) and b.ci[c].uniq and jt in ("inner", "right") and a_unique:
                keep_uniq = True
            v.uniq = keep_uniq
            v.const = False
            ci[c] = v
        step = {"call": "natural_join", "b": self._pipe_of(b), "on": on, "jointype": jt, "check": bool(check)}
        st.push(step, cols, ci, {"call": "natural_join", "jointype": jt})
        return True

    def step_concat_rows(self, st, main=None):
        r = self.rng
        b, shared = self._b_source(st, main if main is not None else st)
        if shared and r.random() < 0.7:
            self._b_unary(b, r.choice([0, 1, 1]))
        common = [c for c in st.cols if c in b.cols and st.ci[c].kind == b.ci[c].kind]
        if not common:
            return False
        if set(common) != set(st.cols):
            st.push({"call": "select_columns", "cols": common}, common, {c: st.ci[c] for c in common})
        if set(b.cols) != set(common) or r.random() < 0.3:
            bc = list(common)
            if r.random() < 0.4:
                r.shuffle(bc)
            b.push({"call": "select_columns", "cols": bc}, bc, {c: b.ci[c] for c in bc})
        idc = None
        if r.random() < 0.6:
            idc = r.choice([n for n in ["src", "source_name", "tn"] + st.fresh(r, 1) if n not in st.cols])
        an, bn = r.choice(self.labels), r.choice(self.labels)
        cols = list(st.cols) + ([idc] if idc else [])
        ci = {}
        for c in st.cols:
            v = st.ci[c].copy()
            v.null = v.null or b.ci[c].null
            v.uniq = False
            v.const = False
            ci[c] = v
        if idc:
            ci[idc] = CI("str", False, False, False)
        step = {"call": "concat_rows", "b": self._pipe_of(b), "id_column": idc, "a_name": an, "b_name": bn}
        st.push(step, cols, ci, {"call": "concat_rows"})
        return True

    def step_convert_records(self, st):
        """unpivot (rows -> blocks) keyed by a unique column; or pivot back right after an unpivot"""
        r = self.rng
        if st.last and st.last.get("call") == "convert_records" and st.last.get("spec") and r.random() < 0.8:
            spec = st.last["spec"]
            keys, measure, value, srcs, kind = (spec["record_keys"], spec["control_keys"][0], st.last["value"],
                                                 st.last["srcs"], st.last["kind"])
            if all(c in st.cols for c in keys + [measure, value]) and len(st.cols) == len(keys) + 2:
                cols = list(keys) + list(srcs)
                ci = {k: st.ci[k].copy() for k in keys}
                for s in srcs:
                    ci[s] = CI(kind, True)
                for k in keys:
                    ci[k].uniq = len(keys) == 1
                step = {"call": "convert_records", "blocks_in": spec, "blocks_out": None}
                st.push(step, cols, ci, {"call": "convert_records"})
                return True
        uq = st.uniq_cols()
        if not uq:
            return False
        key = r.choice(uq)
        for kinds in r.sample([("int",), ("float",), ("str",), ("int", "float")], 4):
            cand = [c for c in st.cols if st.ci[c].kind in kinds and c != key]
            if len(cand) >= 2:
                break
        else:
            return False
        srcs = self.sample(cand, 2, 3)
        measure, value = [n for n in ["measure", "value", "mk", "mv"] if n not in st.cols][:2]
        labels = r.sample(["m1", "m2", "m3", "lo", "hi", "m4"] + (["it's", "é"] if self.o["hostile"] else []), len(srcs))
        control = mk_table([measure, value], ["str", "str"], [[l, s] for l, s in zip(labels, srcs)])
        spec = {"control": control, "record_keys": [key], "control_keys": [measure], "strict": True}
        kind = "float" if any(st.ci[s].kind == "float" for s in srcs) else st.ci[srcs[0]].kind
        cols = [key, measure, value]
        ci = {key: st.ci[key].copy(), measure: CI("str", False), value: CI(kind, any(st.ci[s].null for s in srcs))}
        ci[key].uniq = False
        step = {"call": "convert_records", "blocks_in": None, "blocks_out": spec}
        st.push(step, cols, ci, {"call": "convert_records", "spec": spec, "value": value, "srcs": srcs, "kind": kind})
        return True

    # ---- driver ----------------------------------------------------------------------------------
    def valid_step(self, st, main=None, allow=None):
        """append one rule-conforming step to st (in place); returns the call name"""
        o, r = self.o, self.rng
        # pattern biases first
        if st.last:
            lc = st.last.get("call")
            if lc == "project" and r.random() < o["dead_project"]:
                if self.step_kill_project_outputs(st):
                    return "kill_project"
            if lc == "extend" and st.last.get("windowed") and len(st.last.get("targets", [])) >= 2 \
                    and r.random() < o["drop_window_output"]:
                tg = [t for t in st.last["targets"] if t in st.cols]
                drop = self.sample(tg, 1, len(tg) - 1)
                if drop and len(drop) < len(st.cols):
                    if r.random() < 0.5:
                        cols = [c for c in st.cols if c not in drop]
                        st.push({"call": "drop_columns", "cols": drop}, cols, {c: st.ci[c] for c in cols},
                                {"call": "drop_columns", "dropped": drop})
                        return "drop_columns"
                    keep = [c for c in tg if c not in drop]
                    st.push({"call": "select_columns", "cols": keep}, keep, {c: st.ci[c] for c in keep})
                    return "select_columns"
            if lc == "drop_columns" and r.random() < o["select_after_drop"]:
                if self.step_select_columns(st):
                    return "select_columns"
            if lc == "extend" and not st.last.get("windowed") and r.random() < o["extend_after_extend"] * 0.6:
                if self.step_extend(st):
                    return "extend"
            if lc == "extend" and st.last.get("windowed") and (allow is None or "wextend" in allow) \
                    and r.random() < 0.3 * min(1.0, o["window"]):
                if self.step_wextend(st):
                    return "wextend"
        w = dict(STEP_WEIGHTS)
        w["wextend"] *= o["window"]
        w["convert_records"] *= o["convert_records"]
        w["order_rows"] *= (1 + 10 * o["interior_order"])
        for k, m in (o.get("step_weights") or {}).items():
            w[k] = w.get(k, 0) * m
        if allow is not None:
            w = {k: v for k, v in w.items() if k in allow}
        for _ in range(12):
            call = self.wchoice([(v, k) for k, v in sorted(w.items())])
            f = getattr(self, "step_" + call)
            ok = f(st, main) if call in ("natural_join", "concat_rows") else f(st)
            if ok:
                return call
        self.step_select_rows(st)
        return "select_rows"

    # ---- faulty steps ----------------------------------------------------------------------------
    def faulty_step(self, st, kind=None):
        """
        exactly one construction-rule violation applied to the prefix `st` (not modified).  Returns (Step, kind) or
        (None, None) when no fault kind applies.  Some kinds are *accepted* by the unchanged library although the
        documented rules forbid them (that is what C26 / C06 look for): the caller decides by building.
        """
        r = self.rng
        kinds = list(FAULT_KINDS) if kind is None else [kind]
        r.shuffle(kinds)
        for k in kinds:
            s = self._fault(st, k)
            if s is not None:
                return s, k
        return None, None

    def _unknown(self, st):
        for n in ["zz", "nope", "q9"] + sorted(st.dropped):
            if n not in st.cols:
                return n
        return "zz_" + "_".join(st.cols)

    def _fault(self, st, k):
        r = self.rng
        ext = lambda ops, **kw: dict({"call": "extend", "ops": ops, "partition_by": None, "order_by": None,
                                      "reverse": None}, **kw)
        nums = st.of_kind(("int", "float"))
        keyish = [c for c in st.cols if st.ci[c].kind in ("str", "int", "bool")]
        u = self._unknown(st)
        if k == "unknown_column":
            form = r.choice(["extend", "project", "select_rows", "select_columns", "drop_columns", "rename_columns",
                             "order_rows", "group_by", "partition_by", "map_columns", "order_by"])
            c0 = st.cols[0]
            if form == "extend":
                return ext([[st.fresh(r)[0], f"{u} + 1"]])
            if form == "project":
                return {"call": "project", "ops": [["n1", f"{u}.sum()"]], "group_by": []}
            if form == "select_rows":
                return {"call": "select_rows", "expr": f"{u} > 1"}
            if form == "select_columns":
                return {"call": "select_columns", "cols": [c0, u]}
            if form == "drop_columns":
                return {"call": "drop_columns", "cols": [u]}
            if form == "rename_columns":
                return {"call": "rename_columns", "map": [["n1", u]]}
            if form == "map_columns":
                return {"call": "map_columns", "map": [[u, "n1"]]}
            if form == "order_rows":
                return {"call": "order_rows", "cols": [u], "reverse": None, "limit": None}
            if form == "group_by":
                return {"call": "project", "ops": [["n1", "_size()"]], "group_by": [u]}
            if form == "partition_by":
                return ext([["n1", "_size()"]], partition_by=[u])
            if form == "order_by":
                return ext([["n1", "_row_number()"]], partition_by=1, order_by=[u])
        if k == "overwrite_window_column" and keyish:
            g = r.choice(keyish)
            if r.random() < 0.5 or len(st.cols) < 2:
                return ext([[g, "_size()"]], partition_by=[g])
            o = r.choice([c for c in st.cols if c != g])
            return ext([[o, "_row_number()"]], partition_by=[g], order_by=[o])
        if k == "use_and_produce" and nums and len(st.cols) >= 1:
            x = r.choice(nums)
            n = st.fresh(r)[0]
            return ext([[n, f"{x} + 1"], [x, "2"]])
        if k == "non_aggregate_in_project" and nums:
            x = r.choice(nums)
            e = r.choice([f"{x} + 1", x, "1", f"{x}.sum() + 1", f"({x} + 1).sum()"])
            return {"call": "project", "ops": [["n1", e]], "group_by": (self.sample(keyish, 0, 1))}
        if k == "two_arg_window" and len(nums) >= 1 and keyish:
            x = r.choice(nums)
            y = r.choice(nums)
            g = r.choice(keyish)
            e = r.choice([f"{x}.maximum({y})", f"({x} + {y}).sum()", f"{x}.shift({y})" if False else f"{x}.fmax({y})"])
            return ext([["n1", e]], partition_by=[g] if g not in (x, y) else 1)
        if k == "nested_window_expr" and nums:
            x = r.choice(nums)
            return ext([["n1", r.choice([f"{x}.sum() + 1", f"{x} - {x}.mean()", f"{x}.cumsum().abs()"])]])
        if k == "missing_join_key":
            name = sorted(self.tables)[0]
            side = r.choice(["left", "right", "both"])
            if side == "both":
                on = [u]
            elif side == "left":
                bcol = self.tstates[name].cols[0]
                on = [[u, bcol]]
            else:
                on = [[st.cols[0], u]]
            return {"call": "natural_join", "b": {"table": name, "steps": []}, "on": on, "jointype": "left",
                    "check": False}
        if k == "concat_different_columns":
            name = sorted(self.tables)[-1]
            t = self.tstates[name]
            if set(t.cols) == set(st.cols):
                if len(t.cols) < 2:
                    return None
                b = {"table": name, "steps": [{"call": "drop_columns", "cols": [t.cols[-1]]}]}
            else:
                b = {"table": name, "steps": []}
            return {"call": "concat_rows", "b": b, "id_column": None, "a_name": "a", "b_name": "b"}
        if k == "select_dropped_column" and st.dropped:
            d = [c for c in sorted(st.dropped) if c not in st.cols]
            if d:
                return {"call": "select_columns", "cols": [r.choice(d)] + self.sample(st.cols, 0, 1)}
        if k == "nonkey_common_check":
            name = st.root.get("table") or sorted(self.tables)[0]
            t = self.tstates[name]
            common = [c for c in st.cols if c in t.cols]
            if len(common) >= 2:
                key = r.choice(common)
                return {"call": "natural_join", "b": {"table": name, "steps": []}, "on": [key], "jointype": "inner",
                        "check": True}
        if k == "check_after_order":
            # the same violation behind an order_rows the builder eliminates
            name = st.root.get("table") or sorted(self.tables)[0]
            t = self.tstates[name]
            common = [c for c in st.cols if c in t.cols]
            if len(common) >= 2 and not (st.last and st.last.get("call") == "order_rows" and st.last.get("limit") is None):
                return None
            if len(common) >= 2:
                key = r.choice(common)
                return {"call": "natural_join", "b": {"table": name, "steps": []}, "on": [key], "jointype": "inner",
                        "check": True}
        if k == "window_fn_without_order" and nums:
            x = r.choice(nums)
            g = [c for c in keyish if c != x]
            return ext([["n1", r.choice([f"{x}.cumsum()", "_row_number()", f"{x}.shift()"])]],
                       partition_by=[r.choice(g)] if g else 1)
        if k == "ordered_contradiction" and nums and len(st.cols) >= 2:
            x = r.choice(nums)
            o = r.choice([c for c in st.cols if c != x])
            return ext([["n1", r.choice([f"{x}.sum()", f"{x}.max()", f"{x}.count()"])]], partition_by=1, order_by=[o])
        if k == "project_alters_group" and keyish:
            g = r.choice(keyish)
            return {"call": "project", "ops": [[g, "_size()"]], "group_by": [g]}
        if k == "reverse_not_in_order" and len(st.cols) >= 2:
            a, b = r.sample(st.cols, 2)
            if r.random() < 0.5:
                return {"call": "order_rows", "cols": [a], "reverse": [b], "limit": None}
            return ext([["n1", "_row_number()"]], partition_by=1, order_by=[a], reverse=[b])
        if k == "partition_order_overlap" and keyish:
            g = r.choice(keyish)
            return ext([["n1", "_row_number()"]], partition_by=[g], order_by=[g])
        if k in ("cross_join_with_keys", "bad_jointype", "outer_jointype"):
            name = st.root.get("table") or sorted(self.tables)[0]
            t = self.tstates[name]
            common = [c for c in st.cols if c in t.cols and st.ci[c].kind == t.ci[c].kind]
            if not common:
                return None
            jt = {"cross_join_with_keys": "cross", "bad_jointype": r.choice(["semi", "anti", "natural", ""]),
                  "outer_jointype": "outer"}[k]
            return {"call": "natural_join", "b": {"table": name, "steps": []}, "on": [common[0]], "jointype": jt,
                    "check": False}
        if k == "duplicate_op_keys" and nums:
            x = r.choice(nums)
            return ext([["n1", f"{x} + 1"], ["n1", f"{x} + 2"]])
        if k == "drop_all_columns":
            return {"call": "drop_columns", "cols": list(st.cols)}
        if k == "empty_select":
            return {"call": "select_columns", "cols": []}
        if k == "rename_collision" and len(st.cols) >= 2:
            a, b = r.sample(st.cols, 2)
            if r.random() < 0.5:
                return {"call": "rename_columns", "map": [[b, a]]}
            return {"call": "map_columns", "map": [[a, b]]}
        if k == "concat_id_collision":
            name = st.root.get("table")
            if name and set(self.tstates[name].cols) == set(st.cols):
                return {"call": "concat_rows", "b": {"table": name, "steps": []}, "id_column": st.cols[0],
                        "a_name": "a", "b_name": "b"}
        if k == "window_fn_in_select" and nums:
            x = r.choice(nums)
            return {"call": "select_rows", "expr": f"{x}.sum() > 1"}
        return None


def _nest_main(st, gen):
    """Pipe JSON of the main pipeline, nested so that every shared prefix carries its "def" """
    ks = sorted(k for k in gen.main_defs if 0 <= k <= len(st.steps))
    inner = None
    prev = 0
    for k in ks:
        seg = st.steps[prev:k]
        if inner is None:
            node = dict(st.root)
            node["steps"] = seg
        else:
            node = {"src": inner, "steps": seg}
        node["def"] = gen.main_defs[k]
        inner = node
        prev = k
    seg = st.steps[prev:]
    if inner is None:
        p = dict(st.root)
        p["steps"] = seg
        return p
    return {"src": inner, "steps": seg}


def gen_schemas(rng, ntab, opts):
    """column lists for the input tables: overlapping names (same name = same kind), usually a unique id `i`"""
    schemas = []
    for t in range(ntab):
        if t > 0 and rng.random() < 0.4:
            sch = list(schemas[0])                      # same schema as the first table (concat_rows partner)
            if rng.random() < 0.3:
                rng.shuffle(sch)
        else:
            pool = list(SCHEMA_POOL[1:])
            n = rng.randint(2, 6)
            must = [p for p in pool if p[0] in ("g", "x")] if rng.random() < 0.7 else []
            rest = [p for p in pool if p not in must]
            sch = must + rng.sample(rest, max(0, min(len(rest), n - len(must))))
            rng.shuffle(sch)
            if rng.random() < 0.8:
                sch.insert(rng.randrange(len(sch) + 1), ("i", "int"))
        schemas.append(sch)
    return schemas


def gen_case_with_state(rng, tier="quick", **bias):
    """-> (Case, PState of the valid prefix, Gen).  See gen_case."""
    o = dict(DEFAULT_BIAS)
    unknown = set(bias) - set(o) - {"extra_fns", "ntables", "depth", "schemas", "tables"}
    if unknown:
        raise TypeError("unknown generator options: " + str(sorted(unknown)))
    o.update(bias)
    thorough = tier == "thorough"
    max_depth = o["max_depth"] or (14 if thorough else 8)
    max_rows = o["max_rows"] or (24 if thorough else 8)
    ntab = o.get("ntables") or rng.choice([1, 1, 2, 2, 3] if thorough else [1, 1, 1, 2, 2])
    if o.get("tables"):
        tables = o["tables"]
        unique = {n: [c for c in t["cols"] if c == "i"] for n, t in tables.items()}
    else:
        schemas = o.get("schemas") or gen_schemas(rng, ntab, o)
        names = ["d", "e", "f", "t4", "t5"][:len(schemas)]
        tables, unique = {}, {}
        for name, sch in zip(names, schemas):
            uq = [c for c, _ in sch if c == "i"]
            tables[name] = gen_table(rng, sch, max_rows=max_rows, hostile=o["hostile"], unique=uq,
                                     null_keys=o["null_keys"], bool_nulls=o["bool_nulls"], empty=o["empty_tables"])
            unique[name] = uq
    g = Gen(rng, tables, o, unique, thorough)
    first = sorted(tables)[0]
    st = PState({"table": first}, g.tstates[first].cols, g.tstates[first].ci, g)
    depth = o.get("depth") or max(1, min(max_depth, int(1 + rng.random() ** 1.15 * max_depth)))
    faulty = rng.random() < o["fault_rate"]
    final_order = (not faulty) and rng.random() < o["final_order"]
    nvalid = depth - 1 if (faulty or final_order) else depth
    calls = []
    for _ in range(nvalid):
        calls.append(g.valid_step(st, st))
    fault = None
    if final_order:
        g.step_order_rows(st, final=True)
        calls.append("order_rows")
    valid_state = st
    pipe_steps_state = st
    if faulty:
        step, fault = g.faulty_step(st)
        if step is not None:
            pipe_steps_state = st.copy()
            pipe_steps_state.steps.append(step)
            calls.append("FAULT:" + fault)
    pipe = _nest_main(pipe_steps_state, g)
    case = {"tables": tables, "pipe": pipe,
            "meta": {"tier": tier, "fault": fault, "calls": calls, "declared": list(valid_state.cols),
                     "kinds": [valid_state.ci[c].kind for c in valid_state.cols]}}
    return case, valid_state, g


def gen_case(rng, tier="quick", **bias):
    """
    type-directed random Case.  Options (all optional, see DEFAULT_BIAS): fault_rate, overwrite, extend_after_extend,
    select_after_drop, interior_order, dead_project, diff_keys, join_types, window, total_order, null_keys,
    empty_tables, final_order, shared, hostile, null_cmp, bool_nulls, mod_ops, round_ops, minmax_ops, concat_null,
    convert_records, limit_null_order, any_value_nonconst, backends, step_weights, max_depth, max_rows, ntables,
    depth, schemas, tables (use these input tables), extra_fns (window / aggregate names allowed beyond the catalogue).
    case["meta"]["fault"] names the single rule violation when the pipeline ends in one (always the last step).
    """
    return gen_case_with_state(rng, tier, **bias)[0]


def gen_faulty_step(rng, pipe_state, kind=None):
    """one Step applying exactly one rule violation to the valid prefix `pipe_state` (a PState from
    gen_case_with_state); returns the Step (its fault kind is in step_fault_kind(step) of the returned pair form
    gen_faulty_step_kind)."""
    return gen_faulty_step_kind(rng, pipe_state, kind)[0]


def gen_faulty_step_kind(rng, pipe_state, kind=None):
    g = pipe_state.ctx
    old = g.rng
    g.rng = rng
    try:
        return g.faulty_step(pipe_state, kind)
    finally:
        g.rng = old


def gen_valid_step(rng, pipe_state, allow=None):
    """one rule-conforming Step for the prefix; returns (Step, new PState); pipe_state is not modified"""
    g = pipe_state.ctx
    old = g.rng
    g.rng = rng
    try:
        st = pipe_state.copy()
        n0 = len(st.steps)
        g.valid_step(st, None, allow)
        return st.steps[n0:], st
    finally:
        g.rng = old


def pipe_of_state(st):
    """Pipe JSON of a PState (main pipeline incl. shared-prefix defs)"""
    return _nest_main(st, st.ctx)


# ------------------------------------------------------------------------------------------------
# case inspection (distribution statistics) and shrinking
# ------------------------------------------------------------------------------------------------

def pipe_steps(pipe):
    """all steps of a Pipe in build order, sub-pipelines of joins / concats included (depth-first)"""
    if "src" in pipe:
        yield from pipe_steps(pipe["src"])
    for s in pipe.get("steps", []):
        if "b" in s:
            yield from pipe_steps(s["b"])
        yield s


def main_steps(pipe):
    """steps of the main chain only (sub-pipelines of b arguments excluded)"""
    out = []
    if "src" in pipe:
        out += main_steps(pipe["src"])
    out += list(pipe.get("steps", []))
    return out


def case_features(case):
    """facts used for the printed input distribution"""
    f = {}
    steps = list(pipe_steps(case["pipe"]))
    main = main_steps(case["pipe"])
    f["depth"] = len(main)
    f["total_steps"] = len(steps)
    calls = {}
    for s in steps:
        c = s["call"]
        if c == "extend" and (s.get("partition_by") or s.get("order_by")):
            c = "extend_windowed"
        calls[c] = calls.get(c, 0) + 1
    f["calls"] = calls
    f["ntables"] = len(case["tables"])
    f["shared"] = '"ref"' in json.dumps(case["pipe"])
    f["jointypes"] = sorted({s["jointype"] for s in steps if s["call"] == "natural_join"})
    f["diff_keys"] = any(isinstance(k, list) for s in steps if s["call"] == "natural_join" for k in (s.get("on") or []))
    rows = [len(t["rows"]) for t in case["tables"].values()]
    f["empty_table"] = any(n == 0 for n in rows)
    f["rows"] = rows
    cells = nulls = 0
    allnull = dup = False
    for t in case["tables"].values():
        for j in range(len(t["cols"])):
            col = [r[j] for r in t["rows"]]
            cells += len(col)
            nulls += sum(1 for v in col if v is None)
            if col and all(v is None for v in col):
                allnull = True
            ks = [json.dumps(v, sort_keys=True) for v in col]
            if len(set(ks)) < len(ks):
                dup = True
    f["null_rate"] = (nulls / cells) if cells else 0.0
    f["all_null_column"] = allnull
    f["duplicates"] = dup
    f["fault"] = (case.get("meta") or {}).get("fault")
    f["final_order"] = bool(main) and main[-1]["call"] == "order_rows"
    f["interior_order_nolimit"] = any(s["call"] == "order_rows" and s.get("limit") is None for s in main[:-1])
    return f


def _with_pipe(case, pipe):
    c = dict(case)
    c["pipe"] = pipe
    return c


def _shrink_pipe(pipe):
    """smaller Pipes: drop one step of the chain (last first), replace a b argument by a smaller one, drop op entries"""
    if "ref" in pipe and "steps" not in pipe:
        return
    steps = pipe.get("steps", [])
    for i in reversed(range(len(steps))):
        p = dict(pipe)
        p["steps"] = steps[:i] + steps[i + 1:]
        yield p
    for i, s in enumerate(steps):
        if "b" in s:
            for b2 in _shrink_pipe(s["b"]):
                s2 = dict(s)
                s2["b"] = b2
                p = dict(pipe)
                p["steps"] = steps[:i] + [s2] + steps[i + 1:]
                yield p
        if s["call"] in ("extend", "project") and len(s.get("ops") or []) > 1:
            for j in range(len(s["ops"])):
                s2 = dict(s)
                s2["ops"] = s["ops"][:j] + s["ops"][j + 1:]
                p = dict(pipe)
                p["steps"] = steps[:i] + [s2] + steps[i + 1:]
                yield p
        for key in ("partition_by", "order_by", "group_by", "cols"):
            v = s.get(key)
            if isinstance(v, list) and len(v) > 1:
                last_kept = (key == "order_by") or (key == "cols" and s["call"] == "order_rows")
                for j in range(len(v) - (1 if last_kept else 0)):
                    s2 = dict(s)
                    s2[key] = v[:j] + v[j + 1:]
                    if key == "order_by" and s.get("reverse"):
                        s2["reverse"] = [c for c in s["reverse"] if c in s2[key]] or None
                    if key == "cols" and s.get("reverse"):
                        s2["reverse"] = [c for c in s["reverse"] if c in s2[key]] or None
                    p = dict(pipe)
                    p["steps"] = steps[:i] + [s2] + steps[i + 1:]
                    yield p
    if "src" in pipe:
        for s2 in _shrink_pipe(pipe["src"]):
            p = dict(pipe)
            p["src"] = s2
            yield p
        if "def" not in pipe["src"] and "ref" not in pipe["src"]:
            # splice the source chain into this one
            p = dict(pipe["src"])
            p["steps"] = list(pipe["src"].get("steps", [])) + list(steps)
            for k in ("def",):
                if k in pipe:
                    p[k] = pipe[k]
            yield p


def _used_tables(pipe, acc):
    if "table" in pipe:
        acc.add(pipe["table"])
    if "src" in pipe:
        _used_tables(pipe["src"], acc)
    for s in pipe.get("steps", []):
        if "b" in s:
            _used_tables(s["b"], acc)
    return acc


def shrink_case(case):
    """iterable of smaller cases: fewer steps (last first), smaller b pipelines, fewer ops / list entries, fewer
    tables, fewer rows (halves, then single rows), fewer columns (only columns no expression text mentions), simpler
    cells.  Candidates may be ill-formed; the caller re-runs and keeps those that still fail the same way."""
    for p in _shrink_pipe(case["pipe"]):
        yield _with_pipe(case, p)
    used = _used_tables(case["pipe"], set())
    if set(case["tables"]) - used:
        c = dict(case)
        c["tables"] = {k: v for k, v in case["tables"].items() if k in used}
        yield c
    text = json.dumps(case["pipe"])
    for name, t in case["tables"].items():
        n = len(t["rows"])
        cands = []
        if n > 1:
            cands.append(t["rows"][: n // 2])
            cands.append(t["rows"][n // 2:])
        if n <= 8:
            for i in range(n):
                cands.append(t["rows"][:i] + t["rows"][i + 1:])
        for rows in cands:
            c = dict(case)
            c["tables"] = dict(case["tables"])
            c["tables"][name] = dict(t, rows=rows)
            yield c
        for j, col in enumerate(t["cols"]):
            if len(t["cols"]) > 1 and not re.search(r"(?<![A-Za-z0-9_])" + re.escape(col) + r"(?![A-Za-z0-9_])", text):
                c = dict(case)
                c["tables"] = dict(case["tables"])
                c["tables"][name] = {"cols": t["cols"][:j] + t["cols"][j + 1:], "kinds": t["kinds"][:j] + t["kinds"][j + 1:],
                                     "rows": [r[:j] + r[j + 1:] for r in t["rows"]]}
                yield c


def minimize(case, still_fails, budget=400):
    """greedy delta-debugging over shrink_case: keep a candidate whenever still_fails(candidate) is truthy"""
    cur = case
    n = 0
    progress = True
    while progress and n < budget:
        progress = False
        for cand in shrink_case(cur):
            n += 1
            if n >= budget:
                break
            try:
                ok = still_fails(cand)
            except Exception:
                ok = False
            if ok:
                cur = cand
                progress = True
                break
    return cur


MAX_EST_ROWS = 3000


def est_rows(case):
    """static upper estimate of the largest intermediate row count of a pipeline: a join multiplies (keys come from small
    pools, so a keyed join is taken as a third of the product), a concat adds.  The executable Lean model (exact
    rationals, list-based frames, quadratic windows) needs minutes on a chain of many-to-many joins of 20-row tables;
    suites that run the model skip pipelines beyond MAX_EST_ROWS and count them (size has nothing to do with any property)."""
    defs, worst = {}, [0]

    def go(p):
        if "ref" in p and "steps" not in p and "table" not in p and "src" not in p:
            return defs.get(p["ref"], 1)
        n = len(case["tables"][p["table"]]["rows"]) if "table" in p else go(p["src"])
        for st in p.get("steps", []):
            if st["call"] == "natural_join":
                m = go(st["b"])
                keyed = bool(st.get("on")) and str(st["jointype"]).lower() != "cross"
                n = max(n, m, (n * m) // (3 if keyed else 1))
            elif st["call"] == "concat_rows":
                n = n + go(st["b"])
            worst[0] = max(worst[0], n)
        if "def" in p:
            defs[p["def"]] = n
        worst[0] = max(worst[0], n)
        return n

    try:
        go(case["pipe"])
    except Exception:
        return 0
    return worst[0]
