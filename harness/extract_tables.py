"""
S0 translator: regenerates lean/DAVerif/Generated/Tables.lean from the data tables of /repo's working tree.

Run with PYTHONPATH=/repo (bin/check does).  Prints one JSON line {"digest": ..., "changed": bool, ...}.
The translator only transcribes Python data (sets, dicts, catalogue rows) to Lean literals; it is part of the
trusted base (DESIGN §2, §4.1).  Sets are written sorted, so the output is independent of PYTHONHASHSEED.
"""
import hashlib
import json
import os
import sys

VERIF = os.path.dirname(os.path.dirname(os.path.abspath(__file__)))
OUT = os.path.join(VERIF, "lean", "DAVerif", "Generated", "Tables.lean")


def lstr(s):
    return json.dumps(s, ensure_ascii=False)


def llist(xs):
    return "[" + ", ".join(lstr(x) for x in xs) + "]"


# ----------------------------------------------------------------------------------------------------------------------
# SQL formatter ASTs (C05, DESIGN §4.1): the text `db_model.expr_to_sql` returns for the null / logic / order operators,
# parsed into the fragment of lean/DAVerif/Sql/SqlExpr.lean.  Self-check: every AST is re-rendered and compared with the
# source text modulo white space; a text outside the fragment is reported (op left to correspondence), never guessed.
# ----------------------------------------------------------------------------------------------------------------------
OUT_FMT = os.path.join(VERIF, "lean", "DAVerif", "Generated", "SqlFormatters.lean")

# operator -> (Lean identifier part, DSL text over the symbolic columns, "extend" | "project")
FORMATTER_OPS = [
    ("if_else", "if_else", "a.if_else(x, y)", "extend"),
    ("where", "where", "a.where(x, y)", "extend"),
    ("maximum", "maximum", "x.maximum(y)", "extend"),
    ("minimum", "minimum", "x.minimum(y)", "extend"),
    ("fmax", "fmax", "x.fmax(y)", "extend"),
    ("fmin", "fmin", "x.fmin(y)", "extend"),
    ("coalesce", "coalesce", "x.coalesce(y)", "extend"),
    ("is_null", "is_null", "x.is_null()", "extend"),
    ("is_in", "is_in", "x.is_in({1, 3})", "extend"),
    ("mapv", "mapv", 's.mapv({"a": 1, "b": 2}, 0)', "extend"),
    ("==", "eq", "x == y", "extend"),
    ("!=", "ne", "x != y", "extend"),
    ("<", "lt", "x < y", "extend"),
    ("<=", "le", "x <= y", "extend"),
    (">", "gt", "x > y", "extend"),
    (">=", "ge", "x >= y", "extend"),
    ("and", "and", "a and b", "extend"),
    ("and3", "and3", "a and b and c", "extend"),
    ("or", "or", "a or b", "extend"),
    ("or3", "or3", "a or b or c", "extend"),
    ("not", "not", "not a", "extend"),
    ("count", "count", "x.count()", "project"),
    ("size", "size", "x.size()", "project"),
    ("mean", "mean", "x.mean()", "project"),
    ("any", "any", "a.any()", "project"),
    ("all", "all", "a.all()", "project"),
    ("any_value", "any_value", "x.any_value()", "project"),
]


class SqlParseError(Exception):
    pass


_TOKEN_RE = None


def sql_tokens(text):
    import re
    global _TOKEN_RE
    if _TOKEN_RE is None:
        _TOKEN_RE = re.compile(r"""\s*(?:(?P<id>"(?:[^"]|"")*")|(?P<str>'(?:[^']|'')*')|(?P<num>\d+(?:\.\d+)?)"""
                               r"""|(?P<op><=|>=|!=|<>|=|<|>|\(|\)|,)|(?P<word>[A-Za-z_][A-Za-z_0-9]*))""")
    pos, out = 0, []
    text = text.rstrip()
    while pos < len(text):
        m = _TOKEN_RE.match(text, pos)
        if not m or m.end() == pos:
            raise SqlParseError(f"cannot tokenize at {pos}: {text[pos:pos + 20]!r}")
        pos = m.end()
        for k in ("id", "str", "num", "op", "word"):
            if m.group(k) is not None:
                out.append((k, m.group(k)))
                break
    return out


class SqlParser:
    """precedence (low to high): OR, AND, NOT, comparison / IS [NOT] NULL / IN, primary"""
    KEYWORDS = {"CASE", "WHEN", "THEN", "ELSE", "END", "IS", "NOT", "NULL", "AND", "OR", "IN", "TRUE", "FALSE"}

    def __init__(self, text):
        self.toks = sql_tokens(text)
        self.i = 0

    def peek(self, k=0):
        return self.toks[self.i + k] if self.i + k < len(self.toks) else (None, None)

    def word(self, w, k=0):
        t = self.peek(k)
        return t[0] == "word" and t[1].upper() == w

    def take(self):
        t = self.peek()
        self.i += 1
        return t

    def expect_word(self, w):
        if not self.word(w):
            raise SqlParseError(f"expected {w} at token {self.i}: {self.peek()}")
        self.i += 1

    def expect_op(self, o):
        t = self.peek()
        if t != ("op", o):
            raise SqlParseError(f"expected {o!r} at token {self.i}: {t}")
        self.i += 1

    def parse(self):
        e = self.p_or()
        if self.i != len(self.toks):
            raise SqlParseError(f"trailing tokens from {self.i}: {self.toks[self.i:self.i + 4]}")
        return e

    def p_or(self):
        e = self.p_and()
        while self.word("OR"):
            self.i += 1
            e = ("or", e, self.p_and())
        return e

    def p_and(self):
        e = self.p_not()
        while self.word("AND"):
            self.i += 1
            e = ("and", e, self.p_not())
        return e

    def p_not(self):
        if self.word("NOT"):
            self.i += 1
            return ("not", self.p_not())
        return self.p_cmp()

    def p_cmp(self):
        e = self.p_primary()
        while True:
            t = self.peek()
            if t[0] == "op" and t[1] in ("=", "!=", "<>", "<", "<=", ">", ">="):
                self.i += 1
                e = ("cmp", t[1], e, self.p_primary())
            elif self.word("IS"):
                self.i += 1
                if self.word("NOT"):
                    self.i += 1
                    self.expect_word("NULL")
                    e = ("isnotnull", e)
                else:
                    self.expect_word("NULL")
                    e = ("isnull", e)
            elif self.word("IN"):
                self.i += 1
                self.expect_op("(")
                items = [self.p_or()]
                while self.peek() == ("op", ","):
                    self.i += 1
                    items.append(self.p_or())
                self.expect_op(")")
                e = ("in", e, items)
            else:
                return e

    def p_primary(self):
        k, v = self.peek()
        if k == "op" and v == "(":
            self.i += 1
            e = self.p_or()
            self.expect_op(")")
            return ("paren", e)
        if k == "id":
            self.i += 1
            return ("col", v[1:-1].replace('""', '"'))
        if k == "str":
            self.i += 1
            return ("str", v[1:-1].replace("''", "'"))
        if k == "num":
            self.i += 1
            return ("num", v)
        if k == "word":
            u = v.upper()
            if u == "NULL":
                self.i += 1
                return ("null",)
            if u == "TRUE":
                self.i += 1
                return ("true",)
            if u == "FALSE":
                self.i += 1
                return ("false",)
            if u == "CASE":
                self.i += 1
                scrut = None
                if not self.word("WHEN"):
                    scrut = self.p_or()
                branches = []
                while self.word("WHEN"):
                    self.i += 1
                    c = self.p_or()
                    self.expect_word("THEN")
                    branches.append((c, self.p_or()))
                if not branches:
                    raise SqlParseError("CASE without WHEN")
                els = None
                if self.word("ELSE"):
                    self.i += 1
                    els = self.p_or()
                self.expect_word("END")
                return ("case", scrut, branches, els)
            if u not in self.KEYWORDS and self.peek(1) == ("op", "("):
                self.i += 2
                args = []
                if self.peek() != ("op", ")"):
                    args.append(self.p_or())
                    while self.peek() == ("op", ","):
                        self.i += 1
                        args.append(self.p_or())
                self.expect_op(")")
                return ("call", v, args)
        raise SqlParseError(f"unexpected token {self.peek()} at {self.i}")


def sql_render(e):
    """AST -> text (the self-check compares it with the source modulo white space)"""
    k = e[0]
    if k == "col":
        return '"' + e[1].replace('"', '""') + '"'
    if k == "str":
        return "'" + e[1].replace("'", "''") + "'"
    if k == "num":
        return e[1]
    if k == "null":
        return "NULL"
    if k == "true":
        return "TRUE"
    if k == "false":
        return "FALSE"
    if k == "paren":
        return "(" + sql_render(e[1]) + ")"
    if k == "or":
        return sql_render(e[1]) + " OR " + sql_render(e[2])
    if k == "and":
        return sql_render(e[1]) + " AND " + sql_render(e[2])
    if k == "not":
        return "NOT " + sql_render(e[1])
    if k == "cmp":
        return sql_render(e[2]) + " " + e[1] + " " + sql_render(e[3])
    if k == "isnull":
        return sql_render(e[1]) + " IS NULL"
    if k == "isnotnull":
        return sql_render(e[1]) + " IS NOT NULL"
    if k == "in":
        return sql_render(e[1]) + " IN (" + ", ".join(sql_render(x) for x in e[2]) + ")"
    if k == "call":
        return e[1] + "(" + ", ".join(sql_render(x) for x in e[2]) + ")"
    if k == "case":
        s = "CASE"
        if e[1] is not None:
            s += " " + sql_render(e[1])
        for c, t in e[2]:
            s += " WHEN " + sql_render(c) + " THEN " + sql_render(t)
        if e[3] is not None:
            s += " ELSE " + sql_render(e[3])
        return s + " END"
    raise SqlParseError("render: " + repr(e))


def _ws(s):
    import re
    return re.sub(r"\s+", "", s)


_CMP = {"=": "eq", "!=": "ne", "<>": "ne", "<": "lt", "<=": "le", ">": "gt", ">=": "ge"}


def sql_to_lean(e):
    """AST -> term of DAVerif.Sql3.SqlExpr"""
    k = e[0]
    if k == "col":
        return f"(.col {lstr(e[1])})"
    if k == "str":
        return f"(.str {lstr(e[1])})"
    if k == "num":
        if "." in e[1]:
            whole, frac = e[1].split(".")
            return f"(.num {int(whole + frac)} {10 ** len(frac)})"
        return f"(.num {int(e[1])} 1)"
    if k == "null":
        return ".null"
    if k == "true":
        return ".tt"
    if k == "false":
        return ".ff"
    if k == "paren":
        return f"(.paren {sql_to_lean(e[1])})"
    if k in ("or", "and"):
        return f"(.{k} {sql_to_lean(e[1])} {sql_to_lean(e[2])})"
    if k == "not":
        return f"(.not {sql_to_lean(e[1])})"
    if k == "cmp":
        return f"(.cmp .{_CMP[e[1]]} {sql_to_lean(e[2])} {sql_to_lean(e[3])})"
    if k == "isnull":
        return f"(.isNull {sql_to_lean(e[1])})"
    if k == "isnotnull":
        return f"(.isNotNull {sql_to_lean(e[1])})"
    if k == "in":
        return f"(.inList {sql_to_lean(e[1])} {_lean_args(e[2])})"
    if k == "call":
        return f"(.call {lstr(e[1].upper())} {_lean_args(e[2])})"
    if k == "case":
        bs = ".nil"
        for c, t in reversed(e[2]):
            bs = f"(.cons {sql_to_lean(c)} {sql_to_lean(t)} {bs})"
        els = ".absent" if e[3] is None else sql_to_lean(e[3])
        if e[1] is None:
            return f"(.case {bs} {els})"
        return f"(.caseOf {sql_to_lean(e[1])} {bs} {els})"
    raise SqlParseError("to_lean: " + repr(e))


def _lean_args(xs):
    a = ".nil"
    for x in reversed(xs):
        a = f"(.cons {sql_to_lean(x)} {a})"
    return a


def extract_formatters():
    """-> (lean text, report)"""
    import warnings
    import data_algebra.SQLite
    import data_algebra.PostgreSQL
    from data_algebra.data_ops import TableDescription
    td = TableDescription(table_name="d", column_names=["x", "y", "z", "a", "b", "c", "s"])
    dialects = [("sqlite", data_algebra.SQLite.SQLiteModel()), ("postgres", data_algebra.PostgreSQL.PostgreSQLModel())]
    out = []
    w = out.append
    w("import DAVerif.Sql.SqlExpr")
    w("/- GENERATED by harness/extract_tables.py: `db_model.expr_to_sql` of the real SQLiteModel / PostgreSQLModel on an")
    w("   Expression over symbolic columns, parsed into `SqlExpr` (self-check: re-rendered text = source text).  Do not edit. -/")
    w("namespace DAVerif.Gen")
    w("open DAVerif.Sql3 DAVerif.Sql3.SqlExpr")
    w("")
    table, report = [], {"parsed": 0, "outside_fragment": []}
    for dname, model in dialects:
        for op, ident, text, where in FORMATTER_OPS:
            try:
                with warnings.catch_warnings():
                    warnings.simplefilter("ignore")
                    ops = td.extend({"r": text}) if where == "extend" else td.project({"r": text})
                    sql = model.expr_to_sql(ops.ops["r"], want_inline_parens=False)
                ast = SqlParser(sql).parse()
                if _ws(sql_render(ast)) != _ws(sql):
                    raise SqlParseError(f"round trip differs: {sql_render(ast)!r} vs {sql!r}")
                term = sql_to_lean(ast)
            except Exception as e:  # outside the fragment / the code raises: no term, the op is left to correspondence
                report["outside_fragment"].append(f"{dname}:{op}: {type(e).__name__}: {str(e)[:120]}")
                continue
            report["parsed"] += 1
            w(f"/-- {dname} `{text}`:  {sql} -/")
            w(f"def fmt_{dname}_{ident} : SqlExpr := {term}")
            table.append((dname, op, f"fmt_{dname}_{ident}"))
    w("")
    w("/-- (dialect, operator) ↦ the formatter's AST -/")
    w("def formatterTable : List ((String × String) × SqlExpr) := [")
    w(",\n".join(f"  (({lstr(d)}, {lstr(o)}), {n})" for d, o, n in table))
    w("]")
    w("")
    w("def formatter (dialect op : String) : SqlExpr := (formatterTable.lookup (dialect, op)).getD .null")
    w("")
    w("end DAVerif.Gen")
    return "\n".join(out) + "\n", report


def _write_if_changed(path, txt):
    old = open(path, encoding="utf-8").read() if os.path.exists(path) else None
    if old != txt:
        os.makedirs(os.path.dirname(path), exist_ok=True)
        tmp = path + f".tmp{os.getpid()}"
        with open(tmp, "w", encoding="utf-8") as f:
            f.write(txt)
        os.replace(tmp, path)
        return True
    return False


def main():
    import data_algebra.expr_rep as er
    import data_algebra.parse_by_lark as pl
    import data_algebra.op_catalog as oc
    import data_algebra.data_model

    out = []
    w = out.append
    w("/- GENERATED by harness/extract_tables.py from /repo's working tree on every run. Do not edit. -/")
    w("namespace DAVerif.Gen")
    w("")
    for name, val in [
        ("impliesWindowed", er.fn_names_that_imply_windowed_situation),
        ("impliesOrdered", er.fn_names_that_imply_ordered_windowed_situation),
        ("notAllowedInProject", er.fn_names_not_allowed_in_project),
        ("contradictWindowed", er.fn_names_that_contradict_windowed_situation),
        ("contradictOrdered", er.fn_names_that_contradict_ordered_windowed_situation),
    ]:
        w(f"def {name} : List String := {llist(sorted(val))}")
    w("")
    w("/-- parse_by_lark.op_remap / factor_remap (operator symbol ↦ Term builder method) -/")
    w("def opRemap : List (String × String) := ["
      + ", ".join(f"({lstr(k)}, {lstr(v)})" for k, v in sorted(pl.op_remap.items())) + "]")
    w("def factorRemap : List (String × String) := ["
      + ", ".join(f"({lstr(k)}, {lstr(v)})" for k, v in sorted(pl.factor_remap.items())) + "]")
    w("")
    # op names for which Expression.__init__ finds an implementation (default data model + specials + Value attrs)
    dm = data_algebra.data_model.default_data_model()
    known = set(dm.impl_map.keys()) | set(dm.user_fun_map.keys()) | {
        "_count", "_row_number", "_size", "_connected_components", "_ngroup", "_uniform"}
    v0 = er.Value(0)
    for a in dir(v0):
        try:
            if callable(getattr(v0, a)):
                known.add(a)
        except Exception:
            pass
    w("/-- op names accepted by `Expression.__init__` (`_can_find_method_by_name`) -/")
    w(f"def knownOps : List String := {llist(sorted(known))}")
    w("")
    # method catalogue: (op, class, pandas, polars?, sqlite, postgres ...) as text columns
    mt = oc.methods_table
    cols = [str(c) for c in mt.columns]
    w(f"/-- op_catalog.methods_table columns: {cols} -/")
    w("def catalogColumns : List String := " + llist(cols))
    rows = []
    for _, r in mt.iterrows():
        rows.append([("" if (v is None or v != v) else str(v)) for v in r.tolist()])
    w("def catalog : List (List String) := [")
    w(",\n".join("  " + llist(r) for r in rows))
    w("]")
    w("")
    w("end DAVerif.Gen")
    txt = "\n".join(out) + "\n"
    digest = hashlib.sha256(txt.encode("utf-8")).hexdigest()[:16]
    old = open(OUT, encoding="utf-8").read() if os.path.exists(OUT) else None
    changed = old != txt
    if changed:
        os.makedirs(os.path.dirname(OUT), exist_ok=True)
        tmp = OUT + f".tmp{os.getpid()}"
        with open(tmp, "w", encoding="utf-8") as f:
            f.write(txt)
        os.replace(tmp, OUT)
    ftxt, freport = extract_formatters()
    fchanged = _write_if_changed(OUT_FMT, ftxt)
    print(json.dumps({"digest": digest, "changed": changed, "catalog_rows": len(rows), "known_ops": len(known),
                      "formatters_digest": hashlib.sha256(ftxt.encode("utf-8")).hexdigest()[:16],
                      "formatters_changed": fchanged, "formatters_parsed": freport["parsed"],
                      "formatters_outside_fragment": freport["outside_fragment"]}))


if __name__ == "__main__":
    sys.exit(main())
