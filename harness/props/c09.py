"""C09 — Aggregation returns one row per group, and one row without grouping (executor-model part + oracle)."""
from ..suites_ops import K2Build
from .. import suites_sql
from .. import oracles, pipes
from .refsem import suite
from ..propkit import with_oracle

PROPERTY = "C09"
LEAN_MODULES = ["DAVerif.Props.C09", "DAVerif.Props.C01core", "DAVerif.Props.C04merge", "DAVerif.Props.C01all", "DAVerif.Props.C16nested"]
THEOREMS = ["DAVerif." + t for t in (
    "C09_distinctKeys_card", "C09_project_groups", "C09_project_ungrouped", "C09_project_keys", "C09_project_value",
    "C09_window_rows", "C09_window_value",
    # the generated SQL (modelled engine): same row count as the reference meaning; one row for an un-grouped project
    "C09_sql_row_count", "Sql.C09_sql_row_count_merges", "C09_sql_ungrouped_one_row",
    # every dialect configuration (merges on/off), and joins nested anywhere in the pipeline
    "C09_sql_row_count_all", "C09_sql_row_count_nested")]
ASSUMPTIONS = [
    "the relational model `sem` is the Pandas executor (after fixes D13/D13b: groupby(dropna=False)): tied by suite "
    "k4_sem on every run",
    "assignment targets of one step are pairwise different and differ from the group columns (the builder checks both)",
    "SQL backends incl. the pruning context (D14, fixed) and Polars: judged by the oracle here; SQL-layer theorems elsewhere",
]
NOT_PROVEN = ["SQLite / PostgreSQL-text / Polars row counts and group values of the REAL executions (oracle); the modelled SQL generator + engine is kernel-checked (C09_sql_row_count, _merges, _all, _nested)",
              "the values of the aggregate functions themselves (C05); Polars nunique counts null (known finding)"]
LEVEL_TEXT = ("Kernel-checked for every pipeline, interpretation, configuration and environment: a grouped project "
              "returns exactly one row per distinct key tuple of its input (null a key value like any other; "
              "distinctKeys is the size of any duplicate-free enumeration of the keys), the rows carry exactly the "
              "input's key tuples, pairwise different, each with the aggregates of exactly its group's rows; an "
              "ungrouped project returns exactly one row, also on empty input; a windowed extend keeps every row, "
              "in place, unchanged outside the assigned columns, each assigned cell being the window function over "
              "the row's partition (rows equal on every partition column, null = null). The model is tied to "
              "pandas_base.py by differential execution; every backend is judged by an independent distinct-key count.")
LEVEL_NOTE = ("Trusted: Lean kernel; axioms propext/Classical.choice/Quot.sound; the hand-written executor model `sem` "
              "(validated by k4_sem on every run). SQL/Polars are outside these theorems (oracle).")
RULE = ("random type-directed pipelines biased to projects and windowed extends over key columns with nulls "
        "(null_keys 0.7), empty input tables (0.2) and dead projects (0.6: every aggregate overwritten or dropped "
        "later); executed on Pandas and on the model (k4_sem), judged by oracle_C09 on all four backends (row counts "
        "vs an independent distinct-key count, group values, project-in-context) and by oracle_C27's per-row window "
        "values; non-trivial = at least one result row; plus k5_twins_c09: project-heavy pipelines P(tables) concat "
        "P(twin tables) as PostgreSQL text under WITH + CTE elimination (the configuration in which a cached aggregation "
        "can be reused), corresponded with the model's semToSql and judged on the whole result's row count vs Pandas")

CANDS = {"N6-polars-nunique-counts-null": "C09-polars-nunique-counts-null"}


def oracle_C09_full(case, **opts):
    """oracle_C09 (row counts, group values, project in context) plus the per-row window values of oracle_C27: C09
    also claims that a windowed extend computes each row's value over that row's group, incl. the null-key group
    (the mutation 'window groupby drops null partitions' changes values, not row counts)."""
    ctx = opts.pop("ctx", None) or oracles.Ctx(case)
    fs = list(oracles.oracle_C09(case, ctx=ctx, **opts) or [])
    for f in oracles.oracle_C27(case, ctx=ctx, **opts) or []:
        fs.append(dict(f, kind=f["kind"].replace("C27:", "C09:window-")))
    # the Polars executor with its eager option (PolarsModel(use_lazy_eval=False), which the default registration never
    # uses): the row count must be the one the default (lazy) model returns
    try:
        if ctx.ops is not None:
            lazy = pipes.run_polars(ctx.ops, case["tables"])
            eager = pipes.run_polars(ctx.ops, case["tables"], eager_model=True)
            if "ok" in lazy and "ok" in eager and len(lazy["ok"]["rows"]) != len(eager["ok"]["rows"]):
                fs.append({"kind": "C09:polars-eager-row-count", "finding": None, "candidate": None,
                           "detail": f"Polars with use_lazy_eval=False returns {len(eager['ok']['rows'])} rows, the default "
                                     f"lazy model {len(lazy['ok']['rows'])}"})
    except Exception:
        pass
    return fs

class _K2(K2Build):
    """the builder calls themselves: a keyed window is never merged into a window over the whole table (or into one with
    another key list) - the merge of consecutive windowed extends is part of what decides which group a row's value is computed over"""
    gen_opts = dict(K2Build.gen_opts, fault_rate=0.0, window=4.0)
    n_quick, n_thorough = 120, 1200

    def corpus(self):
        t = {"d": {"cols": ["g", "x", "y", "i"], "kinds": ["str", "int", "int", "int"], "rows": []}}

        def ext(ops, pb=None, ob=None):
            return {"call": "extend", "ops": ops, "partition_by": pb, "order_by": ob, "reverse": None}
        chains = [[ext([["sx", "x.sum()"]], ["g"]), ext([["ty", "y.sum()"]], 1)],
                  [ext([["sx", "x.sum()"]], 1), ext([["ty", "y.sum()"]], ["g"])],
                  [ext([["sx", "x.sum()"]], ["g"]), ext([["ty", "y.sum()"]], ["g", "i"])],
                  [ext([["sx", "x.sum()"]], ["g"]), ext([["ty", "y.sum()"]], ["g"])],
                  [ext([["sx", "x.cumsum()"]], ["g"], ["i"]), ext([["ty", "y.cumsum()"]], 1, ["i"])]]
        return [{"tables": t, "pipe": {"table": "d", "steps": st}, "meta": {"fault": None}} for st in chains]


class K5TwinsC09(suites_sql.K5Twins):
    """project-heavy pipelines P(tables) concat P(twin tables) on the PostgreSQL dialect under WITH + CTE elimination: the two
    branches are step for step the same calls on different inputs, so a CTE-elimination key that cannot tell two project
    steps apart returns one branch's groups twice (seed C09-m4).  Correspondence of the real result with the model's
    `semToSql`, whose row counts are the subject of C09_sql_row_count."""
    n_quick, n_thorough = 40, 300
    gen_opts = dict(suites_sql.K5Twins.gen_opts, null_keys=0.5, step_weights={"project": 3.0})


def oracle_c09_twins(case, **opts):
    """the whole pipeline's row count as PostgreSQL-dialect text under WITH + CTE elimination (stand-in engine) vs the count
    on which the Pandas executor and the same dialect's text WITHOUT CTE elimination agree (the per-group count of
    C09_project_groups): a concrete failing input for a CTE-elimination key that merges two aggregations over different
    inputs.  Where Pandas and the plain SQL text already differ (null join keys etc.: findings of C01/C16) nothing is
    judged here - the reference count is not established."""
    ops, err = pipes.build_or_error(case)
    if ops is None:
        return []
    ref = pipes.run_pandas(ops, case["tables"])
    plain = pipes.run_pg_on_sqlite(ops, case["tables"], options={"use_with": False, "use_cte_elim": False, "annotate": False})
    got = pipes.run_pg_on_sqlite(ops, case["tables"], options={"use_with": True, "use_cte_elim": True, "annotate": False})
    if "ok" not in ref or "ok" not in got or "ok" not in plain:
        return []
    if len(ref["ok"]["rows"]) != len(plain["ok"]["rows"]):
        return []
    if len(ref["ok"]["rows"]) != len(got["ok"]["rows"]):
        return [oracles.fail("C09:pg-cte-elim-row-count",
                             f"PostgreSQL text (use_with, use_cte_elim) returns {len(got['ok']['rows'])} rows; Pandas and the "
                             f"same text without CTE elimination return {len(ref['ok']['rows'])} (one per group of each "
                             f"aggregation's own input)")]
    return []


SUITES = [_K2(), with_oracle(K5TwinsC09, oracle_c09_twins, name="k5_twins_c09"), suite(PROPERTY, oracle_C09_full, CANDS, n_quick=120, n_thorough=500,
                max_rows=10, null_keys=0.7, empty_tables=0.2, dead_project=0.6, window=2.0,
                step_weights={"project": 3.0})]
