"""
Independent per-dialect SQL tokenizers for the C14 oracle.

Written from the dialect manuals, regex driven, and NOT derived from the Lean lexer model (Text/Lex.lean) or from
data_algebra:

  sqlite     SQL As Understood By SQLite: '...' with '' ; "..." `...` [...] identifiers ; -- to \\n ; /* */
  postgres   manual 4.1 (standard_conforming_strings=on): '...' with '' ; "..." with "" ; -- to \\n|\\r ; /* */ nested
  mysql      manual 11.1.1 / 11.2 / 11.7 (default sql_mode): '...' and "..." with backslash escapes and doubling ;
             `...` with `` ; "-- " (needs white space / control) to \\n ; # ; /* */
  spark      SqlBaseLexer.g4 / unescapeSQLString (4.x): '...' "..." with backslash escapes and doubling ;
             `...` with `` ; -- to \\r|\\n with backslash-newline continuation ; /* */
  bigquery   Lexical structure: '...' "..." backslash escapes, no doubling, no raw newline, triple quoted forms ;
             `...` with escapes, not empty ; -- and # to newline ; /* */

tokenize(dialect, sql) -> list of (kind, value), kind in {"str","ident","word","num","sym"}; raises LexError.
"""
import re


class LexError(Exception):
    pass


_SIMPLE_MY = {"0": "\0", "b": "\b", "n": "\n", "r": "\r", "t": "\t", "Z": "\x1a", "%": "\\%", "_": "\\_"}


def _unescape_mysql(body, q):
    out = []
    i = 0
    while i < len(body):
        c = body[i]
        if c == "\\":
            e = body[i + 1]
            out.append(_SIMPLE_MY.get(e, e))
            i += 2
        elif c == q:  # doubled quote (the regex only lets pairs through)
            out.append(q)
            i += 2
        else:
            out.append(c)
            i += 1
    return "".join(out)


_HEX = "0123456789abcdefABCDEF"


def _unescape_spark(body, q):
    out = []
    i = 0
    n = len(body)
    while i < n:
        c = body[i]
        if c == "\\":
            rest = body[i + 1:]
            m = re.match(r"u([0-9a-fA-F]{4})", rest)
            if m:
                out.append(chr(int(m.group(1), 16)))
                i += 6
                continue
            m = re.match(r"U([0-9a-fA-F]{8})", rest)
            if m:
                cp = int(m.group(1), 16)
                if cp > 0x10FFFF:
                    raise LexError("code point")
                out.append(chr(cp))
                i += 10
                continue
            m = re.match(r"([01][0-7]{2})", rest)
            if m:
                out.append(chr(int(m.group(1), 8)))
                i += 4
                continue
            e = rest[0]
            out.append(_SIMPLE_MY.get(e, e))
            i += 2
        elif c == q:
            out.append(q)
            i += 2
        else:
            out.append(c)
            i += 1
    return "".join(out)


_SIMPLE_BQ = {"a": "\a", "b": "\b", "f": "\f", "n": "\n", "r": "\r", "t": "\t", "v": "\v", "\\": "\\", "?": "?",
              '"': '"', "'": "'", "`": "`"}


def _unescape_bq(body):
    out = []
    i = 0
    n = len(body)
    while i < n:
        c = body[i]
        if c == "\\":
            rest = body[i + 1:]
            if not rest:
                raise LexError("dangling backslash")
            e = rest[0]
            if e in _SIMPLE_BQ:
                out.append(_SIMPLE_BQ[e])
                i += 2
                continue
            m = re.match(r"[xX]([0-9a-fA-F]{2})", rest)
            if m:
                out.append(chr(int(m.group(1), 16)))
                i += 4
                continue
            m = re.match(r"u([0-9a-fA-F]{4})", rest)
            if m:
                cp = int(m.group(1), 16)
                if 0xD800 <= cp <= 0xDFFF:
                    raise LexError("surrogate")
                out.append(chr(cp))
                i += 6
                continue
            m = re.match(r"U([0-9a-fA-F]{8})", rest)
            if m:
                cp = int(m.group(1), 16)
                if cp > 0x10FFFF or 0xD800 <= cp <= 0xDFFF:
                    raise LexError("code point")
                out.append(chr(cp))
                i += 10
                continue
            m = re.match(r"([0-3][0-7]{2})", rest)
            if m:
                out.append(chr(int(m.group(1), 8)))
                i += 4
                continue
            raise LexError("illegal escape \\" + e)
        else:
            out.append(c)
            i += 1
    return "".join(out)


def _rx(p):
    return re.compile(p, re.S)


_WORD = _rx(r"[A-Za-z0-9_\u0080-\U0010FFFF]+")

_RULES = {
    "sqlite": dict(
        ws=_rx(r"[ \t\n\f\r]+"),
        comment=[_rx(r"--[^\n]*"), _rx(r"/\*.*?(?:\*/|\Z)")],
        strings=[(_rx(r"'((?:[^']|'')*)'"), lambda b: b.replace("''", "'"))],
        idents=[(_rx(r'"((?:[^"]|"")*)"'), lambda b: b.replace('""', '"')),
                (_rx(r"`((?:[^`]|``)*)`"), lambda b: b.replace("``", "`")),
                (_rx(r"\[([^\]]*)\]"), lambda b: b)],
        openers="'\"`[", strq="'",
    ),
    "postgres": dict(
        ws=_rx(r"[ \t\n\r\f]+"),
        comment=[_rx(r"--[^\n\r]*")],
        strings=[(_rx(r"'((?:[^']|'')*)'"), lambda b: b.replace("''", "'"))],
        idents=[(_rx(r'"((?:[^"]|"")+)"'), lambda b: b.replace('""', '"'))],
        openers="'\"", strq="'",
        forbidden=_rx(r"/\*|\$"),
    ),
    "mysql": dict(
        ws=_rx(r"[ \t\n\v\f\r]+"),
        comment=[_rx(r"--(?=[\x00-\x20\x7f]|\Z)[^\n]*"), _rx(r"#[^\n]*"), _rx(r"/\*.*?\*/")],
        strings=[(_rx(r"'((?:[^'\\]|\\.|'')*)'"), lambda b: _unescape_mysql(b, "'")),
                 (_rx(r'"((?:[^"\\]|\\.|"")*)"'), lambda b: _unescape_mysql(b, '"'))],
        idents=[(_rx(r"`((?:[^`]|``)*)`"), lambda b: b.replace("``", "`"))],
        openers="'\"`", strq="'\"",
    ),
    "spark": dict(
        ws=_rx(r"[ \t\n\r\x0b\x0c\xa0]+"),
        comment=[_rx(r"--(?:\\\n|[^\r\n])*"), _rx(r"/\*.*?\*/")],
        strings=[(_rx(r"'((?:[^'\\]|\\.|'')*)'"), lambda b: _unescape_spark(b, "'")),
                 (_rx(r'"((?:[^"\\]|\\.|"")*)"'), lambda b: _unescape_spark(b, '"'))],
        idents=[(_rx(r"`((?:[^`]|``)*)`"), lambda b: b.replace("``", "`"))],
        openers="'\"`", strq="'\"",
    ),
    "bigquery": dict(
        ws=_rx(r"[ \t\n\r\x0b\x0c]+"),
        comment=[_rx(r"--[^\n\r]*"), _rx(r"#[^\n\r]*"), _rx(r"/\*.*?\*/")],
        strings=[(_rx(r'"""((?:[^\\]|\\.)*?)"""'), _unescape_bq),
                 (_rx(r"'''((?:[^\\]|\\.)*?)'''"), _unescape_bq),
                 (_rx(r'"((?:[^"\\\n\r]|\\[^\n\r])*)"'), _unescape_bq),
                 (_rx(r"'((?:[^'\\\n\r]|\\[^\n\r])*)'"), _unescape_bq)],
        idents=[(_rx(r"`((?:[^`\\\n\r]|\\[^\n\r])+)`"), _unescape_bq)],
        openers="'\"`", strq="'\"",
    ),
}


def tokenize(dialect, sql):
    R = _RULES[dialect]
    toks = []
    i = 0
    n = len(sql)
    while i < n:
        m = R["ws"].match(sql, i)
        if m:
            i = m.end()
            continue
        hit = False
        for rx in R["comment"]:
            m = rx.match(sql, i)
            if m:
                i = m.end()
                hit = True
                break
        if hit:
            continue
        if sql.startswith("/*", i):
            raise LexError("unterminated block comment")
        if "forbidden" in R and R["forbidden"].match(sql, i):
            raise LexError("construct outside the oracle's reach at %d" % i)
        c = sql[i]
        if c in R["openers"]:
            for rx, dec in R["strings"]:
                m = rx.match(sql, i)
                if m:
                    toks.append(("str", dec(m.group(1))))
                    i = m.end()
                    hit = True
                    break
            if not hit:
                for rx, dec in R["idents"]:
                    m = rx.match(sql, i)
                    if m:
                        toks.append(("ident", dec(m.group(1))))
                        i = m.end()
                        hit = True
                        break
            if not hit:
                raise LexError("unterminated or malformed quoted text at %d: %r" % (i, sql[i:i + 20]))
            continue
        m = _WORD.match(sql, i)
        if m:
            w = m.group(0)
            i = m.end()
            if i < n and sql[i] in R["strq"]:
                raise LexError("prefixed literal %r at %d" % (w, i))
            toks.append(("num", int(w)) if w.isascii() and w.isdigit() else ("word", w))
            continue
        toks.append(("sym", c))
        i += 1
    return toks
