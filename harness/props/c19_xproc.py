"""second process of the C19 repeatability oracle: started with another PYTHONHASHSEED; reads one JSON list of cases per
input line, evaluates each on pandas and answers with one line holding the JSON list of canonical results"""
import json
import sys


def main():
    from harness.props import c19
    for line in sys.stdin:
        line = line.strip()
        if not line:
            continue
        cases = json.loads(line)
        out = [c19.eval_table(c) for c in cases]
        sys.stdout.write(json.dumps(out) + "\n")
        sys.stdout.flush()


if __name__ == "__main__":
    main()
