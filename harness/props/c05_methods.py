"""
C05 support: the per-method table (one or more single-method pipeline *variants* per catalogue row), boundary
grids, the runner of the REAL code on every backend, and the independent plain-Python reference of the docstrings.

Nothing here imports the Lean side.  Numbers travel as pipes.py Vals ({"i": n} | {"f": [n, d]}), the reference computes
with `fractions.Fraction` (exact) for the null/logic/order and exact-arithmetic classes and with `math` / `datetime`
for the transcendental and date/time class.
"""
import datetime
import math
import warnings
from fractions import Fraction

from .. import pipes

UNDEF = "__undef__"          # outside the documented domain: the property claims nothing there

# ------------------------------------------------------------------------------------------------------------------
# values
# ------------------------------------------------------------------------------------------------------------------

TINY = Fraction(1, 2 ** 20)
HUGE = Fraction(2 ** 40)


def V(x, kind=None):
    """Python value -> pipes Val"""
    if x is None or isinstance(x, bool):
        return x
    if isinstance(x, str):
        return {"s": x}
    if isinstance(x, int):
        return {"f": [x, 1]} if kind == "float" else {"i": x}
    fr = Fraction(x)
    if kind == "int" and fr.denominator == 1:
        return {"i": fr.numerator}
    return {"f": [fr.numerator, fr.denominator]}


def num(j):
    """Val -> Fraction | None(null) | UNDEF (not a number);  bools are not numbers for the documentation"""
    if j is None:
        return None
    if isinstance(j, bool):
        return UNDEF
    if isinstance(j, dict):
        if "i" in j:
            return Fraction(int(j["i"]))
        if "f" in j:
            return Fraction(int(j["f"][0]), int(j["f"][1]))
        if "inf" in j:
            return math.inf if j["inf"] > 0 else -math.inf
    return UNDEF


def is_str(j):
    return isinstance(j, dict) and "s" in j


def outnum(q):
    if q is None or q is UNDEF:
        return q
    if isinstance(q, float):
        if math.isnan(q):
            return None
        if math.isinf(q):
            return {"inf": 1 if q > 0 else -1}
        q = Fraction(q)
    q = Fraction(q)
    return {"f": [q.numerator, q.denominator]}


FLOATS = [None, 0, 1, -1, Fraction(1, 2), Fraction(-1, 2), Fraction(5, 2), Fraction(-5, 2), Fraction(3, 2), Fraction(7, 2),
          TINY, HUGE, 2, -3]
FLOATS_SMALL = [None, 0, 1, -1, Fraction(1, 2), Fraction(5, 2), -2]
INTS = [0, 1, -1, 2, 3, -3, 7, 2 ** 20]
BOOLS = [None, True, False]
STRS = [None, "", "a", "b", "ab", "abc", "B", "a b", "é", "abcdef"]
# arguments of the transcendental class (floats, not exact): domain edges, tiny, huge
TRANS = [None, 0.0, 1.0, -1.0, 0.5, -0.5, 2.5, 1e-300, 1e300, -1e300, 1e-9, 709.0, 710.0, -745.0, 0.9999999999, 3.141592653589793,
         1.5707963267948966, 100.0, -0.9999999999, 1.0000000001]

# ------------------------------------------------------------------------------------------------------------------
# variants: how a catalogue row is exercised.  Every catalogue *expression* must have an entry (checked on every run)
# ------------------------------------------------------------------------------------------------------------------
#   expr      DSL text over the argument columns
#   cols      [(name, kind)] argument columns, kind in int float bool str
#   args      what the model's function symbol receives: ("c", i) i-th argument column, ("k", Val) constant,
#             ("l", [Val..]) list constant, ("d", [[Val, Val]..]) dict constant
#   klass     "1" null/logic/order (provable)  "2" exact arithmetic (provable)  "3" transcendental/date (sampled)
#   rkind     kind of the result column (bool | num | str)
#   grid      name of the grid builder
#   mop       the function symbol the model sees (default: the catalogue op; `not a` is `a == False`)

def _v(op, expr, cols, args, klass, rkind, grid, **kw):
    d = dict(op=op, expr=expr, cols=cols, args=args, klass=klass, rkind=rkind, grid=grid, mop=op)
    d.update(kw)
    return d


def _c(*idx):
    return [("c", i) for i in idx]


XY = [("x", "float"), ("y", "float")]
MN = [("m", "int"), ("n", "int")]
X = [("x", "float")]
AB = [("a", "bool"), ("b", "bool")]
ST = [("s", "str"), ("t", "str")]


def _bin(op, klass, rkind, grid="pairs", method=False):
    e = f"x.{op}(y)" if method else f"x {op} y"
    return [_v(op, e, XY, _c(0, 1), klass, rkind, grid)]


def _bin_int(op, klass, rkind, method=False, grid="pairs"):
    e = f"m.{op}(n)" if method else f"m {op} n"
    return [_v(op, e, MN, _c(0, 1), klass, rkind, grid, intargs=True)]


def _un(op, klass, rkind, grid="single", col="x", kind="float"):
    return [_v(op, f"{col}.{op}()", [(col, kind)], _c(0), klass, rkind, grid)]


def _agg(op, klass="1", rkind="num", col="x", kind="float", grid="groups"):
    return [_v(op, f"{col}.{op}()", [(col, kind)], _c(0), klass, rkind, grid)]


def _agg0(op, klass="1"):
    return [_v(op, f"{op}()", [], [], klass, "num", "groups")]


def _cmp(op):
    return (_bin(op, "1", "bool") + [_v(op, f"s {op} t", ST, _c(0, 1), "1", "bool", "pairs")]
            + [_v(op, f"x {op} 1.5", X, [("c", 0), ("k", V(Fraction(3, 2)))], "1", "bool", "single")])


def _eq(op):
    return _cmp(op) + [_v(op, f"a {op} b", AB, _c(0, 1), "1", "bool", "pairs")]


DATE0 = ["2000-01-02", "2035-04-05", "2024-02-29", "1999-12-31", "2023-01-01", "2021-12-26", "2020-03-01", None]
DT0 = ["2010-01-01 12:13:21", "2030-04-05 14:03:00", "2024-02-29 23:59:59", "1999-12-31 00:00:00", None]


def _date(op, rkind="num", col="date_col_0"):
    return [_v(op, f"{col}.{op}()", [(col, "date")], _c(0), "3", rkind, "dates")]


BY_EXPR = {
    "x != y": _eq("!="),
    "row_id % q": _bin_int("%", "2", "num") + _bin("%", "2", "num"),
    "x %/% y": _bin("%/%", "2", "num") + _bin_int("%/%", "2", "num"),
    "x * y": _bin("*", "2", "num") + _bin_int("*", "2", "num")
             + [_v("*", "x * y * z", XY + [("z", "float")], _c(0, 1, 2), "2", "num", "triples")],
    "x ** y": [_v("**", "x ** 2", X, [("c", 0), ("k", V(2))], "2", "num", "single"),
               _v("**", "x ** 3", X, [("c", 0), ("k", V(3))], "2", "num", "single"),
               _v("**", "x ** n", [("x", "float"), ("n", "int")], _c(0, 1), "2", "num", "powers"),
               _v("**", "x ** y", XY, _c(0, 1), "3", "num", "fpowers")],
    "x + y": _bin("+", "2", "num") + _bin_int("+", "2", "num")
             + [_v("+", "x + y + z", XY + [("z", "float")], _c(0, 1, 2), "2", "num", "triples")],
    "-x": [_v("-", "-x", X, _c(0), "2", "num", "single")],
    "x - y": _bin("-", "2", "num") + _bin_int("-", "2", "num"),
    "x / y": _bin("/", "2", "num") + _bin_int("/", "2", "num"),
    "row_id // q": _bin_int("//", "2", "num") + _bin("//", "2", "num"),
    "x < y": _cmp("<"),
    "x <= y": _cmp("<="),
    "not a": [_v("==", "not a", [("a", "bool")], [("c", 0), ("k", False)], "1", "bool", "single", label="not")],
    "x == y": _eq("=="),
    "x > y": _cmp(">"),
    "x >= y": _cmp(">="),
    "z.abs()": _un("abs", "2", "num"),
    "a and b": [_v("and", "a and b", AB, _c(0, 1), "1", "bool", "pairs"),
                _v("and", "a and b and c", AB + [("c", "bool")], _c(0, 1, 2), "1", "bool", "triples")],
    "a or b": [_v("or", "a or b", AB, _c(0, 1), "1", "bool", "pairs"),
               _v("or", "a or b or c", AB + [("c", "bool")], _c(0, 1, 2), "1", "bool", "triples")],
    "x.arctan2(y)": [_v("arctan2", "x.arctan2(y)", XY, _c(0, 1), "3", "num", "tpairs")],
    "y.around(2)": [_v("around", f"x.around({k})", X, [("c", 0), ("k", V(k))], "2", "num", "rounding") for k in (2, 0, 1, -1)],
    "y.as_int64()": [_v("as_int64", "x.as_int64()", X, _c(0), "2", "num", "single_nonnull"),
                     _v("as_int64", "m.as_int64()", [("m", "int")], _c(0), "2", "num", "single_nonnull", intargs=True)],
    "y.as_str()": [_v("as_str", "x.as_str()", X, _c(0), "3", "str", "single"),
                   _v("as_str", "s.as_str()", [("s", "str")], _c(0), "2", "str", "single")],
    "y.ceil()": _un("ceil", "2", "num"),
    "z.ceil()": _un("ceil", "2", "num"),
    "y.floor()": _un("floor", "2", "num"),
    "z.floor()": _un("floor", "2", "num"),
    "z %?% 2": [_v("coalesce", "x %?% 2", X, [("c", 0), ("k", V(2))], "1", "num", "single")],
    "z.coalesce(2)": [_v("coalesce", "x.coalesce(2)", X, [("c", 0), ("k", V(2))], "1", "num", "single"),
                      _v("coalesce", "x.coalesce(y)", XY, _c(0, 1), "1", "num", "pairs"),
                      _v("coalesce", "s.coalesce(t)", ST, _c(0, 1), "1", "str", "pairs")],
    "z.coalesce_0()": [_v("coalesce", "x.coalesce_0()", X, [("c", 0), ("k", V(0))], "1", "num", "single")],
    'g %+% "_" %+% s2': [_v("concat", 's %+% "_" %+% t', ST, None, "2", "str", "pairs", chain="_")],
    "g.concat(s2)": [_v("concat", "s.concat(t)", ST, _c(0, 1), "2", "str", "pairs"),
                     _v("concat", "s.concat('z')", [("s", "str")], [("c", 0), ("k", V("z"))], "2", "str", "single")],
    "a.if_else(x, y)": [_v("if_else", "a.if_else(x, y)", [("a", "bool")] + XY, _c(0, 1, 2), "1", "num", "cond"),
                        _v("if_else", "a.if_else(s, t)", [("a", "bool")] + ST, _c(0, 1, 2), "1", "str", "cond")],
    "a.where(x, y)": [_v("where", "a.where(x, y)", [("a", "bool")] + XY, _c(0, 1, 2), "1", "num", "cond"),
                      _v("where", "a.where(s, t)", [("a", "bool")] + ST, _c(0, 1, 2), "1", "str", "cond")],
    "z.is_bad()": _un("is_bad", "1", "bool", grid="single_inf"),
    "y.is_inf()": _un("is_inf", "1", "bool", grid="single_inf"),
    "y.is_nan()": _un("is_nan", "1", "bool", grid="single_inf"),
    "z.is_null()": _un("is_null", "1", "bool") + _un("is_null", "1", "bool", col="s", kind="str"),
    "row_id.is_in({1, 3})": [
        _v("is_in", "m.is_in({1, 3})", [("m", "int")], [("c", 0), ("l", [V(1), V(3)])], "1", "bool", "single", intargs=True),
        _v("is_in", "x.is_in({1.0, 2.5})", X, [("c", 0), ("l", [V(1, "float"), V(Fraction(5, 2))])], "1", "bool", "single"),
        _v("is_in", "s.is_in({'a', 'ab'})", [("s", "str")], [("c", 0), ("l", [V("a"), V("ab")])], "1", "bool", "single")],
    'g.mapv({"a": 1, "b": 2, "z": 26}, 0)': [
        _v("mapv", 's.mapv({"a": 1, "b": 2, "z": 26}, 0)', [("s", "str")],
           [("c", 0), ("d", [[V("a"), V(1)], [V("b"), V(2)], [V("z"), V(26)]]), ("k", V(0))], "1", "num", "single"),
        _v("mapv", 's.mapv({"a": "A", "ab": "B"}, "d")', [("s", "str")],
           [("c", 0), ("d", [[V("a"), V("A")], [V("ab"), V("B")]]), ("k", V("d"))], "1", "str", "single"),
        _v("mapv", 'm.mapv({1: 10, 3: 30}, -1)', [("m", "int")],
           [("c", 0), ("d", [[V(1), V(10)], [V(3), V(30)]]), ("k", V(-1))], "1", "num", "single", intargs=True)],
    "row_id.maximum(x)": _bin("maximum", "1", "num", method=True),
    "row_id.minimum(x)": _bin("minimum", "1", "num", method=True),
    "row_id.fmax(x)": _bin("fmax", "1", "num", method=True),
    "row_id.fmin(x)": _bin("fmin", "1", "num", method=True),
    "row_id.mod(2)": [_v("mod", "m.mod(2)", [("m", "int")], [("c", 0), ("k", V(2))], "2", "num", "single", intargs=True),
                      _v("mod", "x.mod(y)", XY, _c(0, 1), "2", "num", "pairs"),
                      _v("mod", "m.mod(n)", MN, _c(0, 1), "2", "num", "pairs", intargs=True)],
    "row_id.remainder(2)": [
        _v("remainder", "m.remainder(2)", [("m", "int")], [("c", 0), ("k", V(2))], "2", "num", "single", intargs=True),
        _v("remainder", "x.remainder(y)", XY, _c(0, 1), "2", "num", "pairs"),
        _v("remainder", "m.remainder(n)", MN, _c(0, 1), "2", "num", "pairs", intargs=True)],
    "y.round()": [_v("round", "x.round()", X, _c(0), "2", "num", "rounding")],
    "z.sign()": _un("sign", "2", "num"),
    "g.trimstr(0, 2)": [_v("trimstr", f"s.trimstr({i}, {j})", [("s", "str")], [("c", 0), ("k", V(i)), ("k", V(j))], "2", "str",
                           "single") for i, j in ((0, 2), (1, 3), (0, 0), (2, 2), (1, 10), (0, 1))],
    "x.sum()": None,            # filled per class below (the expression occurs in classes e, g and p)
    "(1).sum()": None,
    # transcendental
    **{f"x.{f}()": _un(f, "3", "num", grid="trans") for f in
       ("arccos", "arccosh", "arcsin", "arcsinh", "arctan", "arctanh", "cos", "cosh", "exp", "log", "log10", "sin", "sinh",
        "sqrt", "tanh")},
    "y.expm1()": _un("expm1", "3", "num", grid="trans"),
    "x.log1p()": _un("log1p", "3", "num", grid="trans"),
    # date / time
    "date_col_1.base_Sunday()": _date("base_Sunday", "str"),
    "date_col_0.base_Sunday()": _date("base_Sunday", "str"),
    "date_col_0.date_diff(date_col_1)": [_v("date_diff", "date_col_0.date_diff(date_col_1)",
                                            [("date_col_0", "date"), ("date_col_1", "date")], _c(0, 1), "3", "num", "date_pairs")],
    "datetime_col_0.datetime_to_date()": [_v("datetime_to_date", "datetime_col_0.datetime_to_date()",
                                             [("datetime_col_0", "datetime")], _c(0), "3", "str", "datetimes")],
    "date_col_0.dayofmonth()": _date("dayofmonth"),
    "date_col_0.dayofweek()": _date("dayofweek"),
    "date_col_0.dayofyear()": _date("dayofyear"),
    "date_col_0.format_date()": _date("format_date", "str"),
    "datetime_col_0.format_datetime()": [_v("format_datetime", "datetime_col_0.format_datetime()",
                                            [("datetime_col_0", "datetime")], _c(0), "3", "str", "datetimes")],
    "date_col_0.month()": _date("month"),
    "str_date_col.parse_date()": [_v("parse_date", "str_date_col.parse_date()", [("str_date_col", "str")], _c(0), "3", "str",
                                     "date_strs")],
    "str_datetime_col.parse_datetime()": [_v("parse_datetime", "str_datetime_col.parse_datetime()",
                                             [("str_datetime_col", "str")], _c(0), "3", "str", "datetime_strs")],
    "date_col_0.quarter()": _date("quarter"),
    "datetime_col_0.timestamp_diff(datetime_col_1)": [
        _v("timestamp_diff", "datetime_col_0.timestamp_diff(datetime_col_1)",
           [("datetime_col_0", "datetime"), ("datetime_col_1", "datetime")], _c(0, 1), "3", "num", "datetime_pairs")],
    "date_col_0.weekofyear()": _date("weekofyear"),
    "date_col_0.year()": _date("year"),
    # zero-argument and aggregates / windows
    "_count()": _agg0("_count"),
    "_ngroup()": _agg0("_ngroup", klass="3"),
    "_size()": _agg0("_size"),
    "_row_number()": _agg0("_row_number"),
    "_uniform()": [_v("_uniform", "_uniform()", [], [], "3", "num", "groups")],
    "z.count()": _agg("count"),
    "x.max()": _agg("max") + _agg("max", col="s", kind="str", rkind="str"),
    "x.min()": _agg("min") + _agg("min", col="s", kind="str", rkind="str"),
    "x.mean()": _agg("mean", klass="2"),
    "x.median()": _agg("median", klass="2"),
    "x.nunique()": _agg("nunique") + _agg("nunique", col="s", kind="str"),
    "x.size()": _agg("size"),
    "x.std()": _agg("std", klass="3"),
    "x.var()": _agg("var", klass="2"),
    "a.all()": _agg("all", col="a", kind="bool", rkind="bool"),
    "a.any()": _agg("any", col="a", kind="bool", rkind="bool"),
    "x.any_value()": _agg("any_value", grid="const_groups") + _agg("any_value", col="s", kind="str", rkind="str", grid="const_groups"),
    "z.bfill()": _agg("bfill"),
    "z.ffill()": _agg("ffill"),
    "z.cumcount()": _agg("cumcount"),
    "x.cummax()": _agg("cummax"),
    "x.cummin()": _agg("cummin"),
    "x.cumprod()": _agg("cumprod", klass="2", grid="small_groups"),
    "x.cumsum()": _agg("cumsum", klass="2"),
    "x.first()": _agg("first"),
    "x.last()": _agg("last"),
    "x.rank()": _agg("rank", klass="2"),
    "x.shift()": [_v("shift", "x.shift()", X, _c(0), "1", "num", "groups", cargs=[]),
                  _v("shift", "x.shift(2)", X, [("c", 0), ("k", V(2))], "1", "num", "groups", cargs=[V(2)]),
                  _v("shift", "x.shift(-1)", X, [("c", 0), ("k", V(-1))], "1", "num", "groups", cargs=[V(-1)])],
}
SUM_VARIANTS = _agg("sum", klass="2")
ONE_SUM_VARIANTS = [_v("sum", "(1).sum()", [], [("k", V(1))], "2", "num", "groups")]


def variants_for(op, expr, cls):
    """variants exercising one catalogue row; None if the row is unknown to this check"""
    if expr == "x.sum()":
        vs = SUM_VARIANTS
    elif expr == "(1).sum()":
        vs = ONE_SUM_VARIANTS
    else:
        vs = BY_EXPR.get(expr)
    if vs is None:
        return None
    out = []
    for v in vs:
        if v["op"] != op and not (expr == "not a"):
            return None
        out.append(dict(v, cls=cls))
    return out


def catalogue():
    """rows of the REAL methods_table: [{op, expr, cls, Pandas, SQLiteModel, PostgreSQLModel, ...}]"""
    mt = pipes.L.catalog.methods_table
    rows = []
    for _, r in mt.iterrows():
        rows.append({"op": str(r["op"]), "expr": str(r["expression"]), "cls": str(r["op_class"]),
                     "pandas": str(r["Pandas"]), "sqlite": str(r["SQLiteModel"]), "pg": str(r["PostgreSQLModel"])})
    return rows


# ------------------------------------------------------------------------------------------------------------------
# grids
# ------------------------------------------------------------------------------------------------------------------

def _pool(kind, nullfree, intargs=False):
    if kind == "float":
        p = FLOATS
    elif kind == "int":
        p = ([None] if not nullfree else []) + INTS
    elif kind == "bool":
        p = BOOLS
    elif kind == "str":
        p = STRS
    else:
        raise ValueError(kind)
    return [x for x in p if not (nullfree and x is None)]


def grid_rows(v, rng, tier, nullfree):
    """argument tuples (Python values) of one case"""
    g = v["grid"]
    kinds = [k for _, k in v["cols"]]
    if g in ("single", "single_nonnull", "single_inf", "rounding", "trans"):
        k = kinds[0]
        if g == "trans":
            pool = [x for x in TRANS if not (nullfree and x is None)]
            pool = pool + [rng.uniform(-4, 4) for _ in range(8 if tier == "quick" else 60)]
        elif g == "rounding":
            pool = [None, 0, 1, -1, Fraction(1, 2), Fraction(-1, 2), Fraction(3, 2), Fraction(5, 2), Fraction(-5, 2), Fraction(7, 2),
                    Fraction(1, 4), Fraction(3, 4), Fraction(-3, 4), Fraction(9, 8), Fraction(5, 4), Fraction(-5, 4),
                    Fraction(1, 8), Fraction(3, 8), Fraction(21, 8), Fraction(10, 1), Fraction(123, 1), Fraction(1, 16),
                    Fraction(2 ** 30), Fraction(2 ** 30) + Fraction(1, 2), Fraction(-7, 2)]
            pool = [x for x in pool if not (nullfree and x is None)]
        else:
            pool = list(_pool(k, nullfree or g == "single_nonnull"))
            if g == "single_inf" and not v.get("noinf"):
                pool = pool + [math.inf, -math.inf]
            if k in ("float",) and tier == "thorough":
                pool = pool + [Fraction(rng.randint(-64, 64), 2 ** rng.randint(0, 4)) for _ in range(40)]
        return [(x,) for x in pool]
    if g in ("pairs", "tpairs", "powers", "fpowers"):
        if g == "tpairs":
            p0 = p1 = [x for x in [None, 0.0, 1.0, -1.0, 0.5, -2.5, 1e-300, 1e300] if not (nullfree and x is None)]
        elif g == "powers":
            p0 = _pool("float", nullfree)
            p1 = [x for x in [None, 0, 1, 2, 3, -1, -2, 5] if not (nullfree and x is None)]
        elif g == "fpowers":
            p0 = [x for x in [None, 0.0, 1.0, 0.5, 2.5, 4.0, 1e-3, 1e3] if not (nullfree and x is None)]
            p1 = [x for x in [None, 0.5, -0.5, 1.5, 2.0, 0.0, 1.0, 0.25] if not (nullfree and x is None)]
        else:
            p0, p1 = _pool(kinds[0], nullfree), _pool(kinds[1], nullfree)
        rows = [(x, y) for x in p0 for y in p1]
        if tier == "thorough" and g == "pairs" and kinds[0] in ("float", "int") and kinds[1] in ("float", "int"):
            for _ in range(120):
                if kinds[0] == "int":
                    rows.append((rng.randint(-40, 40), rng.randint(-40, 40)))
                else:
                    rows.append((Fraction(rng.randint(-256, 256), 2 ** rng.randint(0, 5)),
                                 Fraction(rng.randint(-256, 256), 2 ** rng.randint(0, 5))))
        if tier == "quick" and len(rows) > 150:
            keep = set(rng.sample(range(len(rows)), 90))
            rows = [r for i, r in enumerate(rows) if i in keep or r[0] is None or r[1] is None or r[0] == r[1]
                    or 0 in (r[0], r[1])]
        return rows
    if g == "triples":
        k = kinds[0]
        small = BOOLS if k == "bool" else FLOATS_SMALL
        small = [x for x in small if not (nullfree and x is None)]
        return [(x, y, z) for x in small for y in small for z in small]
    if g == "cond":
        c = [x for x in BOOLS if not (nullfree and x is None)]
        p = [x for x in (FLOATS_SMALL if kinds[1] == "float" else [None, "", "a", "b"]) if not (nullfree and x is None)]
        return [(a, x, y) for a in c for x in p for y in p]
    raise ValueError("no row grid " + g)


def group_layout(v, rng, tier, nullfree):
    """[(group key, [values...])] for aggregate / window variants: all-null groups, singletons, duplicates, ties"""
    kind = v["cols"][0][1] if v["cols"] else "float"
    g = v["grid"]
    if kind == "bool":
        groups = [[True], [False], [None], [True, True], [True, False], [False, None], [True, None], [None, None],
                  [False, False, True], [True, None, True]]
    elif kind == "str":
        groups = [["a"], [None], ["b", "a"], ["a", None, "b"], [None, None], ["a", "a"], ["", "a"], ["ab", "B", "a b"]]
    else:
        groups = [[1], [None], [Fraction(5, 2), 1], [1, None, 3], [None, None], [2, 2], [0, -1, Fraction(1, 2)],
                  [None, 4], [4, None], [3, 1, 2, 1], [Fraction(-5, 2), None, Fraction(-1, 2), None, 7], [0], [5, 4, 3, 2, 1]]
        if g == "small_groups":
            groups = [[1], [None], [Fraction(5, 2), 2], [1, None, 3], [2, 2, 2], [0, -1, Fraction(1, 2)], [-1, -1, -1, 3]]
    if g == "const_groups":
        if kind == "str":
            groups = [["a"], ["b", "b"], [None, None], ["", ""]]
        else:
            groups = [[1], [Fraction(5, 2)] * 3, [None, None], [0, 0]]
    if tier == "thorough":
        pool = {"bool": [True, False, None], "str": ["a", "b", None, ""]}.get(kind, [0, 1, 2, -1, Fraction(1, 2), None, 3])
        for _ in range(12):
            n = rng.randint(1, 6)
            if g == "const_groups":
                groups.append([rng.choice(pool)] * n)
            else:
                groups.append([rng.choice(pool) for _ in range(n)])
    if nullfree:
        groups = [[x for x in gr if x is not None] for gr in groups]
        groups = [gr for gr in groups if gr]
    return [(f"g{i:02d}", gr) for i, gr in enumerate(groups)]


DATES = ["2000-01-02", "2035-04-05", "2024-02-29", "1999-12-31", "2023-01-01", "2021-12-26", "2020-03-01", "2022-01-01",
         "2022-01-02", "2021-01-03", "2017-01-01", "2018-12-30", "2016-12-31", "2001-07-04"]
DATETIMES = ["2010-01-01 12:13:21", "2030-04-05 14:03:00", "2024-02-29 23:59:59", "1999-12-31 00:00:00", "2020-06-15 06:30:00"]


# ------------------------------------------------------------------------------------------------------------------
# the real code: one single-method pipeline per case
# ------------------------------------------------------------------------------------------------------------------

def make_case(v, backend, rows=None, groups=None):
    """JSON case.  rows: argument tuples (scalar variants); groups: [(key, [value..])] (aggregate / window variants)"""
    kinds = [k for _, k in v["cols"]]
    case = {"op": v["op"], "mop": v.get("mop", v["op"]), "cls": v["cls"], "expr": v["expr"], "backend": backend,
            "klass": v["klass"], "rkind": v["rkind"], "cols": [c for c, _ in v["cols"]], "kinds": kinds,
            "args": None if v["args"] is None else [list(a) for a in v["args"]]}
    if v.get("chain") is not None:
        case["chain"] = v["chain"]
    if v.get("cargs") is not None:
        case["cargs"] = v["cargs"]
    if v.get("label"):
        case["label"] = v["label"]
    if rows is not None:
        case["rows"] = [[_enc(x, k) for x, k in zip(r, kinds)] for r in rows]
    if groups is not None:
        k = kinds[0] if kinds else None
        gs = [[key, [(_enc(x, k) if k else None) for x in vals]] for key, vals in groups]
        if v["cls"] in ("e", "u"):
            # an aggregate in a plain extend is a window over the whole table: one group
            gs = [["g", [x for _, vals in gs[:4] for x in vals]]]
        case["groups"] = gs
    return case


def _enc(x, kind):
    if kind in ("date", "datetime"):
        return None if x is None else {"s": x}
    if isinstance(x, float) and not isinstance(x, bool):
        if math.isinf(x):
            return {"inf": 1 if x > 0 else -1}
        fr = Fraction(x)
        return {"f": [fr.numerator, fr.denominator]}
    return V(x, kind)


def _frame_kind(k):
    return {"date": "str", "datetime": "str"}.get(k, k)


def case_table(case):
    """the input table d(i, g, <argument columns>) of a case (pipes Table) and the per-row group keys"""
    cols = ["i", "g"] + list(case["cols"])
    kinds = ["int", "str"] + [_frame_kind(k) for k in case["kinds"]]
    rows = []
    if "rows" in case:
        for n, r in enumerate(case["rows"]):
            rows.append([{"i": n}, {"s": "g"}] + list(r))
    else:
        n = 0
        for key, vals in case["groups"]:
            for x in vals:
                rows.append([{"i": n}, {"s": key}] + ([x] if case["cols"] else []))
                n += 1
    return {"cols": cols, "kinds": kinds, "rows": rows}


def build_ops(case, ungrouped=False):
    L = pipes.L
    td = L.TableDescription(table_name="d", column_names=["i", "g"] + list(case["cols"]))
    cls, expr = case["cls"], case["expr"]
    with warnings.catch_warnings():
        warnings.simplefilter("ignore")
        if cls in ("e", "u"):
            return td.extend({"r": expr}).select_columns(["i", "r"])
        if cls == "g":
            return td.extend({"r": expr}, partition_by=["g"]).select_columns(["i", "r"])
        if cls == "w":
            return td.extend({"r": expr}, partition_by=["g"], order_by=["i"]).select_columns(["i", "r"])
        if cls in ("p", "up"):
            if case.get("ungrouped"):
                return td.project({"r": expr})
            return td.project({"r": expr}, group_by=["g"])
    raise ValueError("class " + cls)


def _date_frames(case, frames):
    """date / datetime argument columns are real datetime values in the Pandas frame (as in the catalogue's example)"""
    pd = pipes.L.pd
    d = frames["d"]
    for c, k in zip(case["cols"], case["kinds"]):
        if k == "date":
            d[c] = [None if pd.isnull(x) else datetime.date.fromisoformat(x) for x in d[c]]
        elif k == "datetime":
            d[c] = pd.to_datetime(d[c])
    return frames


def _canon_cell(x, rkind):
    """result cell -> Val comparable across backends: SQLite has no bool (0/1), dates come back as text"""
    if x is None:
        return None
    if rkind == "bool":
        if isinstance(x, bool):
            return x
        n = pipes.val_num(x)
        if n is not None and n in (0.0, 1.0):
            return bool(n)
        return x
    if rkind == "num" and isinstance(x, bool):
        return {"i": int(x)}
    return x


def run_real(case):
    """-> {"vals": [Val..]} (classes e g w u: one per row in row order; p up: one per group in key order) | {"err": cls}
    | {"skip": why}"""
    backend = case["backend"]
    tbl = case_table(case)
    try:
        ops = build_ops(case)
    except Exception as e:
        return {"err": type(e).__name__, "stage": "build"}
    tables = {"d": tbl}
    has_dates = any(k in ("date", "datetime") for k in case["kinds"])
    if backend == "pandas":
        if has_dates:
            try:
                with warnings.catch_warnings():
                    warnings.simplefilter("ignore")
                    frames = _date_frames(case, pipes.tables_to_pandas(tables))
                    out = {"ok": _date_result(ops.eval(frames))}
            except Exception as e:
                out = {"err": type(e).__name__}
        else:
            out = pipes.run_pandas(ops, tables)
    elif backend == "sqlite":
        out = pipes.run_sqlite(ops, tables)
    elif backend == "pg":
        out = pipes.run_pg_on_sqlite(ops, tables)
    elif backend == "polars":
        if has_dates:
            return {"skip": "date columns are not converted for Polars"}
        out = pipes.run_polars(ops, tables)
    else:
        raise ValueError(backend)
    if "skip" in out:
        return {"skip": out["skip"]}
    if "err" in out:
        return {"err": out["err"]}
    t = out["ok"]
    if "r" not in t["cols"]:
        return {"err": "NoResultColumn"}
    jr = t["cols"].index("r")
    key = "i" if "i" in t["cols"] else ("g" if "g" in t["cols"] else None)
    rows = t["rows"]
    if key is not None:
        jk = t["cols"].index(key)
        rows = sorted(rows, key=lambda r: pipes._cell_key(r[jk]))
        keys = [r[jk] for r in rows]
    else:
        keys = [None] * len(rows)
    return {"vals": [_canon_cell(r[jr], case["rkind"]) for r in rows], "n": len(rows),
            "keys": [k.get("s") if isinstance(k, dict) and "s" in k else (pipes.val_num(k) if k is not None else None)
                     for k in keys]}


def _date_result(df):
    """Pandas result with date objects -> Table with ISO text"""
    df = df.copy()
    for c in df.columns:
        if df[c].dtype == object or str(df[c].dtype).startswith("datetime"):
            df[c] = [None if pipes._is_null(x) else (x.isoformat(sep=" ") if isinstance(x, datetime.datetime)
                                                      else (x.isoformat() if isinstance(x, datetime.date) else x))
                     for x in df[c]]
    return pipes.frame_to_table(df)


# ------------------------------------------------------------------------------------------------------------------
# the independent plain-Python reference of the docstrings (the oracle's side; never looks at the Lean model)
# ------------------------------------------------------------------------------------------------------------------
#   UNDEF   outside the mathematical domain / ill-kinded: nothing is claimed
#   SILENT  inside the domain of quantification (a null argument, a tie of round …) but the docstring names no value:
#           the backends that claim the method must still agree with each other (a documented meaning is one value)

SILENT = "__silent__"


def _floor(q):
    return Fraction(math.floor(q))


def _pymod(x, y):
    return x - y * _floor(x / y)


def _nearest(y):
    f = _floor(y)
    d = y - f
    if d < Fraction(1, 2):
        return f
    if d > Fraction(1, 2):
        return f + 1
    return SILENT


def _kind(j):
    if j is None:
        return "null"
    if isinstance(j, bool):
        return "bool"
    if isinstance(j, dict):
        if "s" in j:
            return "str"
        if "i" in j or "f" in j or "inf" in j:
            return "num"
    return "?"


def _cmpkey(j):
    k = _kind(j)
    if k == "bool":
        return j
    if k == "num":
        return num(j)
    if k == "str":
        return j["s"]
    raise ValueError(k)


def _any_null(vs):
    return any(v is None for v in vs)


def _nums(vs):
    out = [num(v) for v in vs]
    return None if any(x is UNDEF for x in out) else out


def _lookup_eq(a, b):
    """equality of two cells as set / dict members: same kind and same value"""
    if _kind(a) != _kind(b):
        return False
    return _cmpkey(a) == _cmpkey(b)


def ref_scalar(op, args):
    """args: list of ("v", Val) | ("l", [Val]) | ("d", [[Val, Val]])  ->  Val | UNDEF | SILENT"""
    cells = [a[1] for a in args if a[0] == "v"]
    allcells = len(cells) == len(args)
    if op in ("+", "*"):
        if not allcells or len(cells) < 2:
            return UNDEF
        xs = _nums(cells)
        if xs is None:
            return UNDEF
        if _any_null(xs):
            return SILENT
        r = xs[0]
        for y in xs[1:]:
            r = r + y if op == "+" else r * y
        return outnum(r)
    if op == "-" and allcells and len(cells) == 1:
        x = num(cells[0])
        return UNDEF if x is UNDEF else SILENT if x is None else outnum(-x)
    if op in ("-", "/", "%/%", "//", "%", "mod", "remainder", "**", "around", "maximum", "minimum", "fmax", "fmin") \
            and allcells and len(cells) == 2:
        x, y = num(cells[0]), num(cells[1])
        if x is UNDEF or y is UNDEF or isinstance(x, float) or isinstance(y, float):
            return UNDEF
        if op in ("maximum", "minimum"):
            if x is None or y is None:
                return None                                   # "propogate missing"
            return outnum(max(x, y) if op == "maximum" else min(x, y))
        if op in ("fmax", "fmin"):
            if x is None:
                return outnum(y)                              # "ignore missing"
            if y is None:
                return outnum(x)
            return outnum(max(x, y) if op == "fmax" else min(x, y))
        if op == "around":
            # "given number of decimals": a negative whole number rounds to tens, hundreds, … (numpy.around, which the
            # docstrings name as the reference); the kernel-checked DocSem.around covers decimals >= 0 only
            if y is None or y.denominator != 1:
                return UNDEF
            if x is None:
                return SILENT
            p = Fraction(10) ** int(y)
            r = _nearest(x * p)
            return SILENT if r is SILENT else outnum(r / p)
        if op in ("/", "%/%", "//", "%", "mod", "remainder") and y is not None and y == 0:
            return UNDEF
        if op == "**":
            if x is not None and y is not None:
                if y.denominator != 1:
                    return UNDEF                              # class 3
                if y < 0 and x == 0:
                    return UNDEF
        if x is None or y is None:
            return SILENT
        if op == "-":
            return outnum(x - y)
        if op in ("/", "%/%"):
            return outnum(x / y)
        if op == "//":
            return outnum(_floor(x / y))
        if op in ("%", "mod", "remainder"):
            return outnum(_pymod(x, y))
        if op == "**":
            n = int(y)
            return outnum(x ** n)
    if op in ("==", "!=", "<", "<=", ">", ">=") and allcells and len(cells) == 2:
        a, b = cells
        ka, kb = _kind(a), _kind(b)
        if "?" in (ka, kb):
            return UNDEF
        if ka == "null" or kb == "null":
            return SILENT
        if ka != kb:
            return UNDEF
        x, y = _cmpkey(a), _cmpkey(b)
        return {"==": x == y, "!=": x != y, "<": x < y, "<=": x <= y, ">": x > y, ">=": x >= y}[op]
    if op in ("and", "or") and allcells and len(cells) >= 2:
        if any(_kind(c) not in ("bool", "null") for c in cells):
            return UNDEF
        if _any_null(cells):
            return SILENT
        return all(cells) if op == "and" else any(cells)
    if op == "not" and allcells and len(cells) == 1:
        c = cells[0]
        return SILENT if c is None else (not c) if isinstance(c, bool) else UNDEF
    if op in ("sign", "abs", "floor", "ceil", "round", "as_int64") and allcells and len(cells) == 1:
        x = num(cells[0])
        if x is UNDEF or isinstance(x, float):
            return UNDEF
        if x is None:
            return UNDEF if op == "as_int64" else SILENT
        if op == "sign":
            return outnum((x > 0) - (x < 0))
        if op == "abs":
            return outnum(abs(x))
        if op == "floor":
            return outnum(_floor(x))
        if op == "ceil":
            return outnum(-_floor(-x))
        if op == "round":
            r = _nearest(x)
            return r if r is SILENT else outnum(r)
        if op == "as_int64":
            return outnum(x) if x.denominator == 1 else SILENT     # which way a fraction is cut is not named
    if op in ("is_null",) and allcells and len(cells) == 1:
        return cells[0] is None
    if op in ("is_nan", "is_inf", "is_bad") and allcells and len(cells) == 1:
        x = num(cells[0])
        if x is UNDEF:
            return UNDEF
        if x is None:
            return op != "is_inf"
        if isinstance(x, float):                     # +-inf
            return op != "is_nan"
        return False
    if op in ("if_else", "where") and allcells and len(cells) == 3:
        c, a, b = cells
        if c is True:
            return a
        if c is False:
            return b
        if c is None:
            return None if op == "if_else" else b
        return UNDEF
    if op == "coalesce" and allcells and len(cells) == 2:
        return cells[1] if cells[0] is None else cells[0]
    if op == "is_in" and len(args) == 2 and args[0][0] == "v" and args[1][0] == "l":
        a = args[0][1]
        if a is None:
            return SILENT
        return any(_lookup_eq(a, x) for x in args[1][1])
    if op == "mapv" and len(args) in (2, 3) and args[0][0] == "v" and args[1][0] == "d":
        a = args[0][1]
        dflt = args[2][1] if len(args) == 3 else None
        for k, v in args[1][1]:
            if a is not None and _lookup_eq(a, k):
                return v
        return dflt
    if op == "concat" and allcells and len(cells) == 2:
        a, b = cells
        if _kind(a) not in ("str", "null") or _kind(b) not in ("str", "null"):
            return UNDEF
        if a is None or b is None:
            return SILENT
        return {"s": a["s"] + b["s"]}
    if op == "trimstr" and allcells and len(cells) == 3:
        s, i, j = cells[0], num(cells[1]), num(cells[2])
        if _kind(s) not in ("str", "null") or i in (None, UNDEF) or j in (None, UNDEF):
            return UNDEF
        if i.denominator != 1 or j.denominator != 1 or i < 0 or j < i:
            return UNDEF
        if s is None:
            return SILENT
        return {"s": s["s"][int(i):int(j)]}
    if op == "as_str" and allcells and len(cells) == 1:
        if _kind(cells[0]) == "str":
            return cells[0]
        return UNDEF
    return UNDEF


def _nn(vs):
    return [v for v in vs if v is not None]


def ref_agg(op, vs):
    nn = _nn(vs)
    if op in ("sum", "mean", "median", "var"):
        xs = _nums(nn)
        if xs is None:
            return UNDEF
        if op == "sum":
            return outnum(sum(xs, Fraction(0)))
        if op == "mean":
            return SILENT if not xs else outnum(sum(xs, Fraction(0)) / len(xs))
        if op == "median":
            if not xs:
                return SILENT
            s = sorted(xs)
            n = len(s)
            return outnum(s[n // 2] if n % 2 else (s[n // 2 - 1] + s[n // 2]) / 2)
        if op == "var":
            if len(xs) < 2:
                return SILENT
            m = sum(xs, Fraction(0)) / len(xs)
            return outnum(sum(((x - m) ** 2 for x in xs), Fraction(0)) / (len(xs) - 1))
    if op == "count":
        return {"f": [len(nn), 1]}
    if op in ("size", "_size"):
        return {"f": [len(vs), 1]}
    if op in ("max", "min"):
        if not nn:
            return SILENT
        ks = {_kind(v) for v in nn}
        if len(ks) != 1 or "?" in ks:
            return UNDEF
        best = nn[0]
        for v in nn[1:]:
            if (op == "max" and _cmpkey(v) > _cmpkey(best)) or (op == "min" and _cmpkey(v) < _cmpkey(best)):
                best = v
        return outnum(num(best)) if _kind(best) == "num" else best
    if op == "nunique":
        seen = []
        for v in nn:
            if not any(_lookup_eq(v, w) for w in seen):
                seen.append(v)
        return {"f": [len(seen), 1]}
    if op in ("all", "any"):
        if any(not isinstance(v, bool) for v in nn):
            return UNDEF
        return all(nn) if op == "all" else any(nn)
    if op == "any_value":
        if not vs:
            return UNDEF
        first = vs[0]
        if all((v is None and first is None) or (v is not None and first is not None and _lookup_eq(v, first)) for v in vs):
            return outnum(num(first)) if _kind(first) == "num" else first
        return UNDEF                                  # Appendix B: only constant columns are in scope
    return UNDEF


def ref_win(op, cargs, vs, pos):
    if pos >= len(vs):
        return UNDEF
    if op in ("cumsum", "cumprod", "cummax", "cummin"):
        pre = vs[:pos + 1]
        xs = _nums(pre)
        if xs is None:
            return UNDEF
        if _any_null(xs):
            return SILENT
        r = xs[0]
        for y in xs[1:]:
            r = {"cumsum": r + y, "cumprod": r * y, "cummax": max(r, y), "cummin": min(r, y)}[op]
        return outnum(r)
    if op == "cumcount":
        return {"f": [len(_nn(vs[:pos + 1])), 1]}
    if op == "_row_number":
        return {"f": [pos + 1, 1]}
    if op == "shift":
        k = 1
        if cargs:
            kk = num(cargs[0])
            if kk in (None, UNDEF) or kk.denominator != 1 or kk == 0:
                return UNDEF
            k = int(kk)
        i = pos - k
        return None if i < 0 or i >= len(vs) else _canon_num(vs[i])
    if op == "ffill":
        nn = _nn(vs[:pos + 1])
        return _canon_num(nn[-1]) if nn else None
    if op == "bfill":
        nn = _nn(vs[pos:])
        return _canon_num(nn[0]) if nn else None
    if op == "rank":
        xs = _nums(vs)
        if xs is None:
            return UNDEF
        if _any_null(xs) or len(set(xs)) != len(xs):
            return SILENT
        return outnum(Fraction(sum(1 for w in xs if w < xs[pos]) + 1))
    if op == "first":
        return SILENT if vs[0] is None else _canon_num(vs[0])
    if op == "last":
        return SILENT if vs[-1] is None else _canon_num(vs[-1])
    return ref_agg(op, vs)


def _canon_num(v):
    return outnum(num(v)) if _kind(v) == "num" else v


# class 3: math / datetime references ------------------------------------------------------------------------------

def _f(j):
    x = num(j)
    if x is None or x is UNDEF:
        return x
    return float(x)


_MATH1 = {
    "arccos": math.acos, "arccosh": math.acosh, "arcsin": math.asin, "arcsinh": math.asinh, "arctan": math.atan,
    "arctanh": math.atanh, "cos": math.cos, "cosh": math.cosh, "exp": math.exp, "expm1": math.expm1, "log": math.log,
    "log10": math.log10, "log1p": math.log1p, "sin": math.sin, "sinh": math.sinh, "sqrt": math.sqrt, "tanh": math.tanh,
}


def ref_float(op, args):
    """class 3 scalar methods: Python float | None | UNDEF | SILENT"""
    cells = [a[1] for a in args]
    if op in _MATH1 and len(cells) == 1:
        x = _f(cells[0])
        if x is UNDEF:
            return UNDEF
        if x is None:
            return SILENT
        try:
            r = _MATH1[op](x)
        except (ValueError, OverflowError):
            return UNDEF                   # outside the function's domain / not representable
        return UNDEF if (math.isinf(r) or math.isnan(r)) else r
    if op == "arctan2" and len(cells) == 2:
        x, y = _f(cells[0]), _f(cells[1])
        if UNDEF in (x, y):
            return UNDEF
        if x is None or y is None:
            return SILENT
        return math.atan2(x, y)
    if op == "**" and len(cells) == 2:
        x, y = _f(cells[0]), _f(cells[1])
        if UNDEF in (x, y):
            return UNDEF
        if x is None or y is None:
            return SILENT
        try:
            r = math.pow(x, y)
        except (ValueError, OverflowError, ZeroDivisionError):
            return UNDEF
        return UNDEF if (math.isinf(r) or math.isnan(r)) else r
    return UNDEF


def _d(j):
    return None if j is None else datetime.date.fromisoformat(j["s"][:10])


def _dt(j):
    return None if j is None else datetime.datetime.fromisoformat(j["s"])


def ref_date(op, args):
    """date / time methods with `datetime` as the reference: Val | UNDEF | SILENT"""
    cells = [a[1] for a in args]
    if any(c is None for c in cells):
        return UNDEF
    if op in ("dayofmonth", "dayofyear", "dayofweek", "month", "quarter", "year", "weekofyear", "base_Sunday", "format_date"):
        d = _d(cells[0])
        if op == "dayofmonth":
            return {"i": d.day}
        if op == "dayofyear":
            return {"i": d.timetuple().tm_yday}
        if op == "dayofweek":
            return {"i": (d.isoweekday() % 7) + 1}          # "Convert date to date of week": 1 = Sunday .. 7 = Saturday
        if op == "month":
            return {"i": d.month}
        if op == "quarter":
            return {"i": (d.month - 1) // 3 + 1}
        if op == "year":
            return {"i": d.year}
        if op == "weekofyear":
            return SILENT                                    # several week-numbering conventions; none is named
        if op == "base_Sunday":
            return {"s": (d - datetime.timedelta(days=d.isoweekday() % 7)).isoformat()}
        if op == "format_date":
            return {"s": d.isoformat()}
    if op == "date_diff":
        return {"i": (_d(cells[0]) - _d(cells[1])).days}
    if op == "timestamp_diff":
        return {"f": [int((_dt(cells[0]) - _dt(cells[1])).total_seconds()), 1]}
    if op == "datetime_to_date":
        return {"s": _dt(cells[0]).date().isoformat()}
    if op == "format_datetime":
        return {"s": _dt(cells[0]).isoformat(sep=" ")}
    if op == "parse_date":
        return {"s": _d(cells[0]).isoformat()}
    if op == "parse_datetime":
        return {"s": _dt(cells[0]).isoformat(sep=" ")}
    return UNDEF
