"""C20 — Data spaces behave like a keyed store of tables."""
import itertools
import json
import os
import re

from ..core import Suite, VERIF, canon_json

PROPERTY = "C20"
LEAN_MODULES = ["DAVerif.Props.C20"]
THEOREMS = [
    "DAVerif.Space.C20_mem_step_refines",
    "DAVerif.Space.C20_refines_mem",
    "DAVerif.Space.C20_db_inv_step",
    "DAVerif.Space.C20_db_inv",
    "DAVerif.Space.C20_db_step_refines_partial",
    "DAVerif.Space.C20_refines_db_partial",
    "DAVerif.Space.C20_G_dbexec_necessary",
    "DAVerif.Space.C20_no_overwrite_mem",
    "DAVerif.Space.C20_no_overwrite_db",
    "DAVerif.Space.C20_no_overwrite_preserves_mem",
    "DAVerif.Space.C20_no_overwrite_preserves_db",
    "DAVerif.Space.C20_auto_key_fresh_mem",
    "DAVerif.Space.C20_auto_key_fresh_db",
    "DAVerif.Space.C20_db_close",
    "DAVerif.Space.C20_tmpName_injective",
]
ASSUMPTIONS = [
    "the code under check carries fixes/dataspace-auto-key-skips-taken-names.diff (D11); the model is of the "
    "patched code",
    "the pipeline evaluator (ops.eval(data_map=...) / CREATE TABLE AS <ops.to_sql()>) is a parameter evalOps that "
    "sees the store only through look-up by table name; what it computes is the subject of C01/C06",
    "the database behind the DBHandle behaves as a name -> table store (insert_table/drop_table/read_table/"
    "CREATE TABLE AS on SQLite); table names are compared exactly (no case folding: SQLite folds case, keys that "
    "differ only in case are not generated)",
    "DBSpace refinement is stated for a space that owns its database (every table is a key of the space), which "
    "holds for a space created on an empty database; pre-existing tables are modelled and covered by the "
    "invariant theorems only",
    "operations after close() are not modelled",
]
NOT_PROVEN = [
    "error classes of failing operations are part of the model and compared by the correspondence suites; the "
    "specification only says that the operation raises",
]
LEVEL_TEXT = ("Kernel-checked for every key/table/pipeline type, every evaluator, every state and every history: "
              "DataModelSpace refines a partial map key -> table (outcomes and contents, failures leave the map "
              "unchanged, execute stores the pipeline value on the current contents); DBSpace preserves its "
              "invariant (described keys are database tables with that description, auto-drop keys are "
              "described) over every history and refines the same map on every step inside the finding guard "
              "(execute with allow_overwrite=True on an existing key whose query fails or reads that key drops "
              "the entry: known finding, guard proved necessary); a write with allow_overwrite=False on a bound "
              "key raises and changes nothing, and never changes an existing entry; an automatic key is never an "
              "existing key and leaves existing entries untouched (on the patched code); close() drops exactly "
              "the space's tables. Model tied to the code by step-by-step comparison (outcome, error class, "
              "counter, contents, database tables) on random and enumerated histories; an independent dict "
              "oracle searches for failing histories.")
LEVEL_NOTE = ("Trusted: Lean kernel; axioms propext/Classical.choice/Quot.sound; the hand-written model of "
              "data_model_space.py / db_space.py / DBHandle (validated by the correspondence suites on every run); "
              "pandas / SQLite as the evaluator parameter.")
RULE = ("random operation histories (length 0..40; thorough adds every history of length <= 3 over a 14..20 "
        "operation alphabet) on one data space, user keys from a pool that contains da_temp_0..da_temp_4, "
        "malformed arguments included; non-trivial = at least 3 operations and at least one change of contents")

FINDING_DB_EXEC = "C20-db-execute-overwrite-drops-first"

KEYS = ["a", "b", "t0", "da_temp_0", "da_temp_1", "da_temp_2", "da_temp_3", "da_temp_4"]
ERRS = ("KeyError", "ValueError", "AssertionError", "TypeError")
BAD_KEY = 5
BAD_OW = 1
BAD_VALUE = "notaframe"
BAD_OPS = "notapipeline"


def _mods():
    import sqlite3
    import pandas
    import data_algebra
    import data_algebra.SQLite
    import data_algebra.db_space
    import data_algebra.data_model_space
    from data_algebra.data_ops import describe_table
    return sqlite3, pandas, data_algebra, describe_table


def frame(pd, t):
    d = {}
    for c in t["cols"]:
        d[c] = pd.Series(list(t["x"]) if c == "x" else [0] * len(t["x"]), dtype="int64")
    return pd.DataFrame(d)


def canon_table(df):
    return {"cols": [str(c) for c in df.columns], "x": sorted(int(v) for v in df["x"])}


def err_class(e):
    n = type(e).__name__
    return n if n in ERRS else "Other"


def build_ops(pd, describe_table, o):
    if not isinstance(o, dict):
        return o
    proto = pd.DataFrame({"x": pd.Series([0], dtype="int64")})

    def T(name):
        return describe_table(proto, table_name=name)

    if o["k"] == "table":
        return T(o["src"])
    if o["k"] == "shift":
        d = int(o["d"])
        return T(o["src"]).extend({"x": f"x + {d}"})
    if o["k"] == "concat":
        return T(o["a"]).concat_rows(T(o["b"]), id_column=None)
    raise ValueError("ops kind")


def ops_sources(o):
    if not isinstance(o, dict):
        return None
    if o["k"] in ("table", "shift"):
        return [o["src"]]
    return [o["a"], o["b"]]


def ops_eval(o, D):
    """the oracle's own pipeline evaluation on a plain dict (None = fails)"""
    src = ops_sources(o)
    if src is None or any(s not in D for s in src):
        return None
    if o["k"] == "table":
        return {"cols": ["x"], "x": sorted(D[o["src"]]["x"])}
    if o["k"] == "shift":
        return {"cols": ["x"], "x": sorted(v + int(o["d"]) for v in D[o["src"]]["x"])}
    return {"cols": ["x"], "x": sorted(list(D[o["a"]]["x"]) + list(D[o["b"]]["x"]))}


# ------------------------------------------------------------------------------------------------
# generators
# ------------------------------------------------------------------------------------------------

class _Tok:
    def __init__(self):
        self.n = 0

    def table(self, rng):
        k = rng.choice([1, 1, 1, 2, 3, 0])
        xs = []
        for _ in range(k):
            self.n += 1
            xs.append(self.n * 10)
        cols = ["x"] if rng.random() < 0.7 else ["x", rng.choice(["c1", "c2"])]
        return {"cols": cols, "x": xs}


def rand_key(rng, p_none, known):
    r = rng.random()
    if r < p_none:
        return None
    if r < p_none + 0.04:
        return BAD_KEY
    if known and rng.random() < 0.45:
        return rng.choice(known)
    return rng.choice(KEYS)


def rand_ow(rng, p_true):
    r = rng.random()
    if r < 0.04:
        return BAD_OW
    return rng.random() < p_true


def rand_src(rng, known):
    if known and rng.random() < 0.8:
        return rng.choice(known)
    return rng.choice(KEYS)


def rand_pipeline(rng, known):
    r = rng.random()
    if r < 0.05:
        return BAD_OPS
    if r < 0.2:
        return {"k": "table", "src": rand_src(rng, known)}
    if r < 0.75:
        return {"k": "shift", "src": rand_src(rng, known), "d": rng.choice([1, 2, 3, 5, -1])}
    return {"k": "concat", "a": rand_src(rng, known), "b": rand_src(rng, known)}


def rand_history(rng, n, dist):
    tok = _Tok()
    ops = []
    known = []  # keys probably present (a guess: drives collisions, not correctness)
    nauto = 0
    for _ in range(n):
        r = rng.random()
        if r < 0.34:
            key = rand_key(rng, 0.35, known)
            val = tok.table(rng) if rng.random() < 0.94 else BAD_VALUE
            o = {"op": "insert", "key": key, "value": val, "ow": rand_ow(rng, 0.6)}
        elif r < 0.60:
            key = rand_key(rng, 0.4, known)
            o = {"op": "execute", "ops": rand_pipeline(rng, known), "key": key, "ow": rand_ow(rng, 0.5)}
        elif r < 0.72:
            o = {"op": "remove", "key": rand_key(rng, 0.0, known)}
        elif r < 0.82:
            o = {"op": "retrieve", "key": rand_key(rng, 0.0, known)}
        elif r < 0.90:
            o = {"op": "describe", "key": rand_key(rng, 0.0, known)}
        else:
            o = {"op": "keys"}
        if o["op"] in ("insert", "execute"):
            if o["key"] is None:
                nauto += 1
                known.append(f"da_temp_{nauto}")
            elif isinstance(o["key"], str):
                known.append(o["key"])
        tag = o["op"]
        if o["op"] in ("insert", "execute"):
            tag += ":auto" if o["key"] is None else (":user-da_temp" if isinstance(o["key"], str)
                                                     and o["key"].startswith("da_temp_") else ":user")
        dist[tag] = dist.get(tag, 0) + 1
        ops.append(o)
    return ops, tok


def enum_alphabet(db):
    T = {"cols": ["x"], "x": [10]}
    U = {"cols": ["x", "c1"], "x": [20, 30]}
    al = []
    for k in ("da_temp_1", "a"):
        for ow in (True, False):
            al.append({"op": "insert", "key": k, "value": T, "ow": ow})
        al.append({"op": "remove", "key": k})
    for ow in (True, False):
        al.append({"op": "insert", "key": None, "value": U, "ow": ow})
    srcs = ("a",) if db else ("a", "da_temp_1")
    for src in srcs:
        for k in ("da_temp_1", "a", None):
            for ow in (True, False):
                al.append({"op": "execute", "ops": {"k": "shift", "src": src, "d": 1}, "key": k, "ow": ow})
    return al


# ------------------------------------------------------------------------------------------------
# the suites
# ------------------------------------------------------------------------------------------------

class SpaceSuite(Suite):
    db = False

    def __init__(self):
        self.distribution = {}
        self._guards = {}

    # ---- generation --------------------------------------------------------------------------
    def gen(self, rng, tier):
        n = (500 if tier == "quick" else 4000) if not self.db else (300 if tier == "quick" else 2000)
        for _ in range(n):
            ln = rng.randint(0, 40) if rng.random() < 0.35 else rng.randint(0, 12)
            ops, tok = rand_history(rng, ln, self.distribution)
            yield self.mk_case(ops, rng, tok)
        if tier == "thorough":
            al = enum_alphabet(self.db)
            for ln in range(0, 4):
                for h in itertools.product(al, repeat=ln):
                    yield self.mk_case([dict(o) for o in h], None, None)

    def mk_case(self, ops, rng, tok):
        return {"ops": ops}

    def corpus(self):
        out = []
        d = os.path.join(VERIF, "corpus", "C20")
        if os.path.isdir(d):
            for f in sorted(os.listdir(d)):
                if f.endswith(".json"):
                    obj = json.load(open(os.path.join(d, f)))
                    if obj.get("suite") == self.name:
                        out.append(obj["case"])
        return out

    # ---- the implementation ------------------------------------------------------------------
    def make_space(self, case):
        sqlite3, pd, da, describe_table = _mods()
        return da.data_model_space.DataModelSpace(), None

    def real(self, case):
        sqlite3, pd, da, describe_table = _mods()
        ds, conn = self.make_space(case)
        steps = []
        try:
            for o in case["ops"]:
                op = o["op"]
                try:
                    if op == "insert":
                        v = frame(pd, o["value"]) if isinstance(o["value"], dict) else o["value"]
                        r = ds.insert(key=o["key"], value=v, allow_overwrite=o["ow"])
                        res = {"ok": {"key": r.table_name, "cols": [str(c) for c in r.column_names]}}
                    elif op == "execute":
                        r = ds.execute(build_ops(pd, describe_table, o["ops"]), key=o["key"], allow_overwrite=o["ow"])
                        res = {"ok": {"key": r.table_name, "cols": [str(c) for c in r.column_names]}}
                    elif op == "remove":
                        r = ds.remove(o["key"])
                        res = {"ok": None if r is None else "not-None"}
                    elif op == "retrieve":
                        res = {"ok": canon_table(ds.retrieve(o["key"]))}
                    elif op == "describe":
                        r = ds.describe(o["key"])
                        res = {"ok": {"key": r.table_name, "cols": [str(c) for c in r.column_names]}}
                    elif op == "keys":
                        r = ds.keys()
                        res = {"ok": sorted(r)} if isinstance(r, (set, frozenset)) else {"ok": "not-a-set"}
                    else:
                        raise ValueError("op")
                except Exception as e:  # noqa: the outcome of the operation
                    res = {"err": err_class(e)}
                st = {"r": res, "n": int(ds.n_tmp), "s": self.snapshot(ds)}
                if conn is not None:
                    st["t"] = self.tables(conn)
                steps.append(st)
            final = None
            if conn is not None:
                try:
                    ds.close()
                    cl = "ok"
                except Exception as e:  # noqa
                    cl = err_class(e)
                final = {"close": cl, "tables": [[n, self.read(pd, conn, n)] for n in self.tables(conn)]}
            return {"steps": steps, "final": final}
        finally:
            if conn is not None:
                conn.close()

    @staticmethod
    def snapshot(ds):
        out = []
        for k in sorted(ds.keys()):
            try:
                out.append([k, canon_table(ds.retrieve(k))])
            except Exception:  # noqa: a key without a table
                out.append([k, None])
        return out

    @staticmethod
    def tables(conn):
        return sorted(r[0] for r in conn.execute("SELECT name FROM sqlite_master WHERE type='table'").fetchall())

    @staticmethod
    def read(pd, conn, name):
        q = '"' + name.replace('"', '""') + '"'
        return canon_table(pd.read_sql_query(f"SELECT * FROM {q}", conn))

    # ---- model side: strip (and remember) the guard flags ---------------------------------------
    def model_canon(self, out, case=None):
        if isinstance(out, dict) and "guards" in out:
            out = dict(out)
            g = out.pop("guards")
            if case is not None:
                self._guards[canon_json(case)] = g
        return out

    # ---- independent oracle: a plain dict replayed alongside --------------------------------------
    def oracle(self, case, real_out):
        if not isinstance(real_out, dict) or "steps" not in real_out:
            return "harness: " + str(real_out)[:300]
        D = {}
        foreign = {k: t for k, t in case.get("foreign", [])}
        known_finding = None
        for i, (o, got) in enumerate(zip(case["ops"], real_out["steps"])):
            r = got["r"]
            is_err = "err" in r
            op = o["op"]
            before = dict(D)
            lenient = False
            must_err = None  # reason string when the store must refuse
            new = None  # (key or None for auto, table) when the store must accept a write
            exp_ok = "skip"
            if op in ("insert", "execute"):
                key, ow = o["key"], o["ow"]
                val = None
                if op == "insert":
                    if not isinstance(o["value"], dict):
                        must_err = "value is not a table"
                    else:
                        val = {"cols": list(o["value"]["cols"]), "x": sorted(o["value"]["x"])}
                else:
                    src = ops_sources(o["ops"])
                    if src is not None and any(s in foreign and s not in D for s in src):
                        lenient = True
                    val = ops_eval(o["ops"], D)
                    if val is None and not lenient:
                        must_err = "pipeline does not evaluate on the current contents"
                if not (key is None or isinstance(key, str)):
                    must_err = "key is not a str"
                if not isinstance(ow, bool):
                    must_err = "allow_overwrite is not a bool"
                if isinstance(key, str) and ow is False and key in D:
                    must_err = "allow_overwrite=False on an existing key"
                if isinstance(key, str) and key in foreign and key not in D:
                    lenient = True
                if key is None and any(re.fullmatch(r"da_temp_\d+", f) for f in foreign):
                    lenient = True
                if must_err is None and not lenient:
                    new = (key, val)
            elif op in ("remove", "retrieve", "describe"):
                key = o["key"]
                if not isinstance(key, str):
                    must_err = "key is not a str"
                elif key not in D:
                    must_err = "no such key"
                elif op == "remove":
                    exp_ok = None
                    del D[key]
                elif op == "retrieve":
                    exp_ok = before[key]
                else:
                    exp_ok = {"key": key, "cols": before[key]["cols"]}
            else:
                exp_ok = sorted(D)
            # ---- outcome
            snap = {k: t for k, t in got["s"]}
            if must_err is not None:
                if not is_err:
                    kind = "no-overwrite" if "allow_overwrite=False" in must_err else "outcome"
                    return f"{kind}: step {i} {op}: succeeded although {must_err}"
                D = before
                if snap != D:
                    if self.exec_dropped(o, D, snap):
                        # DBSpace.execute dropped the old table before running the query
                        known_finding = known_finding or (f"db-execute-overwrite: step {i} execute(key="
                                                          f"{o['key']!r}, allow_overwrite=True) failed and the "
                                                          f"existing entry is gone")
                        D = dict(snap)
                    else:
                        return (f"contents: step {i} {op} failed ({must_err}) but the contents changed: "
                                f"{self.diff(D, snap)}")
            elif new is not None:
                key, val = new
                if is_err:
                    if self.exec_dropped(o, before, snap) and key in (ops_sources(o["ops"]) or []):
                        known_finding = known_finding or (f"db-execute-overwrite: step {i} execute reading its own "
                                                          f"target {key!r} with allow_overwrite=True failed and the "
                                                          f"existing entry is gone")
                        D = dict(snap)
                        continue
                    return f"outcome: step {i} {op}: raised {r['err']} although the keyed store accepts it"
                rk = r["ok"].get("key") if isinstance(r["ok"], dict) else None
                if key is None:
                    if rk in before:
                        return (f"auto-key: step {i} {op}(key=None) took the existing key {rk!r} "
                                f"(was {before[rk]}, now {snap.get(rk)})")
                    if not isinstance(rk, str):
                        return f"outcome: step {i} {op}: returned no key"
                    key = rk
                elif rk != key:
                    return f"outcome: step {i} {op}: returned key {rk!r} for key {key!r}"
                if r["ok"].get("cols") != val["cols"]:
                    return f"outcome: step {i} {op}: described columns {r['ok'].get('cols')}, stored {val['cols']}"
                D[key] = val
                foreign.pop(key, None)
            elif lenient:
                # a name of a pre-existing database table is involved: the property does not say what happens;
                # a failure must still change nothing
                if is_err:
                    D = before
                    if self.exec_dropped(o, before, snap):
                        known_finding = known_finding or (f"db-execute-overwrite: step {i} execute(key="
                                                          f"{o['key']!r}, allow_overwrite=True) failed and the "
                                                          f"existing entry is gone")
                        D = dict(snap)
                else:
                    rk = r["ok"].get("key") if isinstance(r["ok"], dict) else None
                    if not isinstance(rk, str) or (o["key"] is None and rk in before):
                        return f"auto-key: step {i} {op}: returned key {rk!r}"
                    if rk not in snap:
                        return f"contents: step {i} {op} returned key {rk!r} which is not in the space"
                    D[rk] = snap[rk]
                    foreign.pop(rk, None)
            else:
                if is_err:
                    return f"outcome: step {i} {op}: raised {r['err']} although the keyed store accepts it"
                if exp_ok != "skip" and r["ok"] != exp_ok:
                    return f"outcome: step {i} {op}: returned {r['ok']}, the keyed store gives {exp_ok}"
            if snap != D:
                kind = "contents"
                if op in ("insert", "execute") and o["ow"] is False and any(
                        k in before and snap.get(k) != before[k] for k in before):
                    kind = "no-overwrite"
                return f"{kind}: step {i} {op}: keys()/retrieve() show {self.diff(D, snap)}"
        return known_finding

    def exec_dropped(self, o, before, snap):
        """the observable shape of the known finding: a failed DBSpace.execute(key=k, allow_overwrite=True) on an
        existing key k after which exactly k is gone"""
        return (self.db and o["op"] == "execute" and isinstance(o["key"], str) and o["ow"] is True
                and o["key"] in before and o["key"] not in snap
                and all(snap.get(k) == before[k] for k in before if k != o["key"])
                and all(k in before for k in snap))

    @staticmethod
    def diff(D, snap):
        out = []
        for k in sorted(set(D) | set(snap)):
            if D.get(k) != snap.get(k):
                out.append(f"{k}: expected {D.get(k)}, observed {snap.get(k)}")
        return "; ".join(out)[:400]

    def py_guard_violations(self, case, real_out):
        """steps outside the finding guard, decided on the contents observed before each step (independent of
        the driver): execute(key=k, allow_overwrite=True) on an existing k whose query fails or changes value
        once k's own table is gone"""
        out = []
        if not self.db:
            return out
        prev = {}
        for i, (o, got) in enumerate(zip(case["ops"], real_out["steps"])):
            if o["op"] == "execute" and isinstance(o["key"], str) and o["ow"] is True and o["key"] in prev:
                val = ops_eval(o["ops"], prev)
                if val is None or ops_eval(o["ops"], {k: v for k, v in prev.items() if k != o["key"]}) != val:
                    out.append(i)
            prev = {k: t for k, t in got["s"]}
        return out

    def finding(self, case, real_out, why):
        if not why.startswith("db-execute-overwrite"):
            return None
        m = re.search(r"step (\d+)", why)
        step = int(m.group(1)) if m else -1
        g = self._guards.get(canon_json(case))
        if g is not None and step not in g:
            return None  # the model's guard does not cover this step: not the recorded finding
        if step in self.py_guard_violations(case, real_out):
            return FINDING_DB_EXEC
        return None

    def nontrivial(self, case, real_out):
        if not isinstance(real_out, dict) or len(case["ops"]) < 3:
            return False
        prev, changed = [], 0
        for g in real_out.get("steps", []):
            if g["s"] != prev:
                changed += 1
            prev = g["s"]
        return changed >= 1

    def shrink(self, case):
        ops = case["ops"]
        for i in range(len(ops)):
            c = dict(case)
            c["ops"] = ops[:i] + ops[i + 1:]
            yield c
        if case.get("foreign"):
            for i in range(len(case["foreign"])):
                c = dict(case)
                c["foreign"] = case["foreign"][:i] + case["foreign"][i + 1:]
                yield c
        for i, o in enumerate(ops):
            if o["op"] == "insert" and isinstance(o["value"], dict) and len(o["value"]["x"]) > 1:
                o2 = dict(o)
                o2["value"] = {"cols": o["value"]["cols"], "x": o["value"]["x"][:1]}
                c = dict(case)
                c["ops"] = ops[:i] + [o2] + ops[i + 1:]
                yield c


class MemSpace(SpaceSuite):
    name = "dspace_mem"
    db = False


class DbSpace(SpaceSuite):
    name = "dspace_db"
    db = True

    def mk_case(self, ops, rng, tok):
        foreign = []
        if rng is not None and rng.random() < 0.25:
            for name in rng.sample(KEYS, rng.randint(1, 2)):
                foreign.append([name, tok.table(rng)])
            self.distribution["cases-with-pre-existing-tables"] = \
                self.distribution.get("cases-with-pre-existing-tables", 0) + 1
        return {"ops": ops, "foreign": foreign, "close_drop": True if rng is None else rng.random() < 0.7}

    def make_space(self, case):
        sqlite3, pd, da, describe_table = _mods()
        conn = sqlite3.connect(":memory:")
        h = da.SQLite.SQLiteModel().db_handle(conn)
        for name, t in case.get("foreign", []):
            h.insert_table(frame(pd, t), table_name=name, allow_overwrite=True)
        ds = da.db_space.DBSpace(h, drop_tables_on_close=bool(case.get("close_drop", True)))
        return ds, conn

    def oracle(self, case, real_out):
        why = super().oracle(case, real_out)
        if why and not why.startswith("db-execute-overwrite"):
            return why
        # close(): with drop_tables_on_close the space's tables are gone, every other table is untouched
        if isinstance(real_out, dict) and real_out.get("final") and real_out["steps"] is not None:
            fin = real_out["final"]
            if fin["close"] != "ok":
                return f"close: close() raised {fin['close']}"
            steps = real_out["steps"]
            space_keys = [k for k, _ in steps[-1]["s"]] if steps else []
            before = steps[-1]["t"] if steps else sorted(k for k, _ in case.get("foreign", []))
            after = [k for k, _ in fin["tables"]]
            exp = [k for k in before if k not in space_keys] if case.get("close_drop", True) else before
            if after != exp:
                return f"close: database tables after close() are {after}, expected {exp}"
        return why


SUITES = [MemSpace(), DbSpace()]
