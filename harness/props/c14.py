"""C14 — Generated SQL carries every literal and identifier verbatim."""
import itertools
import json
import math
import os
import re
import sqlite3

from ..core import Suite
from . import c14_sqltok as T

PROPERTY = "C14"
LEAN_MODULES = ["DAVerif.Props.C14"]
THEOREMS = [
    "DAVerif.Text.C14_string_roundtrip",
    "DAVerif.Text.C14_string_roundtrip_sqlite",
    "DAVerif.Text.C14_string_roundtrip_postgres",
    "DAVerif.Text.C14_string_roundtrip_mysql",
    "DAVerif.Text.C14_string_roundtrip_spark",
    "DAVerif.Text.C14_string_roundtrip_bigquery",
    "DAVerif.Text.C14_string_backslash_mysql_necessary",
    "DAVerif.Text.C14_string_backslash_spark_necessary",
    "DAVerif.Text.C14_string_backslash_bigquery_necessary",
    "DAVerif.Text.C14_string_backslash_mysql_changes_value",
    "DAVerif.Text.C14_string_quote_bigquery_necessary",
    "DAVerif.Text.C14_string_newline_bigquery_necessary",
    "DAVerif.Text.C14_string_base_partial",
    "DAVerif.Text.C14_ident_roundtrip",
    "DAVerif.Text.C14_ident_roundtrip_sqlite",
    "DAVerif.Text.C14_ident_roundtrip_postgres",
    "DAVerif.Text.C14_ident_roundtrip_mysql",
    "DAVerif.Text.C14_ident_roundtrip_spark",
    "DAVerif.Text.C14_ident_roundtrip_bigquery",
    "DAVerif.Text.C14_ident_rejects",
    "DAVerif.Text.C14_ident_backslash_bigquery_necessary",
    "DAVerif.Text.C14_value_to_sql",
    "DAVerif.Text.cleanAnnotation_no_line_break",
    "DAVerif.Text.commentEnd_isLineBreak",
    "DAVerif.Text.C14_comment_inert",
    "DAVerif.Text.C14_concat_label",
    "DAVerif.Text.C14_recordmap_rows_to_blocks",
    "DAVerif.Text.C14_recordmap_blocks_to_rows",
    "DAVerif.Text.C14_table_values",
]
ASSUMPTIONS = [
    "the model is of /repo WITH fixes/c14-quote-backslash.diff and fixes/c14-concat-label-value.diff applied "
    "(without them the check reports the D16/D17 violations)",
    "strings are sequences of Unicode scalar values without NUL (DESIGN Appendix B); names do not contain the "
    "dialect's identifier quote and are non-empty on PostgreSQL/BigQuery",
    "the PostgreSQL, MySQL and BigQuery lexer models (Text/Lex.lean) are transcriptions of the manuals: no such "
    "engine exists in the sandbox; the SQLite model is validated against sqlite3 on every run, the Spark model "
    "against a local pyspark 4.2 session in the thorough tier",
    "Spark's ${name} variable substitution (spark.sql.variable.substitute, on by default) rewrites the SQL text before "
    "the lexer and is not part of the Spark lexer model; strings/names containing ${name} are the known finding "
    "C14-spark-variable-substitution (seen on the real engine in the thorough tier)",
    "MySQL in its default sql_mode (no NO_BACKSLASH_ESCAPES, no ANSI_QUOTES); PostgreSQL with "
    "standard_conforming_strings = on; Spark with spark.sql.parser.escapedStringLiterals = false",
    "Python's re `\\s`, str.strip and str.replace behave as modelled (isPySpace = the 29 code points of "
    "Py_UNICODE_ISSPACE; checked exhaustively against CPython by the correspondence suite)",
    "control-table cells are strings (RecordSpecification rejects nulls and non-string value cells; key cells go "
    "through str())",
]
NOT_PROVEN = [
    "float literals: str(float) is CPython's formatting; the model carries the text, the theorem excludes floats, "
    "finite halves/quarters are sampled against SQLite",
    "how the quoted fragments are placed into the whole query (line assembly, rstrip per line, WITH form) is the "
    "business of the SQL rendering properties; here it is sampled end to end: whole pipelines with hostile strings "
    "in every position are executed on SQLite and compared with Pandas, and tokenised for the other four dialects",
    "Spark continues a `--` comment over backslash-newline: C14_comment_inert assumes (for Spark) that the cleaned "
    "annotation does not end with a backslash; every annotation the code produces ends with `)`",
    "semantic restrictions engines put on names after lexing (MySQL: no trailing space, BMP only; BigQuery column "
    "name rules) are not part of the lexical claim",
]
LEVEL_TEXT = ("Kernel-checked for all strings (induction on the character list, no bound) and all five dialects: "
              "quote_string and quote_identifier read back verbatim through the dialect's lexer; value_to_sql lexes to "
              "the tokens of the value; _clean_annotation leaves no line terminator and the annotated SELECT line is "
              "token-equivalent to the bare one; concat_rows labels and every name/key/entry of the record-map SQL "
              "and of table_values_to_sql_str_list occur only as one quoted token each, inside a fixed keyword "
              "skeleton. The unfixed base-class quoting is proved insufficient for MySQL/Spark/BigQuery by concrete "
              "counterexamples and sufficient under the guard 'no backslash (BigQuery: no quote, no line break)'.")
LEVEL_NOTE = ("Trusted: Lean kernel; axioms propext/Classical.choice/Quot.sound; the hand-written model of the quoting "
              "code (validated by the `quote` correspondence suite on every run); the dialect lexer models written "
              "from the manuals (SQLite validated against the engine on every run, Spark in the thorough tier, "
              "PostgreSQL/MySQL/BigQuery unvalidated).")
RULE = ("random strings over a small hostile alphabet (both quotes, backtick, backslash, newline kinds, --, %, /*, "
        "escape letters, non-ASCII, astral) plus every single BMP white-space/line-break code point; random literal "
        "values (nested lists); random valid record specifications with hostile names/keys/entries; random texts "
        "for the SQLite (Spark) lexer; whole pipelines with hostile strings in every position. non-trivial = the "
        "input contains at least one character that is special in some dialect")

CORPUS_DIR = os.path.join(os.path.dirname(os.path.dirname(os.path.dirname(os.path.abspath(__file__)))), "corpus", "C14")


def corpus_cases(suite_name):
    out = []
    if os.path.isdir(CORPUS_DIR):
        for f in sorted(os.listdir(CORPUS_DIR)):
            if f.endswith(".json"):
                o = json.load(open(os.path.join(CORPUS_DIR, f), encoding="utf-8"))
                if o.get("suite") == suite_name:
                    out.append(o["case"])
    return out


# Spark (default session: spark.sql.variable.substitute = true) replaces ${name} in the SQL *text* before parsing
SPARK_SUBST = re.compile(r"\$\{\S+?\}")
F_SPARK_SUBST = "C14-spark-variable-substitution"

DIALECTS = ["sqlite", "postgres", "mysql", "spark", "bigquery"]
IDQ = {"sqlite": '"', "postgres": '"', "mysql": "`", "spark": "`", "bigquery": "`"}
STQ = {"sqlite": "'", "postgres": "'", "mysql": "'", "spark": '"', "bigquery": '"'}
SPECIAL = set("'\"`\\\n\r-%/*")
LINEBREAKS = "\n\x0b\x0c\r\x1c\x1d\x1e\x85\u2028\u2029"

ALPHA = ["'", "'", '"', '"', "`", "\\", "\\", "\n", "\r", "a", "b", " ", " ", "-", "-", "%", "/", "*", "é", " ",
         "\x85", "\x0b", "\x0c", "\t", "\U0001F600", "n", "r", "u", "U", "0", "1", "x", "Z", "_", "\xa0", "?", "(",
         ")", ",", ";", "#", "$", "[", "]", "{", "}", "=", "E", "\x1f", "\x7f"]
WORDS = ["", "a", "it's", 'say "hi"', "a\\", "\\", "\\\\", "a\\nb", "a\nb", "a\r\nb", "--", "-- x", "/* x */", "%",
         "%s", "100%", "''", '""', "'", '"', "`", "x' OR '1'='1", 'x" + "y', "\\'", '\\"', "a\\'b", "\\u0041",
         "\\101", "\\x41", "é", "日本", "\U0001F600", " ", " a ", "a;b", "NULL", "select", "a\tb", "\x85", " "]


def rstr(rng, maxlen=8):
    if rng.random() < 0.25:
        return rng.choice(WORDS)
    return "".join(rng.choice(ALPHA) for _ in range(rng.randint(0, maxlen)))


_MODELS = {}


def model(d):
    if d not in _MODELS:
        import data_algebra.SQLite
        import data_algebra.PostgreSQL
        import data_algebra.MySQL
        import data_algebra.SparkSQL
        import data_algebra.BigQuery
        _MODELS.update(sqlite=data_algebra.SQLite.SQLiteModel(), postgres=data_algebra.PostgreSQL.PostgreSQLModel(),
                       mysql=data_algebra.MySQL.MySQLModel(), spark=data_algebra.SparkSQL.SparkSQLModel(),
                       bigquery=data_algebra.BigQuery.BigQueryModel())
    return _MODELS[d]


_CONN = []


def sqlite_conn():
    if not _CONN:
        _CONN.append(sqlite3.connect(":memory:"))
    return _CONN[0]


def err(e):
    return {"err": type(e).__name__}


# ------------------------------------------------------------------------------------------------
# values
# ------------------------------------------------------------------------------------------------

def rval(rng, depth=0):
    k = rng.random()
    if k < 0.12:
        return None
    if k < 0.22:
        return rng.random() < 0.5
    if k < 0.42:
        return {"i": rng.choice([0, 1, -1, 7, -42, 10, 100, 2 ** 31, -2 ** 63, 2 ** 63 - 1, 10 ** 20, -10 ** 25,
                                 rng.randint(-1000, 1000)])}
    if k < 0.72:
        return {"s": rstr(rng)}
    if k < 0.80:
        return {"f": repr(rng.choice([0.0, 0.5, -1.5, 2.25, 1e3, -0.125, float("nan"), 12.0, 1234.75]))}
    if depth >= 2:
        return {"s": rstr(rng)}
    return {"l": [rval(rng, depth + 1) for _ in range(rng.randint(0, 4))]}


def to_py(v):
    if v is None or isinstance(v, bool):
        return v
    if "i" in v:
        return v["i"]
    if "s" in v:
        return v["s"]
    if "f" in v:
        return float(v["f"])
    return [to_py(x) for x in v["l"]]


def has_float(v):
    if isinstance(v, dict):
        if "f" in v:
            return True
        if "l" in v:
            return any(has_float(x) for x in v["l"])
    return False


def parse_literal(toks, i):
    """tokens -> (python value, next index); floats come back as ('float', text)"""
    k, x = toks[i]
    if k == "word" and x in ("NULL", "TRUE", "FALSE"):
        return {"NULL": None, "TRUE": True, "FALSE": False}[x], i + 1
    if k == "str":
        return x, i + 1
    neg = False
    if k == "sym" and x == "-":
        neg = True
        i += 1
        k, x = toks[i]
    if k == "num":
        # d.ddd / d.ddde+xx are read as number tokens joined by '.', see float handling in the oracle
        if i + 2 < len(toks) and toks[i + 1] == ("sym", ".") and toks[i + 2][0] == "num":
            return ("float", ("-" if neg else "") + str(x) + "." + str(toks[i + 2][1])), i + 3
        return (-x if neg else x), i + 1
    if k == "sym" and x == "(":
        i += 1
        out = []
        if toks[i] == ("sym", ")"):
            return out, i + 1
        while True:
            v, i = parse_literal(toks, i)
            out.append(v)
            if toks[i] == ("sym", ")"):
                return out, i + 1
            if toks[i] != ("sym", ","):
                raise T.LexError("list syntax")
            i += 1
    raise T.LexError("not a literal: %r" % (toks[i],))


def same_value(a, b):
    """b is the parsed-back literal"""
    if isinstance(a, float):
        if math.isnan(a):
            return b is None
        return isinstance(b, tuple) and b[0] == "float" and float(b[1]) == a
    if isinstance(a, list):
        return isinstance(b, list) and len(a) == len(b) and all(same_value(x, y) for x, y in zip(a, b))
    return type(a) is type(b) and a == b


# ------------------------------------------------------------------------------------------------
# record specifications
# ------------------------------------------------------------------------------------------------

def rname(rng, used, d=None):
    """a fresh non-empty name without any identifier quote character"""
    for _ in range(100):
        s = rstr(rng, 6).replace('"', "q").replace("`", "b")
        if s and s not in used and "\0" not in s:
            used.add(s)
            return s
    s = "n%d" % len(used)
    used.add(s)
    return s


def rspec(rng):
    used = set()
    nrk = rng.randint(0, 2)
    nck = rng.randint(1, 2)
    nvc = rng.randint(1, 2)
    nrows = rng.randint(1, 3)
    rk = [rname(rng, used) for _ in range(nrk)]
    ck = [rname(rng, used) for _ in range(nck)]
    vc = [rname(rng, used) for _ in range(nvc)]
    strict = rng.random() < 0.7
    keys = set()
    rows = []
    ents = []
    for i in range(nrows):
        while True:
            kv = [rstr(rng, 5) for _ in ck]
            if tuple(kv) not in keys:
                keys.add(tuple(kv))
                break
        if strict or not ents or rng.random() < 0.6:
            ev = [rname(rng, used) for _ in vc]
        else:
            ev = [rng.choice(ents) for _ in vc]
        ents.extend(ev)
        rows.append(kv + ev)
    return {"record_keys": rk, "control_keys": ck, "cols": ck + vc, "rows": rows, "strict": strict}


def mk_recspec(spec):
    import pandas as pd
    import data_algebra.cdata as cdata
    ct = pd.DataFrame({c: [r[j] for r in spec["rows"]] for j, c in enumerate(spec["cols"])})
    return cdata.RecordSpecification(ct, record_keys=list(spec["record_keys"]),
                                     control_table_keys=list(spec["control_keys"]), strict=bool(spec.get("strict", True)))


def spec_strings(spec):
    out = set(spec["record_keys"]) | set(spec["cols"])
    for r in spec["rows"]:
        out |= set(r)
    return out


SQL_WORDS = {"SELECT", "FROM", "AS", "CASE", "WHEN", "CAST", "THEN", "ELSE", "NULL", "END", "MAX", "AND", "CROSS",
             "JOIN", "ORDER", "BY", "GROUP", "UNION", "ALL", "VARCHAR", "CHAR", "STRING", "a", "b"}


def rename_spec(spec):
    """the same specification with every user string replaced by a harmless placeholder (a bijection)"""
    m = {}

    def f(s):
        if s not in m:
            m[s] = "zq%d" % len(m)
        return m[s]
    out = {"record_keys": [f(s) for s in spec["record_keys"]], "control_keys": [f(s) for s in spec["control_keys"]],
           "cols": [f(s) for s in spec["cols"]], "rows": [[f(s) for s in r] for r in spec["rows"]],
           "strict": spec.get("strict", True)}
    return out, m


def tok_key(t):
    return (t[0], str(t[1]))


def call_builder(d, fn, spec):
    m = model(d)
    if fn == "table_values":
        import pandas as pd
        ct = pd.DataFrame({c: [r[j] for r in spec["rows"]] for j, c in enumerate(spec["cols"])})
        return {"ok": m.table_values_to_sql_str_list(ct)}
    rs = mk_recspec(spec)
    if fn == "row_recs_to_blocks":
        p, s = m.row_recs_to_blocks_query_str_list_pair(rs)
    else:
        p, s = m.blocks_to_row_recs_query_str_list_pair(rs)
    return {"ok": {"pre": p, "suf": s}}


def lines_of(out):
    o = out["ok"]
    if isinstance(o, dict):
        return o["pre"] + ["zqsub"] + o["suf"]
    return o


def select_line(d, a):
    """first line of an annotated unary step, rendered by the real code, then `rstrip()` as `to_sql` does"""
    import data_algebra.near_sql as ns
    from data_algebra.sql_format_options import SQLFormatOptions
    m = model(d)
    t = ns.NearSQLTable(terms={"x": None}, table_name="t", quoted_table_name=m.quote_identifier("t"))
    u = ns.NearSQLUnaryStep(terms={"x": None}, query_name="q", quoted_query_name=m.quote_identifier("q"),
                            sub_sql=ns.NearSQLContainer(near_sql=t), annotation=a, ops_key=None)
    lines = m.nearsqlunary_to_sql_str_list_(u, sql_format_options=SQLFormatOptions(annotate=True))
    return lines[0].rstrip()


# ------------------------------------------------------------------------------------------------
# suite 1: the quoting functions
# ------------------------------------------------------------------------------------------------

class Quote(Suite):
    name = "quote"

    def __init__(self):
        self.distribution = {}

    def _count(self, k):
        self.distribution[k] = self.distribution.get(k, 0) + 1

    def corpus(self):
        out = []
        for d in DIALECTS:
            for s in ("a\\", "a\\nb", 'a"b', "a'b", "a\nb", "\\", 'x" + "y'):
                out.append({"d": d, "fn": "quote_string", "s": s})
            out.append({"d": d, "fn": "quote_identifier", "s": "a\\b"})
            out.append({"d": d, "fn": "quote_identifier", "s": "a\nb"})
        return corpus_cases("quote") + out

    def gen(self, rng, tier):
        n = 900 if tier == "quick" else 12000
        for _ in range(n):
            d = rng.choice(DIALECTS)
            k = rng.random()
            if k < 0.30:
                c = {"d": d, "fn": "quote_string", "s": rstr(rng, 10)}
            elif k < 0.50:
                c = {"d": d, "fn": "quote_identifier", "s": rstr(rng, 8)}
            elif k < 0.68:
                c = {"d": d, "fn": "value_to_sql", "v": rval(rng), "wrap": rng.random() < 0.3}
            elif k < 0.78:
                c = {"d": d, "fn": "clean_annotation", "s": rstr(rng, 14)}
            elif k < 0.86:
                c = {"d": d, "fn": "select_line", "s": rstr(rng, 14)}
            else:
                fn = rng.choice(["table_values", "row_recs_to_blocks", "blocks_to_row_recs"])
                spec = rspec(rng)
                if rng.random() < 0.08:  # malformed stream: one name with the identifier quote in it
                    j = rng.randrange(len(spec["cols"]))
                    bad = spec["cols"][j] + IDQ[d]
                    spec["control_keys"] = [bad if x == spec["cols"][j] else x for x in spec["control_keys"]]
                    spec["cols"][j] = bad
                c = {"d": d, "fn": fn, "spec": spec}
            self._count(c["fn"])
            yield c
        # every white-space / line-break code point of the BMP (and one astral) through _clean_annotation
        ws = [chr(c) for c in range(1, 0x3100) if chr(c).isspace() or chr(c) in LINEBREAKS]
        for c in ws:
            yield {"d": "sqlite", "fn": "clean_annotation", "s": "a" + c + "b" + c}
            yield {"d": "sqlite", "fn": "select_line", "s": "x" + c + c + "y%"}
        # one annotation holding every BMP code point once (exhaustive check of the `\s` class)
        if tier == "thorough":
            for lo in range(1, 0x10000, 0x800):
                yield {"d": "sqlite", "fn": "clean_annotation",
                       "s": "".join("x" + chr(c) for c in range(lo, lo + 0x800) if not 0xD800 <= c <= 0xDFFF)}
            for d in DIALECTS:
                for s in itertools.product(["'", '"', "\\", "\n", "a", "`"], repeat=3):
                    yield {"d": d, "fn": "quote_string", "s": "".join(s)}
                    yield {"d": d, "fn": "quote_identifier", "s": "".join(s)}

    def real(self, case):
        d, fn = case["d"], case["fn"]
        m = model(d)
        try:
            if fn == "quote_string":
                return {"ok": m.quote_string(case["s"])}
            if fn == "quote_identifier":
                return {"ok": m.quote_identifier(case["s"])}
            if fn == "value_to_sql":
                v = to_py(case["v"])
                if case.get("wrap"):
                    import data_algebra.expr_rep as er
                    v = er.ListTerm(v) if isinstance(v, list) else er.Value(v)
                return {"ok": m.value_to_sql(v)}
            if fn == "clean_annotation":
                import data_algebra.sql_model as sm
                return {"ok": sm._clean_annotation(case["s"])}
            if fn == "select_line":
                return {"ok": select_line(d, case["s"])}
            return call_builder(d, fn, case["spec"])
        except Exception as e:
            return err(e)

    # ---- oracle -------------------------------------------------------------------------------
    def oracle(self, case, out):
        d, fn = case["d"], case["fn"]
        if "harness_exc" in out:
            return "harness: " + out["harness_exc"]
        if fn == "quote_string":
            s = case["s"]
            if "\0" in s:
                return None
            if "ok" not in out:
                return f"raises: quote_string({s!r}) raised {out.get('err')}"
            return read_back(d, "str", out["ok"], s)
        if fn == "quote_identifier":
            s = case["s"]
            if IDQ[d] in s or "\0" in s or (s == "" and d in ("postgres", "bigquery")):
                return None  # outside the property's scope (the code raises ValueError for the quote character)
            if "ok" not in out:
                return f"raises: quote_identifier({s!r}) raised {out.get('err')}"
            return read_back(d, "ident", out["ok"], s)
        if fn == "value_to_sql":
            v = to_py(case["v"])
            if "\0" in repr(v):
                return None
            if "ok" not in out:
                return f"raises: value_to_sql raised {out.get('err')}"
            try:
                toks = T.tokenize(d, "SELECT " + out["ok"] + " AS x")
                got, j = parse_literal(toks, 1)
            except (T.LexError, IndexError) as e:
                return f"literal: {d} cannot read {out['ok']!r} back: {e}"
            if toks[:1] != [("word", "SELECT")] or toks[j:] != [("word", "AS"), ("word", "x")]:
                return f"literal: {d} reads {out['ok']!r} as {toks!r}"
            if not same_value(v, got):
                return f"literal: {d} reads {out['ok']!r} as {got!r}, value was {v!r}"
            if d == "sqlite" and not isinstance(v, list) and not (isinstance(v, int) and abs(v) >= 2 ** 63):
                try:
                    r = sqlite_conn().execute("SELECT " + out["ok"]).fetchall()[0][0]
                except Exception as e:
                    return f"literal: SQLite rejects {out['ok']!r}: {e}"
                exp = None if (isinstance(v, float) and math.isnan(v)) else (int(v) if isinstance(v, bool) else v)
                if r != exp or (type(r) is not type(exp) and not isinstance(exp, bool)):
                    return f"literal: SQLite evaluates {out['ok']!r} to {r!r}, value was {v!r}"
            return None
        if fn in ("clean_annotation", "select_line"):
            a = case["s"]
            if "ok" not in out:
                return f"raises: {fn} raised {out.get('err')}"
            txt = out["ok"]
            line = txt if fn == "select_line" else "SELECT  -- " + txt
            body = line[len("SELECT"):]
            for ch in LINEBREAKS:
                if ch in body:
                    return f"comment: line break U+{ord(ch):04X} survives in the annotation comment {line!r}"
            if "\0" in a:
                return None
            if d == "spark" and line.endswith("\\"):
                return None  # stated scope: annotations end with ')'
            for dd in ([d] if fn == "select_line" else DIALECTS):
                if dd == "spark" and line.endswith("\\"):
                    continue
                try:
                    t1 = T.tokenize(dd, line + "\n 1 AS x")
                except T.LexError as e:
                    return f"comment: {dd} cannot lex {line!r}: {e}"
                if t1 != [("word", "SELECT"), ("num", 1), ("word", "AS"), ("word", "x")]:
                    return f"comment: in {dd} the annotation leaks out of its comment: {line!r} -> {t1!r}"
            try:
                r = sqlite_conn().execute(line + "\n 7").fetchall()
            except Exception as e:
                return f"comment: SQLite rejects {line!r}: {e}"
            if r != [(7,)]:
                return f"comment: SQLite evaluates {line!r} + newline + 7 to {r!r}"
            return None
        # record-map builders / table values
        spec = case["spec"]
        names = set(spec["record_keys"]) | set(spec["cols"])
        if fn != "table_values":
            for r in spec["rows"]:
                for j, c in enumerate(spec["cols"]):
                    if c not in spec["control_keys"]:
                        names.add(r[j])
        if any(IDQ[d] in s for s in names) or any("\0" in s for s in spec_strings(spec)):
            return None  # out of scope
        if "ok" not in out:
            return f"raises: {fn} raised {out.get('err')} on in-scope names"
        sql = "\n".join(lines_of(out))
        try:
            toks = T.tokenize(d, sql)
        except T.LexError as e:
            return f"structure: {d} cannot lex the {fn} SQL: {e}"
        user = spec_strings(spec)
        for k, x in toks:
            if k in ("str", "ident") and x not in user and x != "table_values":
                return f"structure: {fn}/{d}: quoted token {x!r} is not one of the user's strings"
            if k == "word" and x not in SQL_WORDS and x != "zqsub":
                return f"structure: {fn}/{d}: bare word {x!r} outside the fixed vocabulary"
        spec2, mp = rename_spec(spec)
        try:
            out2 = call_builder(d, fn, spec2)
            toks2 = T.tokenize(d, "\n".join(lines_of(out2)))
        except Exception as e:
            return None  # the benign twin must work; if it does not, that is not this property's business
        mapped = [(k, mp.get(x, x)) if k in ("str", "ident") else (k, x) for k, x in toks]
        if [tok_key(t) for t in mapped] != [tok_key(t) for t in toks2]:
            return (f"structure: {fn}/{d}: token stream differs from the stream of the same specification with "
                    f"harmless strings")
        return None

    def nontrivial(self, case, out):
        if "s" in case:
            return any(c in SPECIAL for c in case["s"])
        if "spec" in case:
            return any(any(c in SPECIAL for c in s) for s in spec_strings(case["spec"]))
        return "l" in (case.get("v") or {}) or "s" in (case.get("v") or {}) if isinstance(case.get("v"), dict) else False

    def shrink(self, case):
        if "s" in case:
            s = case["s"]
            for i in range(len(s)):
                yield dict(case, s=s[:i] + s[i + 1:])
        elif "spec" in case:
            sp = case["spec"]
            if len(sp["rows"]) > 1:
                for i in range(len(sp["rows"])):
                    yield dict(case, spec=dict(sp, rows=sp["rows"][:i] + sp["rows"][i + 1:]))
            if sp["record_keys"]:
                yield dict(case, spec=dict(sp, record_keys=sp["record_keys"][1:]))
            for i, r in enumerate(sp["rows"]):
                for j, x in enumerate(r):
                    for k in range(len(x)):
                        if len(x) > 1:
                            r2 = r[:j] + [x[:k] + x[k + 1:]] + r[j + 1:]
                            yield dict(case, spec=dict(sp, rows=sp["rows"][:i] + [r2] + sp["rows"][i + 1:]))
        elif isinstance(case.get("v"), dict) and "l" in case["v"]:
            l = case["v"]["l"]
            for i in range(len(l)):
                yield dict(case, v={"l": l[:i] + l[i + 1:]})
            for x in l:
                yield dict(case, v=x)
        elif isinstance(case.get("v"), dict) and "s" in case["v"]:
            s = case["v"]["s"]
            for i in range(len(s)):
                yield dict(case, v={"s": s[:i] + s[i + 1:]})


def read_back(d, kind, text, s):
    """oracle (a)+(b): the engine (SQLite) and the independent tokenizer must read `text` back as exactly `s`"""
    sql = ("SELECT " + text + " AS x") if kind == "str" else ("SELECT 1 AS " + text + " FROM t")
    try:
        toks = T.tokenize(d, sql)
    except T.LexError as e:
        return f"{kind}: {d} cannot lex {text!r} (from {s!r}): {e}"
    exp = ([("word", "SELECT"), ("str", s), ("word", "AS"), ("word", "x")] if kind == "str" else
           [("word", "SELECT"), ("num", 1), ("word", "AS"), ("ident", s), ("word", "FROM"), ("word", "t")])
    if toks != exp:
        got = [x for k, x in toks if k == kind]
        return f"{kind}: {d} reads {text!r} as {got!r} (tokens {len(toks)}), the value was {s!r}"
    if d == "sqlite":
        try:
            if kind == "str":
                r = sqlite_conn().execute("SELECT " + text).fetchall()[0][0]
            else:
                r = sqlite_conn().execute("SELECT 1 AS " + text).description[0][0]
        except Exception as e:
            return f"{kind}: SQLite rejects {text!r}: {e}"
        if r != s:
            return f"{kind}: SQLite reads {text!r} as {r!r}, the value was {s!r}"
    return None


# ------------------------------------------------------------------------------------------------
# suite 2: the SQLite lexer model against the engine (and the oracle's tokenizer against the engine)
# ------------------------------------------------------------------------------------------------

LEX_ALPHA = ["'", "'", '"', '"', "`", "\\", "\n", "\r", "a", "b", " ", "-", "-", "%", "/", "*", "é", "\x0b", "\x0c",
             "\t", "E", "1", "[", "]", "$", "#", ",", "(", ")", "\xa0", "\x85"]


def sqlite_read(kind, t):
    try:
        if kind == "str":
            rows = sqlite_conn().execute("SELECT (" + t + "\n)").fetchall()
            if len(rows) == 1 and len(rows[0]) == 1 and isinstance(rows[0][0], str):
                return {"ok": rows[0][0]}
            return "err"
        cur = sqlite_conn().execute("SELECT 1 AS " + t + "\n")
        rows = cur.fetchall()
        if len(cur.description) == 1 and rows == [(1,)]:
            return {"ok": cur.description[0][0]}
        return "err"
    except Exception:
        return "err"


def tok_read(d, kind, t, concat=False):
    """what the independent tokenizer makes of the very text the engine is given by sqlite_read / spark_read"""
    try:
        toks = T.tokenize(d, ("SELECT (" + t + "\n)") if kind == "str" else ("SELECT 1 AS " + t + "\n"))
    except T.LexError:
        return "err"
    if kind == "str":
        if toks[:2] != [("word", "SELECT"), ("sym", "(")] or toks[-1:] != [("sym", ")")]:
            return "err"
        mid = toks[2:-1]
        if concat and mid and all(k == "str" for k, _ in mid):
            return {"ok": "".join(x for _, x in mid)}
        if len(mid) == 1 and mid[0][0] == "str":
            return {"ok": mid[0][1]}
        return "err"
    if toks[:3] == [("word", "SELECT"), ("num", 1), ("word", "AS")] and len(toks) == 4 and toks[3][0] == "ident":
        return {"ok": toks[3][1]}
    return "err"


class SqliteLex(Suite):
    name = "sqlite_lex"
    driver_suite = "lex"

    def gen(self, rng, tier):
        n = 3000 if tier == "quick" else 40000
        for _ in range(n):
            kind = rng.choice(["str", "ident"])
            q = "'" if kind == "str" else rng.choice(['"', '"', "`"])
            body = "".join(rng.choice(LEX_ALPHA) for _ in range(rng.randint(0, 7)))
            yield {"d": "sqlite", "kind": kind, "t": q + body + q}
        if tier == "thorough":
            for kind, q in (("str", "'"), ("ident", '"')):
                for body in itertools.product(["'", '"', "a", "-", "\n", " "], repeat=4):
                    yield {"d": "sqlite", "kind": kind, "t": q + "".join(body) + q}

    def real(self, case):
        return sqlite_read(case["kind"], case["t"])

    # block comments are outside the lexer model (it answers "not handled"); SQLite lets an unterminated one run
    # to the end of the text.  Such texts are compared as "not-modelled" on both sides.
    def real_canon(self, out, case=None):
        return "not-modelled" if "/*" in case["t"] else out

    def model_canon(self, out, case=None):
        return "not-modelled" if "/*" in case["t"] else out

    def oracle(self, case, out):
        # the oracle's own tokenizer is held to the engine too (so that oracle (b) can be trusted for SQLite)
        mine = tok_read("sqlite", case["kind"], case["t"])
        if mine != out:
            return f"tokenizer: independent SQLite tokenizer reads {case['t']!r} as {mine!r}, the engine as {out!r}"
        return None

    def nontrivial(self, case, out):
        return len(case["t"]) > 3

    def shrink(self, case):
        t = case["t"]
        for i in range(1, len(t) - 1):
            yield dict(case, t=t[:i] + t[i + 1:])


class SqliteRoundTrip(Suite):
    """code → text → engine, against model-of-code → text → model-of-lexer"""
    name = "sqlite_roundtrip"
    driver_suite = "quote_lex"

    def gen(self, rng, tier):
        n = 1500 if tier == "quick" else 20000
        for _ in range(n):
            yield {"d": "sqlite", "kind": rng.choice(["str", "ident"]), "s": rstr(rng, 10).replace("\0", "")}

    def real(self, case):
        m = model("sqlite")
        try:
            t = m.quote_string(case["s"]) if case["kind"] == "str" else m.quote_identifier(case["s"])
        except Exception as e:
            return err(e)
        return {"t": t, "v": sqlite_read(case["kind"], t)}

    def oracle(self, case, out):
        if case["kind"] == "ident" and '"' in case["s"]:
            return None
        if "v" not in out:
            return f"raises: {out}"
        if out["v"] != {"ok": case["s"]}:
            return f"{case['kind']}: SQLite reads {out['t']!r} as {out['v']!r}, the value was {case['s']!r}"
        return None

    def nontrivial(self, case, out):
        return any(c in SPECIAL for c in case["s"])

    def shrink(self, case):
        s = case["s"]
        for i in range(len(s)):
            yield dict(case, s=s[:i] + s[i + 1:])


# ------------------------------------------------------------------------------------------------
# suite 3 (thorough): the Spark lexer model and the Spark quoting against a local Spark session
# ------------------------------------------------------------------------------------------------

_SPARK = []


def spark():
    if not _SPARK:
        try:
            import logging
            logging.getLogger("py4j").setLevel(logging.ERROR)
            from pyspark.sql import SparkSession
            s = (SparkSession.builder.master("local[1]").config("spark.ui.enabled", "false")
                 .config("spark.driver.host", "127.0.0.1").config("spark.driver.bindAddress", "127.0.0.1")
                 .getOrCreate())
            s.sparkContext.setLogLevel("OFF")
            s.sql("SELECT 1").collect()
            _SPARK.append(s)
        except Exception as e:  # no Spark here: the suite says so and yields nothing
            _SPARK.append(None)
    return _SPARK[0]


def spark_read(kind, t):
    s = spark()
    try:
        if kind == "str":
            rows = s.sql("SELECT (" + t + "\n)").collect()
            if len(rows) == 1 and len(rows[0]) == 1 and isinstance(rows[0][0], str):
                return {"ok": rows[0][0]}
            return "err"
        df = s.sql("SELECT 1 AS " + t + "\n")
        rows = df.collect()
        if len(df.columns) == 1 and rows[0][0] == 1:
            return {"ok": df.columns[0]}
        return "err"
    except Exception:
        return "err"


SPARK_ALPHA = ["'", '"', '"', "`", "\\", "\\", "\n", "\r", "a", "b", " ", "-", "-", "%", "_", "é", "u", "U", "0",
               "1", "7", "4", "Z", "n", "t", "x", "F", "\U0001F600"]


class SparkLex(Suite):
    name = "spark_lex"
    driver_suite = "lex"

    def __init__(self):
        self.distribution = {}

    def gen(self, rng, tier):
        if tier != "thorough":
            self.distribution["skipped"] = "quick tier"
            return
        if spark() is None:
            self.distribution["skipped"] = "no local Spark session could be started; Spark lexer model unvalidated"
            return
        self.distribution["spark_version"] = spark().version
        for _ in range(1500):
            kind = rng.choice(["str", "str", "ident"])
            q = rng.choice(["'", '"']) if kind == "str" else "`"
            body = "".join(rng.choice(SPARK_ALPHA) for _ in range(rng.randint(0, 9)))
            yield {"d": "spark", "kind": "tokens", "k": kind, "t": q + body + q}

    def real(self, case):
        if spark() is None:
            return "no-spark"
        return spark_read(case["k"], case["t"])

    def model_canon(self, out, case=None):
        if spark() is None:
            return "no-spark"
        if out == "err":
            return "err"
        toks = out["ok"]
        if case["k"] == "str" and toks and all("str" in t for t in toks):
            return {"ok": "".join(t["str"] for t in toks)}  # Spark concatenates adjacent string literals
        if case["k"] == "ident" and len(toks) == 1 and "ident" in toks[0]:
            return {"ok": toks[0]["ident"]}
        return "err"

    def oracle(self, case, out):
        if out == "no-spark":
            return None
        mine = tok_read("spark", case["k"], case["t"], concat=True)
        if mine != out:
            return f"tokenizer: independent Spark tokenizer reads {case['t']!r} as {mine!r}, the engine as {out!r}"
        return None

    def shrink(self, case):
        t = case["t"]
        for i in range(1, len(t) - 1):
            yield dict(case, t=t[:i] + t[i + 1:])


class SparkRoundTrip(Suite):
    name = "spark_roundtrip"
    driver_suite = "quote_lex"

    def gen(self, rng, tier):
        if tier != "thorough" or spark() is None:
            return
        for c in corpus_cases("spark_roundtrip"):
            yield c
        for _ in range(800):
            yield {"d": "spark", "kind": rng.choice(["str", "str", "ident"]), "s": rstr(rng, 10).replace("\0", "")}

    def real(self, case):
        if spark() is None:
            return "no-spark"
        m = model("spark")
        try:
            t = m.quote_string(case["s"]) if case["kind"] == "str" else m.quote_identifier(case["s"])
        except Exception as e:
            return err(e)
        return {"t": t, "v": spark_read(case["kind"], t)}

    # the session's ${name} substitution happens before the lexer and is not part of the lexer model: such inputs
    # are compared as "var-substitution" on both sides; the oracle still reports them (known finding)
    def model_canon(self, out, case=None):
        if spark() is None:
            return "no-spark"
        return "var-substitution" if SPARK_SUBST.search(case["s"]) else out

    def real_canon(self, out, case=None):
        if out == "no-spark":
            return out
        return "var-substitution" if SPARK_SUBST.search(case["s"]) else out

    def finding(self, case, out, why):
        return F_SPARK_SUBST if SPARK_SUBST.search(case["s"]) else None

    def oracle(self, case, out):
        if out == "no-spark" or (case["kind"] == "ident" and "`" in case["s"]):
            return None
        if "v" not in out:
            return f"raises: {out}"
        if out["v"] != {"ok": case["s"]}:
            return f"{case['kind']}: Spark reads {out['t']!r} as {out['v']!r}, the value was {case['s']!r}"
        return None

    def nontrivial(self, case, out):
        return any(c in SPECIAL for c in case["s"])

    def shrink(self, case):
        s = case["s"]
        for i in range(len(s)):
            yield dict(case, s=s[:i] + s[i + 1:])


# ------------------------------------------------------------------------------------------------
# suite 4: whole pipelines with hostile strings in every position (no model side)
# ------------------------------------------------------------------------------------------------

def hostile(rng, used, quotes_ok=True):
    for _ in range(200):
        s = rstr(rng, 7).replace("\0", "")
        if not quotes_ok:
            s = s.replace('"', "q").replace("`", "b")
        if s and s not in used and not s.startswith("zq"):
            used.add(s)
            return s
    s = "h%d" % len(used)
    used.add(s)
    return s


def build_pipeline(case):
    """→ (ops, {table_name: DataFrame})"""
    import pandas as pd
    import data_algebra.expr_rep as er
    import data_algebra.cdata as cdata
    from data_algebra.data_ops import TableDescription
    S = case["strings"]
    kind = case["kind"]
    t1, c1, c2 = S["t1"], S["c1"], S["c2"]
    d1 = pd.DataFrame({c1: [S["v1"], S["v2"], S["v1"]], c2: [1.0, 2.0, 3.0]})
    td1 = TableDescription(table_name=t1, column_names=[c1, c2])
    tabs = {t1: d1}
    if kind == "extend_select":
        cm = td1.column_map()
        ops = td1.extend({S["c3"]: er.Value(S["v3"])}).select_rows(cm[c1] == er.Value(S["v1"]))
    elif kind == "is_in":
        cm = td1.column_map()
        ops = td1.extend({S["c3"]: cm[c1].is_in([S["v1"], S["v3"]])})
    elif kind == "rename_order":
        ops = td1.rename_columns({S["c3"]: c1}).order_rows([c2]).select_columns([S["c3"], c2])
    elif kind == "project":
        ops = td1.project({S["c3"]: f"{_ident(c2)}.sum()"} if _ident(c2) else {S["c3"]: "(1).sum()"}, group_by=[c1])
    elif kind == "concat":
        t2 = S["t2"]
        d2 = pd.DataFrame({c1: [S["v3"]], c2: [9.0]})
        tabs[t2] = d2
        ops = td1.concat_rows(b=TableDescription(table_name=t2, column_names=[c1, c2]), id_column=S["c3"],
                              a_name=S["v4"], b_name=S["v5"])
    elif kind == "join":
        t2 = S["t2"]
        d2 = pd.DataFrame({c1: [S["v1"], S["v3"]], S["c3"]: [10.0, 20.0]})
        tabs[t2] = d2
        ops = td1.natural_join(b=TableDescription(table_name=t2, column_names=[c1, S["c3"]]), on=[c1], jointype="left")
    elif kind in ("to_blocks", "to_rows"):
        rk, kc, vc = S["c1"], S["c3"], S["c4"]
        e1, e2 = S["c5"], S["c6"]
        ct = pd.DataFrame({kc: [S["v1"], S["v2"]], vc: [e1, e2]})
        rs = cdata.RecordSpecification(ct, record_keys=[rk], control_table_keys=[kc])
        if kind == "to_blocks":
            d = pd.DataFrame({rk: [S["v3"], S["v4"]], e1: [1.0, 2.0], e2: [3.0, 4.0]})
            ops = TableDescription(table_name=t1, column_names=list(d.columns)).convert_records(
                cdata.RecordMap(blocks_out=rs))
        else:
            d = pd.DataFrame({rk: [S["v3"], S["v3"], S["v4"], S["v4"]], kc: [S["v1"], S["v2"], S["v1"], S["v2"]],
                              vc: [1.0, 2.0, 3.0, 4.0]})
            ops = TableDescription(table_name=t1, column_names=list(d.columns)).convert_records(
                cdata.RecordMap(blocks_in=rs))
        tabs = {t1: d}
    else:
        raise ValueError(kind)
    return ops, tabs


def _ident(s):
    return s if s.isidentifier() and s.isascii() else None


PIPE_KINDS = ["extend_select", "is_in", "rename_order", "concat", "join", "to_blocks", "to_rows"]


def canon_frame(df):
    cols = sorted(df.columns)
    rows = []
    for r in df[cols].itertuples(index=False):
        rows.append([None if (x is None or (isinstance(x, float) and math.isnan(x))) else
                     (float(x) if isinstance(x, (int, float)) and not isinstance(x, bool) else
                      (bool(x) if isinstance(x, bool) else x)) for x in r])
    rows.sort(key=lambda r: [repr(x) for x in r])
    return {"cols": cols, "rows": rows}


def norm_bool(fr_sql, fr_pd):
    """SQLite has no boolean: 0/1 where Pandas has False/True"""
    for r1, r2 in zip(fr_sql["rows"], fr_pd["rows"]):
        for i, (a, b) in enumerate(zip(r1, r2)):
            if isinstance(b, bool) and isinstance(a, float) and a in (0.0, 1.0):
                r1[i] = bool(a)
    return fr_sql


class Pipeline(Suite):
    name = "pipeline"
    corr = False

    def __init__(self):
        self.distribution = {}

    def corpus(self):
        base = {"t1": "t1", "t2": "t2", "c1": "c1", "c2": "c2", "c3": "c3", "c4": "c4", "c5": "c5", "c6": "c6",
                "v1": "v1", "v2": "v2", "v3": "v3", "v4": "v4", "v5": "v5"}
        out = []
        for lab in ('x" + "y', 'x" == "x', "a\\b", 'a"b', "a\nb"):
            out.append({"kind": "concat", "annotate": True, "strings": dict(base, v4=lab)})
        return corpus_cases("pipeline") + out

    def gen(self, rng, tier):
        n = 260 if tier == "quick" else 4000
        for _ in range(n):
            used = set()
            S = {}
            for k in ("t1", "t2", "c1", "c2", "c3", "c4", "c5", "c6"):
                S[k] = hostile(rng, used, quotes_ok=False)
            for k in ("v1", "v2", "v3", "v4", "v5"):
                S[k] = hostile(rng, used, quotes_ok=True)
            kind = rng.choice(PIPE_KINDS)
            self.distribution[kind] = self.distribution.get(kind, 0) + 1
            yield {"kind": kind, "annotate": rng.random() < 0.7, "strings": S}

    def real(self, case):
        import data_algebra.SQLite
        from data_algebra.sql_format_options import SQLFormatOptions
        try:
            ops, tabs = build_pipeline(case)
        except Exception as e:
            return {"build_err": type(e).__name__ + ": " + str(e)[:160]}
        out = {}
        try:
            out["pandas"] = canon_frame(ops.eval(tabs))
        except Exception as e:
            out["pandas_err"] = type(e).__name__ + ": " + str(e)[:160]
        opts = SQLFormatOptions(annotate=bool(case.get("annotate")))
        try:
            with data_algebra.SQLite.example_handle() as h:
                for nm, df in tabs.items():
                    h.insert_table(df, table_name=nm, allow_overwrite=True)
                sql = h.to_sql(ops, sql_format_options=opts)
                out["sqlite_sql"] = sql
                out["sqlite"] = canon_frame(h.read_query(sql))
        except Exception as e:
            out["sqlite_err"] = type(e).__name__ + ": " + str(e)[:200]
        out["sql"] = {}
        for d in DIALECTS:
            try:
                out["sql"][d] = model(d).to_sql(ops, sql_format_options=opts)
            except Exception as e:
                out["sql"][d] = {"err": type(e).__name__ + ": " + str(e)[:160]}
        return out

    def oracle(self, case, out):
        if "harness_exc" in out:
            return "harness: " + out["harness_exc"]
        if "build_err" in out:
            return None  # the builder refused the pipeline: not this property
        if "pandas_err" in out:
            return None
        if "sqlite_err" in out:
            return f"sqlite: {case['kind']}: SQLite fails on the generated SQL: {out['sqlite_err']}"
        a, b = norm_bool(out["sqlite"], out["pandas"]), out["pandas"]
        if a != b:
            return f"sqlite: {case['kind']}: SQLite result {a} differs from the Pandas result {b}"
        # every dialect: lexically well formed, user strings only as whole quoted tokens, same token stream as the
        # same pipeline over harmless strings
        S = case["strings"]
        mp = {}
        for k in sorted(S):
            mp.setdefault(S[k], "zq%d" % len(mp))
        twin = dict(case, strings={k: mp[S[k]] for k in S})
        try:
            ops2, _ = build_pipeline(twin)
        except Exception:
            return None
        from data_algebra.sql_format_options import SQLFormatOptions
        opts = SQLFormatOptions(annotate=bool(case.get("annotate")))
        for d in DIALECTS:
            sql = out["sql"][d]
            if isinstance(sql, dict):
                return f"raises: {case['kind']}/{d}: to_sql raised {sql['err']}"
            try:
                toks = T.tokenize(d, sql)
            except T.LexError as e:
                return f"structure: {case['kind']}/{d}: generated SQL does not lex: {e}"
            try:
                toks2 = T.tokenize(d, model(d).to_sql(ops2, sql_format_options=opts))
            except Exception:
                continue
            mapped = sorted(tok_key((k, mp.get(x, x)) if k in ("str", "ident") else (k, x)) for k, x in toks)
            if mapped != sorted(tok_key(t) for t in toks2):
                extra = [t for t in mapped if t not in [tok_key(u) for u in toks2]][:4]
                return (f"structure: {case['kind']}/{d}: the tokens of the query differ from those of the same "
                        f"pipeline over harmless strings (e.g. {extra})")
        return None

    def nontrivial(self, case, out):
        return isinstance(out, dict) and "sqlite" in out

    def shrink(self, case):
        S = case["strings"]
        for k in sorted(S):
            s = S[k]
            if len(s) > 1:
                for i in range(len(s)):
                    s2 = s[:i] + s[i + 1:]
                    if s2 and s2 not in S.values():
                        yield dict(case, strings=dict(S, **{k: s2}))
        if case.get("annotate"):
            yield dict(case, annotate=False)


SUITES = [Quote(), SqliteLex(), SqliteRoundTrip(), SparkLex(), SparkRoundTrip(), Pipeline()]
