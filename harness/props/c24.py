"""C24 — OrderedSet is a set that remembers first insertion order."""
import itertools

from ..core import Suite

PROPERTY = "C24"
LEAN_MODULES = ["DAVerif.Props.C24", "DAVerif.Props.C24cmp"]
THEOREMS = [
    # containment queries read the argument as a set: repeats in a raw list never change <= / >=
    "DAVerif.OSet.C24_ge_spec", "DAVerif.OSet.C24_le_spec", "DAVerif.OSet.C24_ge_ofList", "DAVerif.OSet.C24_le_ofList",
    "DAVerif.OSet.C24_step_refines",
    "DAVerif.OSet.C24_run_nodup",
    "DAVerif.OSet.C24_first_insertion_order",
    "DAVerif.OSet.C24_step_events",
    "DAVerif.OSet.C24_ordered_union",
    "DAVerif.OSet.C24_ordered_intersect",
    "DAVerif.OSet.C24_ordered_diff",
]
ASSUMPTIONS = [
    "collections.OrderedDict keeps insertion order and `d[k] = None` keeps an existing key's position (CPython)",
    "the MutableSet/Set mixin bodies are those of CPython 3.12's _collections_abc.py (transcribed in the model)",
    "elements are hashable with a consistent ==; ints and strs are generated (no 1 == True == 1.0 aliasing)",
]
NOT_PROVEN = []
LEVEL_TEXT = ("All seven theorems are kernel-checked for every element type, state and operation history: each "
              "operation refines the plain-set result and raises exactly when a set would, every reachable state is "
              "duplicate-free, iteration order is the first-occurrence order of the live insertion log, and the three "
              "helpers return the documented ordered results. The model is tied to OrderedSet.py by step-by-step "
              "comparison on random histories; an independent set+dict oracle searches for failing inputs.")
LEVEL_NOTE = ("Trusted: Lean kernel; axioms propext/Classical.choice/Quot.sound; the hand-written model of OrderedSet.py "
              "and of CPython's MutableSet mixins (validated by the correspondence suite on every run); "
              "OrderedDict semantics.")
RULE = ("random operation histories (length 0..40, thorough: all primitive histories of length <= 4 over 3 "
        "elements) on one OrderedSet over a small element pool so that re-insertions, removals and duplicates are "
        "frequent; non-trivial = at least 3 operations, at least one of which changed the state")

POOL = [0, 1, 2, 3, 4, "a", "b", "1", ""]


def _load():
    from data_algebra import OrderedSet as m
    return m


def rand_list(rng, maxlen=5):
    return [rng.choice(POOL) for _ in range(rng.randint(0, maxlen))]


MUT_OPS = ["add", "discard", "remove", "pop", "clear", "update", "ior", "iand", "isub", "ixor", "reinit",
           "assign_copy", "assign_union", "assign_sub", "assign_and", "assign_or", "assign_xor"]
Q_OPS = ["q_le", "q_ge", "q_lt", "q_gt", "q_eq", "q_isdisjoint", "q_contains", "q_len",
         "q_fork_add", "q_fork_discard", "q_fork_update", "q_helper_union", "q_helper_intersect", "q_helper_diff"]


def rand_op(rng):
    k = rng.random()
    if k < 0.35:
        op = rng.choice(["add", "add", "discard", "remove", "pop"])
    elif k < 0.85:
        op = rng.choice(MUT_OPS)
    else:
        op = rng.choice(Q_OPS)
    if op in ("add", "discard", "remove", "q_contains", "q_fork_add", "q_fork_discard"):
        return {"op": op, "x": rng.choice(POOL)}
    if op in ("update", "assign_union"):
        return {"op": op, "args": [rand_list(rng, 4) for _ in range(rng.randint(0, 3))]}
    if op in ("pop", "clear", "assign_copy", "q_len"):
        return {"op": op}
    return {"op": op, "o": rand_list(rng)}


class History(Suite):
    name = "oset"

    def __init__(self):
        self.distribution = {}

    def gen(self, rng, tier):
        n = 400 if tier == "quick" else 6000
        for _ in range(n):
            ops = [rand_op(rng) for _ in range(rng.randint(0, 40 if rng.random() < 0.3 else 12))]
            for o in ops:
                self.distribution[o["op"]] = self.distribution.get(o["op"], 0) + 1
            yield {"init": rand_list(rng, 4), "ops": ops}
        if tier == "thorough":
            prim = [{"op": "pop"}] + [{"op": k, "x": x} for k in ("add", "discard", "remove") for x in (0, 1, 2)]
            for ln in range(0, 5):
                for h in itertools.product(prim, repeat=ln):
                    yield {"init": [], "ops": list(h)}

    def real(self, case):
        m = _load()
        S = m.OrderedSet
        s = S(case["init"])
        out = []
        for o in case["ops"]:
            op = o["op"]
            r = None
            try:
                if op == "add":
                    s.add(o["x"])
                elif op == "discard":
                    s.discard(o["x"])
                elif op == "remove":
                    s.remove(o["x"])
                elif op == "pop":
                    r = s.pop()
                elif op == "clear":
                    s.clear()
                elif op == "update":
                    s.update(*o["args"])
                elif op == "ior":
                    s |= S(o["o"]) if len(o["o"]) % 2 else o["o"]  # any iterable is accepted by __ior__
                elif op == "iand":
                    s &= S(o["o"])
                elif op == "isub":
                    s -= S(o["o"]) if len(o["o"]) % 2 else o["o"]
                elif op == "ixor":
                    s ^= S(o["o"]) if len(o["o"]) % 2 else o["o"]
                elif op == "reinit":
                    s = S(o["o"])
                elif op == "assign_copy":
                    s = s.copy()
                elif op == "assign_union":
                    s = s.union(*o["args"])
                elif op == "assign_sub":
                    s = s - S(o["o"])
                elif op == "assign_and":
                    s = s & S(o["o"])
                elif op == "assign_or":
                    s = s | S(o["o"])
                elif op == "assign_xor":
                    s = s ^ S(o["o"])
                elif op == "q_le":
                    r = s <= (S(o["o"]) if len(o["o"]) % 2 else o["o"])  # __le__ / __ge__ accept any container: also a list with repeats
                elif op == "q_ge":
                    r = s >= (S(o["o"]) if len(o["o"]) % 2 else o["o"])
                elif op == "q_lt":
                    r = s < S(o["o"])
                elif op == "q_gt":
                    r = s > S(o["o"])
                elif op == "q_eq":
                    r = s == S(o["o"])
                elif op == "q_isdisjoint":
                    r = s.isdisjoint(o["o"])
                elif op == "q_contains":
                    r = o["x"] in s
                elif op == "q_len":
                    r = len(s)
                elif op == "q_fork_add":
                    t = S(s); t.add(o["x"]); r = list(t)
                elif op == "q_fork_discard":
                    t = S(s); t.discard(o["x"]); r = list(t)
                elif op == "q_fork_update":
                    t = S(s); t.update(o["o"]); r = list(t)
                elif op == "q_helper_union":
                    r = list(m.ordered_union(s, o["o"]))
                elif op == "q_helper_intersect":
                    r = list(m.ordered_intersect(s, o["o"]))
                elif op == "q_helper_diff":
                    r = list(m.ordered_diff(s, o["o"]))
                else:
                    raise ValueError(op)
                if not isinstance(s, S):
                    out.append({"s": list(s), "err": "not-an-OrderedSet:" + type(s).__name__})
                    break
                out.append({"s": list(s), "r": r})
            except KeyError:
                out.append({"s": list(s), "err": "KeyError"})
        return out

    # -------- independent oracle: a plain `set` and a plain insertion-ordered dict ---------------
    def oracle(self, case, real_out):
        if isinstance(real_out, dict):
            return "harness: " + str(real_out)[:200]
        P = set(case["init"])
        D = dict.fromkeys(case["init"])
        for i, (o, got) in enumerate(zip(case["ops"], real_out)):
            op = o["op"]
            exp_err = None
            exp_r = "skip"
            order_known = True
            if op == "add":
                P.add(o["x"]); D.setdefault(o["x"])
            elif op == "discard":
                P.discard(o["x"]); D.pop(o["x"], None)
            elif op == "remove":
                if o["x"] in P:
                    P.remove(o["x"]); D.pop(o["x"])
                else:
                    exp_err = "KeyError"
            elif op == "pop":
                if P:
                    if "r" not in got or got["r"] not in P:
                        return f"set: step {i} pop returned a non-member"
                    P.remove(got["r"]); D.pop(got["r"])
                else:
                    exp_err = "KeyError"
            elif op == "clear":
                P.clear(); D.clear()
            elif op in ("update", "assign_union"):
                for a in o["args"]:
                    P.update(a)
                    for x in a:
                        D.setdefault(x)
            elif op in ("ior", "assign_or"):
                P |= set(o["o"])
                for x in o["o"]:
                    D.setdefault(x)
            elif op in ("iand", "assign_and"):
                P &= set(o["o"])
                D = {k: None for k in D if k in P}
                order_known = op == "iand"
            elif op in ("isub", "assign_sub"):
                P -= set(o["o"])
                D = {k: None for k in D if k in P}
            elif op in ("ixor", "assign_xor"):
                old = set(P)
                P ^= set(o["o"])
                D = {k: None for k in D if k in P}
                for x in o["o"]:
                    if x not in old:
                        D.setdefault(x)
            elif op == "reinit":
                P = set(o["o"]); D = dict.fromkeys(o["o"])
            elif op == "assign_copy":
                pass
            elif op == "q_le":
                exp_r = P <= set(o["o"])
            elif op == "q_ge":
                exp_r = P >= set(o["o"])
            elif op == "q_lt":
                exp_r = P < set(o["o"])
            elif op == "q_gt":
                exp_r = P > set(o["o"])
            elif op == "q_eq":
                exp_r = P == set(o["o"])
            elif op == "q_isdisjoint":
                exp_r = P.isdisjoint(o["o"])
            elif op == "q_contains":
                exp_r = o["x"] in P
            elif op == "q_len":
                exp_r = len(P)
            # a set built from this one (or this one passed to a helper): the result is the documented one and
            # THIS set is unchanged (checked below against P / D, which these operations do not touch)
            elif op == "q_fork_add":
                exp_r = list(D) + ([o["x"]] if o["x"] not in P else [])
            elif op == "q_fork_discard":
                exp_r = [k for k in D if k != o["x"]]
            elif op == "q_fork_update":
                exp_r = list(dict.fromkeys(list(D) + list(o["o"])))
            elif op == "q_helper_union":
                exp_r = list(dict.fromkeys(list(D) + list(o["o"])))
            elif op == "q_helper_intersect":
                exp_r = [k for k in D if k in set(o["o"])]
            elif op == "q_helper_diff":
                exp_r = [k for k in D if k not in set(o["o"])]
            if got.get("err") != exp_err:
                return f"raises: step {i} {op}: expected {exp_err}, got {got.get('err')}"
            s = got["s"]
            if len(s) != len(set(s)):
                return f"set: step {i} {op}: duplicate elements {s}"
            if set(s) != P:
                return f"set: step {i} {op}: contains {s}, a plain set would contain {sorted(map(str, P))}"
            if order_known and s != list(D):
                return f"order: step {i} {op}: iterates {s}, first-insertion order is {list(D)}"
            if not order_known:
                D = dict.fromkeys(s)
            if exp_r != "skip" and got.get("r") != exp_r:
                return f"query: step {i} {op}: returned {got.get('r')}, a plain set gives {exp_r}"
        return None

    def nontrivial(self, case, real_out):
        if isinstance(real_out, dict) or len(case["ops"]) < 3:
            return False
        prev = None
        changed = 0
        for g in real_out:
            if prev is not None and g["s"] != prev:
                changed += 1
            prev = g["s"]
        return changed >= 1

    def shrink(self, case):
        ops = case["ops"]
        for i in range(len(ops)):
            yield {"init": case["init"], "ops": ops[:i] + ops[i + 1:]}
        if case["init"]:
            yield {"init": case["init"][1:], "ops": ops}
        for i, o in enumerate(ops):
            for k in ("o",):
                if k in o and o[k]:
                    for j in range(len(o[k])):
                        o2 = dict(o); o2[k] = o[k][:j] + o[k][j + 1:]
                        yield {"init": case["init"], "ops": ops[:i] + [o2] + ops[i + 1:]}
            if "args" in o and o["args"]:
                o2 = dict(o); o2["args"] = o["args"][1:]
                yield {"init": case["init"], "ops": ops[:i] + [o2] + ops[i + 1:]}


class Helpers(Suite):
    name = "oset_helper"

    def gen(self, rng, tier):
        n = 300 if tier == "quick" else 5000
        for _ in range(n):
            yield {"fn": rng.choice(["ordered_union", "ordered_intersect", "ordered_diff"]),
                   "a": rand_list(rng, 7), "b": rand_list(rng, 7)}

    def real(self, case):
        m = _load()
        r = getattr(m, case["fn"])(list(case["a"]), list(case["b"]))
        if not isinstance(r, m.OrderedSet):
            return {"err": "not-an-OrderedSet"}
        return list(r)

    def oracle(self, case, real_out):
        a, b = case["a"], case["b"]
        if not isinstance(real_out, list):
            return "type: helper did not return an OrderedSet"
        if case["fn"] == "ordered_union":
            exp = list(dict.fromkeys(list(a) + list(b)))
        elif case["fn"] == "ordered_intersect":
            exp = [x for x in dict.fromkeys(a) if x in set(b)]
        else:
            exp = [x for x in dict.fromkeys(a) if x not in set(b)]
        if real_out != exp:
            return f"helper: {case['fn']}({a}, {b}) = {real_out}, documented result {exp}"
        return None

    def nontrivial(self, case, real_out):
        return len(case["a"]) >= 2 and len(case["b"]) >= 1

    def shrink(self, case):
        for k in ("a", "b"):
            for j in range(len(case[k])):
                c = dict(case); c[k] = case[k][:j] + case[k][j + 1:]
                yield c


SUITES = [History(), Helpers()]
