"""C16 — natural_join matches SQL join semantics (executor-model part + oracle on every backend)."""
import itertools
import random

from .. import oracles
from .. import pipes
from ..propkit import with_oracle
from ..suites_ops import K4Sem
from .refsem import attributed, load_corpus, suite

PROPERTY = "C16"
LEAN_MODULES = ["DAVerif.Props.C16", "DAVerif.Props.C01joins", "DAVerif.Props.C16full", "DAVerif.Props.C01all", "DAVerif.Props.C16nested"]
THEOREMS = ["DAVerif." + t for t in (
    "C16_ref_is_sql", "C16_sem_ref_join", "C16_outer_is_full", "C16_null_keys_never_match", "C16_pandas_partial",
    "C16_pandas_is_sql_partial", "C16_pandas_nullkeys_necessary", "C16_pandas_cross", "C16_pandas_cross_is_sql",
    "C16_cross_as_outer_partial", "C16_cross_as_outer_necessary", "C16_diffkeys", "C16_coalesce",
    # the SQL side: the generated join query evaluates to the reference join (Props/C01joins.lean, Props/C16full.lean)
    "C16_sql_native", "C16_sql_native_generic", "C16_sqlite_inner_left_cross", "C16_sqlite_right_as_left", "C16_diffkeys_sql",
    "C16_sqlite_full_scope", "C16_sqlite_full_partial", "C16_sqlite_full_nullkeys_necessary", "C16_reachable_joinwf",
    # for every SQL generator configuration, and the emulated joins anywhere in a pipeline (Props/C01all.lean, C16nested.lean)
    "C16_sql_native_all", "C16_diffkeys_sql_all", "C16_sqlite_right_as_left_all", "C16_sqlite_full_partial_all",
    "C01_translation_sound_sqlite_five_joins", "C16_nested_fullkeys_necessary")]
ASSUMPTIONS = [
    "the relational model `semJoin SemCfg.pandas` is pandas_base._natural_join_step: tied by suite k4_sem on every run",
    "guard G_nonNullKeys (no key pair has a null on both sides) for the Pandas executor: outside it pandas.merge matches "
    "null keys (known finding D18, proved necessary)",
    "CROSS on the Pandas executor is the model after fix 1a3e0a8 (inner merge on a constant key); the pre-fix behaviour "
    "(outer merge: one empty side gives the other side padded) is kept as C16_cross_as_outer_partial/_necessary",
    "as many left as right key columns, distinct column names per table (asserted by the builders; C08_cols_nodup)",
    "SQLite emulations of RIGHT/FULL, native SQL joins, Polars: SQL-layer theorems elsewhere; judged by the oracle here",
]
NOT_PROVEN = ["SQLite (incl. RIGHT/FULL emulation), PostgreSQL text, Polars joins (oracle only here: vs a plain-Python "
              "nested-loop join and vs hand-written native SQL on SQLite)",
              "pandas dtype effects (pandas 3 raising in the coalesce assignment on bool / empty sides: known finding)"]
LEVEL_TEXT = ("Kernel-checked: the reference configuration of the executor model computes exactly the textbook "
              "nested-loop SQL join (five types; OUTER = FULL) for all inputs incl. duplicate and null keys; the "
              "Pandas configuration equals it for every join type under the guard of D18 (shown necessary by a "
              "concrete counterexample that the real library reproduces) and for CROSS without any guard (after fix "
              "1a3e0a8; the pre-fix outer-merge CROSS is shown to need the guard 'both or neither side empty'); differently named keys keep both columns null-padded; shared columns are "
              "coalesced left-then-right. The model is tied to pandas_base.py by differential execution; every "
              "backend is compared with two independent references on the real code.")
LEVEL_NOTE = ("Trusted: Lean kernel; axioms propext/Classical.choice/Quot.sound; the hand-written executor model "
              "(validated by k4_sem on every run); SQL/Polars outside these theorems (oracle).")
RULE = ("random type-directed pipelines with join weight x4, all five join types, differently named keys (0.45), join "
        "keys from nullable columns (0.5), null keys in inputs (0.5), empty tables (0.12); executed on Pandas and on the "
        "model (k4_sem); oracle_C16 materialises each join's inputs and compares Pandas, SQLite, PostgreSQL text and "
        "Polars with a plain-Python nested-loop join and with hand-written native SQL; non-trivial = at least one result row; plus a small-scope exhaustive "
        "enumeration (suite c16_small_scope: key columns over {null,1,2}, 0-2 rows per side, five join types, same / "
        "differently named keys, a shared non-key column; all 1690 in thorough, 40 sampled in quick)")

CANDS = {
    "N13-sqlite-full-join-needs-same-named-keys": "C16-sqlite-full-join-needs-same-named-keys",
    "N8-pandas3-join-coalesce-assignment-raises": "C16-pandas3-join-coalesce-raises",
    "N19-pandas-join-key-also-right-column-leaks-scratch": "C16-pandas-join-key-also-right-column",
}



def _extra(case, f):
    """Polars raises DuplicateError for every FULL join with a differently named key pair (how='full' does not
    coalesce keys, the renamed right key collides); same root as D20, but a raise, which D20 does not predict.
    Guard, decided on the case: the failure is a Polars raise of that class AND the pipeline has a FULL join whose
    key lists differ."""
    if f["kind"] == "C16:polars-raised" and f["detail"].startswith("FULL join") and "DuplicateError" in f["detail"] \
            and "full_join_diff_keys" in oracles.Ctx(case).guards():
        return "C16-polars-full-join-diff-keys-raises"
    return None


class SmallScope(K4Sem):
    """small-scope exhaustive joins: key columns over {null, 1, 2}, 0-2 rows per side (every combination, so duplicate
    keys, null keys on one or both sides, empty sides), the five join types, same-named and differently named keys, a
    shared non-key column `v` (left null in the first row, so the coalesce direction is visible).  thorough: all of them;
    quick: a random sample."""
    name = "c16_small_scope"
    driver_suite = "k4_sem"

    def __init__(self, **opts):
        super().__init__(**opts)

    @staticmethod
    def all_cases():
        vals = [None, 1, 2]
        seqs = [list(s) for n in range(3) for s in itertools.product(vals, repeat=n)]
        for ka, kb in itertools.product(seqs, seqs):
            for jt in ("inner", "left", "right", "full", "cross"):
                for rk in ("k", "j"):
                    d = pipes.mk_table(["k", "v"], ["int", "int"], [[k, None if i == 0 else 10 + i] for i, k in enumerate(ka)])
                    e = pipes.mk_table([rk, "v", "b"], ["int", "int", "int"], [[k, 20 + i, 30 + i] for i, k in enumerate(kb)])
                    on = [] if jt == "cross" else ([["k", rk]] if rk != "k" else ["k"])
                    yield {"tables": {"d": d, "e": e},
                           "pipe": {"table": "d", "steps": [{"call": "natural_join", "b": {"table": "e", "steps": []},
                                                              "on": on, "jointype": jt, "check": False}]}}

    def gen(self, rng, tier):
        cases = list(self.all_cases())
        if tier != "thorough":
            cases = random.Random(rng.getrandbits(64)).sample(cases, 40)
        self.distribution = {"enumerated": len(cases)}
        return cases


_small = with_oracle(SmallScope, attributed(oracles.oracle_C16, CANDS, _extra), name="c16_small_scope")
_small.driver_suite = "k4_sem"

SUITES = [suite(PROPERTY, oracles.oracle_C16, CANDS, extra=_extra, n_quick=90, n_thorough=1300,
                diff_keys=0.45, null_join_keys=0.5, null_keys=0.5, empty_tables=0.12, max_rows=6,
                join_types=("inner", "left", "right", "full", "cross"), step_weights={"natural_join": 4.0}),
          _small]
