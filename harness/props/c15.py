"""C15 — Results do not depend on how tables and columns are named."""
import glob
import itertools
import json
import keyword
import os
import random
import re
import warnings
import zlib

from .. import oracles
from .. import pipes
from .. import modeltree as mt
from ..core import Driver, Infra, Suite, VERIF, canon_json, safe_real
from ..propkit import with_oracle, _sig
from ..suites_ops import K4Sem
from ..suites_sql import K5Near, canon_skel

PROPERTY = "C15"
# the Lean side is written by the proof worker; switch these on when lean/DAVerif/Props/C15.lean is imported by
# lean/DAVerif.lean (until then the check runs the correspondence suites and the oracle, with 0 obligations)
_PLANNED_LEAN_MODULES = ["DAVerif.Props.C15"]
_PLANNED_THEOREMS = ["DAVerif." + t for t in (
    "C15_sem_equivariant", "C15_sem_equivariant_on", "C15_cols_equivariant", "C15_build_equivariant",
    "C15_buildChain_equivariant", "C15_near_structure_equivariant", "C15_semSql_equivariant",
    "C15_sql_sem_equivariant", "C15_sql_sem_equivariant_on", "C15_reserved_names_recognised", "C15_NoReserved_congr",
    "C15_with_text_partial", "C15_D24_guard_necessary", "C15_with_text_not_equivariant", "C15_with_equivariant",
    "C15_with_text_equivariant_partial")]
_LEAN_READY = os.path.exists(os.path.join(VERIF, "lean", "DAVerif", "Props", "C15.lean")) and \
    "DAVerif.Props.C15" in open(os.path.join(VERIF, "lean", "DAVerif.lean")).read()
LEAN_MODULES = list(_PLANNED_LEAN_MODULES) if _LEAN_READY else []
THEOREMS = list(_PLANNED_THEOREMS) if _LEAN_READY else []

ASSUMPTIONS = [
    "the relational model `sem` (lean/DAVerif/Sem/Eval.lean) is the Pandas executor and `toNearSql` is the SQL "
    "generator's NearSQL skeleton: tied on every run by k4_sem / k5_near executed on RENAMED pipelines (random injective "
    "renamings to unusual, non-reserved names incl. permutations of the pipeline's own names), 0 differences",
    "the base correspondence k4_sem / k5_near is the business of the properties that own those suites; C15 relies on it "
    "and checks that renaming does not break it: a difference between code and model on a renamed case that is there in "
    "exactly the same way on the un-renamed case (code and model each equivariant on the pair) is counted in the evidence "
    "as a base suite gap and printed on a NOTE line, not held against C15",
    "the executor model has no scratch columns: the captures by scratch columns (D23) are outside the model; they are "
    "found by the oracle on the real code and recorded as a known finding under the guard NoReserved (DAVerif.NoReserved, "
    "lean/DAVerif/Spec/Rename.lean)",
    "the capture of a user table by a common table expression of the WITH form (D24) is modelled at text level "
    "(semWithText, lean/DAVerif/Spec/WithText.lean: CTE names shadow base tables) with a _partial theorem under the "
    "decidable guard CteNamesFree and a kernel-checked counterexample (= corpus/C15/d24_cte_captures_other_table.json); "
    "that text-level semantics is not tied to an SQL engine by a correspondence suite - its tie to the code is the "
    "guard (suite c15_guard compares CteNamesFree with the CTE names in the real generator's text) and the corpus "
    "witnesses run on SQLite by the oracle",
    "renamings are injective up to ASCII case: SQLite (like most SQL engines) treats `a` and `A` as one identifier even "
    "when quoted, before data_algebra is involved",
    "names are identifiers the expression parser accepts (no Python keywords); quoting of arbitrary name strings is C14",
]
NOT_PROVEN = [
    "Pandas / Polars scratch columns and the WITH-form SQL text (oracle only; known findings D23, D24 under NoReserved)",
    "SQLite / PostgreSQL-dialect / Polars executions under renaming (oracle only)",
]
LEVEL_TEXT = ("Kernel-checked for every pipeline, environment and injective renaming of columns and tables: the executor "
              "model `sem`, the declared columns, the builders' accept/reject decision, the NearSQL skeleton and the "
              "nested-form SQL semantics commute with the renaming (the result is the renamed result, nothing else "
              "changes). The models are tied to pandas_base.py / sql_model.py by differential execution on renamed "
              "random pipelines. The real executors' scratch columns are not in the model, and the WITH form's generated "
              "query names capture user tables: there the property FAILS for names in the reserved set (known findings "
              "D23, D24, guard NoReserved; for D24 also a partial theorem under the guard CteNamesFree with a "
              "kernel-checked necessity witness), which the metamorphic oracle re-finds on every run and separates "
              "from any other failure.")
LEVEL_NOTE = ("Trusted: Lean kernel; axioms propext/Classical.choice/Quot.sound; the hand-written models `sem` / "
              "`toNearSql` (validated by k4_sem_renamed / k5_near_renamed on every run); the reserved set of "
              "lean/DAVerif/Spec/Rename.lean mirrors harness/oracles.py (is_reserved_col / is_reserved_table) and was "
              "confirmed family by family on the real code (notes/C15_design.md).")
RULE = ("random type-directed pipelines (pipes.gen_case) on random small tables, each RENAMED by a random injective "
        "renaming of all tables and columns (permutations/swaps of the pipeline's own names, upper-case / digit / "
        "underscore names, SQL-keyword-like and pandas-attribute-like names, table names equal to column names); executed "
        "on Pandas vs the model (k4_sem) and through the SQL generator vs the model (k5_near); every n-th case is judged "
        "by oracle_C15: further random injective renamings, half with targets from the reserved set, result must be the "
        "renamed result on Pandas, SQLite, PostgreSQL-dialect-on-SQLite and Polars; non-trivial = at least one result "
        "row (k4) / a non-table NearSQL (k5)")

# ------------------------------------------------------------------------------------------------
# unusual, NOT reserved target names
# ------------------------------------------------------------------------------------------------

_UNUSUAL_COLUMNS = [
    "X", "Y1", "G", "K9", "Col_2", "colA", "x_1", "x__y", "_x", "__v", "v_", "a1b2", "N", "ZZ",
    # look like SQL keywords / functions (always quoted by the generator)
    "select", "where", "group", "order", "table", "join", "union", "limit", "by", "null", "case", "when", "end",
    "desc", "over", "partition", "rows", "all", "distinct", "exists", "like", "user", "values", "key", "index",
    # look like DataFrame attributes / builtins / DSL method names
    "size", "count", "shape", "T", "columns", "name", "sum", "max", "min", "mean", "len", "abs", "id", "type",
    "items", "keys", "copy", "loc", "rank", "level_0", "source_name",
    # names of the usual tables / SQL aliases
    "d", "e", "f", "a", "b", "t", "left", "right",
]
_UNUSUAL_TABLES = ["D", "E1", "Tab_2", "t", "tbl", "x", "g", "k", "data", "select", "table", "order", "group", "index",
                   "values", "left", "right", "a", "b", "table_values", "main", "temp", "d2", "e_", "_d"]
_BAD = set(keyword.kwlist) | set(getattr(keyword, "softkwlist", [])) | {"_"}


def _ok_name(n, is_table):
    if n in _BAD or not re.fullmatch(r"[A-Za-z_][A-Za-z0-9_]*", n):
        return False
    return not (oracles.is_reserved_table(n) if is_table else oracles.is_reserved_col(n))


def _expr_identifiers(case):
    out = set()
    for s in pipes.pipe_steps(case["pipe"]):
        texts = [v for _, v in (s.get("ops") or [])] + ([s["expr"]] if "expr" in s else [])
        for t in texts:
            t = re.sub(r"'(?:[^'\\]|\\.)*'|\"(?:[^\"\\]|\\.)*\"", " ", str(t))
            out.update(re.findall(r"[A-Za-z_][A-Za-z0-9_]*", t))
    return out


def unusual_renaming(case, r):
    """(column map, table map, mode): a random injective (up to case) renaming of every column / table name of the
    case to unusual but not reserved names"""
    cols = oracles._all_columns(case)
    tabs = sorted(case["tables"])
    other = _expr_identifiers(case) - set(cols)  # method names, literals' words: never a target (rename_expr is textual)
    mode = r.choice(["perm", "perm", "fresh", "fresh", "fresh", "mixed"])
    cm = {}
    if mode == "perm" and len(cols) > 1:
        sh = list(cols)
        r.shuffle(sh)
        cm = dict(zip(cols, sh))
    else:
        pool = [n for n in _UNUSUAL_COLUMNS if _ok_name(n, False) and n not in other]
        r.shuffle(pool)
        keep = set()
        if mode == "mixed" and len(cols) > 2:
            i, j = r.sample(range(len(cols)), 2)
            cm[cols[i]], cm[cols[j]] = cols[j], cols[i]
            keep = {cols[i], cols[j]}
        used = {c.lower() for c in keep}
        for c in cols:
            if c in keep:
                continue
            k = r.random()
            if k < 0.15:
                new = c.upper()
            elif k < 0.25:
                new = c + "_" + str(r.randint(0, 9))
            else:
                new = pool.pop() if pool else "q_" + c
            # distinct up to case from every other name of the renamed case, old names that are kept included
            while new.lower() in used or not _ok_name(new, False) or new in other:
                new = new + "_" + str(r.randint(0, 9))
            used.add(new.lower())
            cm[c] = new
    tm = {}
    if len(tabs) > 1 and r.random() < 0.4:
        sh = list(tabs)
        r.shuffle(sh)
        tm = dict(zip(tabs, sh))
    else:
        pool = [n for n in _UNUSUAL_TABLES + cols[:3] if _ok_name(n, True)]
        r.shuffle(pool)
        used = set()
        for t in tabs:
            new = pool.pop() if (pool and r.random() < 0.8) else t.upper()
            while new.lower() in used or not _ok_name(new, True):
                new = new + "_" + str(r.randint(0, 9))
            used.add(new.lower())
            tm[t] = new
    return cm, tm, mode


def renamed_case(case, cm, tm):
    """the case renamed by (cm, tm); it carries the un-renamed case (`_orig`) and the renaming (`_ren`) so that a
    difference between code and model on it can be told apart from one that is there without any renaming"""
    rc = oracles.rename_case(case, cm, tm)
    out = {k: v for k, v in case.items() if k not in ("tables", "pipe", "meta", "_orig", "_ren")}
    out["tables"], out["pipe"] = rc["tables"], rc["pipe"]
    out["_orig"] = {"tables": case["tables"], "pipe": case["pipe"]}
    out["_ren"] = {"c": sorted([k, v] for k, v in cm.items() if k != v), "t": sorted([k, v] for k, v in tm.items() if k != v)}
    return out


def rename_unusual(case, r, stats=None):
    cm, tm, mode = unusual_renaming(case, r)
    rc = renamed_case(case, cm, tm)
    # the renaming must be injective on the names of the case (a harness bug otherwise, never a finding)
    assert len(set(cm.values())) == len(cm) and len({v.lower() for v in tm.values()}) == len(tm), (cm, tm)
    assert len(oracles._all_columns(rc)) == len(oracles._all_columns(case)), (cm, tm)
    out = rc
    if case.get("meta") is not None:
        out["meta"] = case["meta"]
    if stats is not None:
        stats["renaming:" + mode] = stats.get("renaming:" + mode, 0) + 1
        if any(v in tm for v in tm.values()):
            stats["renaming:tables permuted"] = stats.get("renaming:tables permuted", 0) + 1
    return out


# ------------------------------------------------------------------------------------------------
# role templates: every name of the generators' small pools is put on the columns of fixed small pipelines
# ------------------------------------------------------------------------------------------------
# A hard-coded name in the code (`if c == "k"`) shows only when THAT name sits on a column in THAT role (coalesced
# column of a join, a column an order_rows does not sort by, ...).  Random renaming meets such a pair rarely, so a
# deterministic stream does it systematically: for each template and each pool name, the name is given to one column
# (quick: a random one; thorough: each in turn; when the name is already in use the two are swapped).

def _T(cols, kinds, rows):
    return pipes.mk_table(cols, kinds, rows)


def _ext(ops, partition_by=None, order_by=None, reverse=None):
    return {"call": "extend", "ops": [list(o) for o in ops], "partition_by": partition_by, "order_by": order_by,
            "reverse": reverse}


def _templates():
    d3 = _T(["g", "x", "i", "y"], ["str", "int", "int", "float"],
            [["a", 3, 1, 0.5], ["a", 1, 2, None], ["b", 2, 3, 1.5], [None, 5, 4, 2.5], ["b", None, 5, 0.5]])
    dk = _T(["k", "v", "w"], ["int", "float", "float"], [[1, None, 7.0], [2, 20.0, 8.0], [3, None, None]])
    ek = _T(["k", "v"], ["int", "float"], [[1, 100.0], [2, 200.0], [4, 400.0]])
    ej = _T(["j", "v", "u"], ["int", "float", "str"], [[1, 100.0, "p"], [2, 200.0, "q"], [4, None, "r"]])
    tab = lambda name, *steps: {"table": name, "steps": list(steps)}
    join = lambda b, on, jt: {"call": "natural_join", "b": b, "on": on, "jointype": jt, "check": False}
    order = lambda cols, reverse=None, limit=None: {"call": "order_rows", "cols": cols, "reverse": reverse, "limit": limit}
    out = []
    for jt in ("left", "inner", "full", "right"):
        out.append({"tables": {"d": dk, "e": ek}, "pipe": tab("d", join(tab("e"), ["k"], jt))})
    out.append({"tables": {"d": dk, "e": ej}, "pipe": tab("d", join(tab("e"), [["k", "j"]], "left"))})
    out.append({"tables": {"d": dk, "e": ej}, "pipe": tab("d", join(tab("e", {"call": "select_columns", "cols": ["u"]}), [], "cross"))})
    out.append({"tables": {"d": d3}, "pipe": tab("d", order(["i"], None, 2))})
    out.append({"tables": {"d": d3}, "pipe": tab("d", order(["y", "i"], ["i"], 3), _ext([["z", "x + i"]]))})
    out.append({"tables": {"d": d3}, "pipe": tab("d", {"call": "select_rows", "expr": "i > 1"}, order(["x", "i"], ["x"]))})
    out.append({"tables": {"d": d3}, "pipe": tab("d", {"call": "project", "ops": [["s", "x.sum()"], ["m", "y.max()"], ["n", "_size()"]], "group_by": ["g"]})})
    out.append({"tables": {"d": d3}, "pipe": tab("d", {"call": "project", "ops": [["s", "y.mean()"]], "group_by": []})})
    out.append({"tables": {"d": d3}, "pipe": tab("d", _ext([["c", "x.cumsum()"], ["r", "_row_number()"]], ["g"], ["i"]))})
    out.append({"tables": {"d": d3}, "pipe": tab("d", _ext([["t", "y.sum()"], ["n", "_size()"]], ["g"]), _ext([["q", "t / n"]]))})
    out.append({"tables": {"d": d3}, "pipe": tab("d", _ext([["r", "_row_number()"]], None, ["i"], ["i"]))})
    out.append({"tables": {"d": d3}, "pipe": tab("d", _ext([["x", "x + 1"], ["z", "y.coalesce(0) * 2"]]), {"call": "drop_columns", "cols": ["y"]})})
    out.append({"tables": {"d": d3}, "pipe": tab("d", {"call": "rename_columns", "map": [["x2", "x"], ["x", "i"]]}, {"call": "select_columns", "cols": ["x", "g", "x2"]})})
    out.append({"tables": {"d": d3}, "pipe": tab("d", {"call": "map_columns", "map": [["x", "i"], ["i", "x"]]}, {"call": "select_rows", "expr": "x >= 2"})})
    out.append({"tables": {"d": dk, "e": ek}, "pipe": tab("d", {"call": "select_columns", "cols": ["k", "v"]},
                                                         {"call": "concat_rows", "b": tab("e"), "id_column": "src", "a_name": "a", "b_name": "b"})})
    return out


ROLE_NAMES = list(dict.fromkeys([n for n, _ in pipes.SCHEMA_POOL] + list(pipes.FRESH_NAMES)
                                + ["d", "e", "a", "X", "K", "index", "key", "on", "by", "left", "right", "value"]))


def role_cases(rng, tier, stats=None, quick_share=0.4, all_roles=True):
    """thorough: every template x every name x every column (one random column when not all_roles); quick: a random
    `quick_share` of the (template, name) pairs, one random column each"""
    for t in _templates():
        cols = oracles._all_columns(t)
        other = _expr_identifiers(t) - set(cols)
        for n in ROLE_NAMES:
            if n in other or not _ok_name(n, False) or any(n.lower() == c.lower() and n != c for c in cols):
                continue
            if tier != "thorough" and rng.random() >= quick_share:
                continue
            for c in (cols if (tier == "thorough" and all_roles) else [rng.choice(cols)]):
                if c == n:
                    continue
                cm = {c: n}
                if n in cols:
                    cm[n] = c
                if stats is not None:
                    stats["renaming:role template"] = stats.get("renaming:role template", 0) + 1
                yield renamed_case(t, cm, {})


# ------------------------------------------------------------------------------------------------
# suites
# ------------------------------------------------------------------------------------------------

MAX_EST_ROWS = pipes.MAX_EST_ROWS


def est_rows(case):
    """static upper estimate of the largest intermediate row count of a pipeline: a join multiplies (keys come from
    pools of 3 values, so a keyed join is taken as a third of the product), a concat adds.  Pipelines beyond
    MAX_EST_ROWS are skipped by the renamed suites: the executable model (exact rationals, list-based frames) needs
    minutes on a chain of many-to-many joins of 20-row tables, and the size of a table has nothing to do with names."""
    defs, worst = {}, [0]

    def go(p):
        if "ref" in p and "steps" not in p and "table" not in p and "src" not in p:
            return defs.get(p["ref"], 1)
        n = len(case["tables"][p["table"]]["rows"]) if "table" in p else go(p["src"])
        for st in p.get("steps", []):
            if st["call"] == "natural_join":
                m = go(st["b"])
                keyed = bool(st.get("on")) and st["jointype"] != "cross"
                n = max(n, m, (n * m) // (3 if keyed else 1))
            elif st["call"] == "concat_rows":
                n = n + go(st["b"])
            worst[0] = max(worst[0], n)
        if "def" in p:
            defs[p["def"]] = n
        worst[0] = max(worst[0], n)
        return n

    go(case["pipe"])
    return worst[0]


def gen_base_cases(suite, rng, tier, n):
    """the base suite's generator loop (pipes.gen_case with the suite's options), robust against the rare IndexError of
    pipes.step_natural_join (no fresh name left): such a draw is counted and skipped"""
    for _ in range(n):
        try:
            case = pipes.gen_case(random.Random(rng.getrandbits(64)), tier, **suite.opts)
        except Exception as e:
            k = "generator raised " + type(e).__name__ + " (case skipped)"
            suite.distribution[k] = suite.distribution.get(k, 0) + 1
            continue
        for c in case["meta"].get("calls", []):
            suite.distribution[c] = suite.distribution.get(c, 0) + 1
        yield {"tables": case["tables"], "pipe": case["pipe"]}


def _judged(case, i, every):
    """the oracle is expensive (about 0.3 s a case): every `every`-th generated case is marked `_always` and judged; the
    mark is part of the case, so shrinking and `--replay` judge exactly the cases the run judged (propkit's own
    `every` counter would not reproduce on replay)"""
    return dict(case, _always=True) if i % every == 0 else case


def _corpus(suite_name):
    out = []
    for p in sorted(glob.glob(os.path.join(VERIF, "corpus", "C15", "*.json"))):
        o = json.load(open(p))
        if o.get("suite") == suite_name:
            out.append(dict(o["case"], _always=True))
    return out


MAX_GAP_EVALS = 25
GAP = "base suite gap (code and model differ without any renaming; not a C15 break)"


class _RenamedCorr:
    """Correspondence on a renamed case.  C15 relies on the base correspondence (k4_sem / k5_near, owned by the
    properties those suites belong to) and checks that RENAMING does not break it: when code and model differ on the
    renamed case, the un-renamed case is evaluated the same way; the difference is a C15 correspondence break unless
    code and model differ there too AND each side by itself is equivariant on this pair (code(renamed) = renamed
    code(original), model(renamed) = renamed model(original)) - then the gap has nothing to do with names: it is counted
    (distribution[GAP], first witness kept in the evidence), reported on one NOTE line, and not held against C15."""

    def real_canon(self, out, case=None):
        self._cur = case
        return super().real_canon(out, case)

    def agree(self, real_c, model_c):
        if super().agree(real_c, model_c):
            return True
        case = getattr(self, "_cur", None)
        try:
            gap = self._base_gap(case, real_c, model_c)
        except Infra:
            raise
        except Exception:
            gap = False
        self._cur = case
        return gap

    def _rename_outcome(self, out, cm, tm):
        raise NotImplementedError

    def _same_side(self, a, b):
        raise NotImplementedError

    def _base_gap(self, case, real_c, model_c):
        if not isinstance(case, dict) or "_orig" not in case:
            return False
        # every evaluation costs a driver process: beyond MAX_GAP_EVALS differences the base correspondence itself is
        # evidently broken (e.g. the model is behind the code) and C15, which relies on it, reports the differences
        self._gap_evals = getattr(self, "_gap_evals", 0) + 1
        if self._gap_evals > MAX_GAP_EVALS:
            return False
        orig = dict({k: v for k, v in case.items() if k not in ("tables", "pipe", "_orig", "_ren", "_always")}, **case["_orig"])
        cm, tm = dict(map(tuple, case["_ren"]["c"])), dict(map(tuple, case["_ren"]["t"]))
        r0 = safe_real(self, orig)
        m0 = Driver().run(self.driver_suite, [self.driver_case(orig)])[0]
        if "bad" in m0:
            return False
        mc0 = self.model_canon(m0["out"], orig)
        rc0 = super().real_canon(r0, orig)
        if super().agree(rc0, mc0):
            return False          # the original agrees: the difference came with the renaming
        if not (self._same_side(self._rename_outcome(rc0, cm, tm), real_c)
                and self._same_side(self._rename_outcome(mc0, cm, tm), model_c)):
            return False          # code or model is not equivariant here
        d = self.distribution
        d[GAP] = d.get(GAP, 0) + 1
        if GAP + " - first witness" not in d:
            d[GAP + " - first witness"] = json.dumps({"case": orig, "code": rc0, "model": mc0}, sort_keys=True)[:3000]
            print(f"NOTE: property=C15 base suite {self.driver_suite}: code and model differ on a case independently of its "
                  f"names (same difference before and after renaming); counted in the evidence, not a C15 break", flush=True)
        return True

    def shrink(self, case):
        """shrink the un-renamed case and rename the candidates (keeps `_orig` true); corpus witnesses as they are"""
        extra = {k: v for k, v in case.items() if k not in ("tables", "pipe", "_orig", "_ren")}
        if "_orig" not in case:
            for c in pipes.shrink_case(case):
                yield dict(extra, tables=c["tables"], pipe=c["pipe"])
            return
        cm, tm = dict(map(tuple, case["_ren"]["c"])), dict(map(tuple, case["_ren"]["t"]))
        for c in pipes.shrink_case(case["_orig"]):
            yield dict(extra, **renamed_case({"tables": c["tables"], "pipe": c["pipe"]}, cm, tm))


def _rename_skel(s, cm, tm):
    if not isinstance(s, dict):
        return s
    rc = lambda c: cm.get(c, c)
    out = {}
    for k, v in s.items():
        if k == "name" and s.get("cls") == "table":
            out[k] = tm.get(v, v)
        elif k == "terms" and isinstance(v, list):
            out[k] = [([rc(x[0])] + list(x[1:])) if isinstance(x, list) else rc(x) for x in v]
        elif k in ("sub_cols", "l_cols", "r_cols", "cols") and isinstance(v, list):
            out[k] = [rc(c) for c in v]
        elif k in ("sub", "l", "r"):
            out[k] = _rename_skel(v, cm, tm)
        else:
            out[k] = v
    return out


class K4SemRenamed(_RenamedCorr, K4Sem):
    """k4_sem (Pandas executor vs `sem`) on renamed pipelines"""
    name = "k4_sem_renamed"
    driver_suite = "k4_sem"

    def _rename_outcome(self, out, cm, tm):
        if isinstance(out, dict) and "ok" in out:
            return dict(out, ok=dict(out["ok"], cols=[cm.get(c, c) for c in out["ok"]["cols"]]))
        return out

    def _same_side(self, a, b):
        if isinstance(a, dict) and isinstance(b, dict) and "ok" in a and "ok" in b:
            return K4Sem.agree(self, a, b)
        return canon_json(a) == canon_json(b)

    n_quick, n_thorough = 140, 1300
    judge_every = 5

    def gen(self, rng, tier):
        yield from role_cases(random.Random(rng.getrandbits(64)), tier, self.distribution)
        exhaustive = 0
        n = self.n_quick if tier == "quick" else self.n_thorough
        for i, c in enumerate(gen_base_cases(self, rng, tier, n), 1):
            if est_rows(c) > MAX_EST_ROWS:
                self.distribution["skipped: estimated intermediate rows > %d" % MAX_EST_ROWS] = \
                    self.distribution.get("skipped: estimated intermediate rows > %d" % MAX_EST_ROWS, 0) + 1
                continue
            yield _judged(rename_unusual(c, random.Random(rng.getrandbits(64)), self.distribution), i, self.judge_every)
            # thorough: small-scope exhaustive part - EVERY permutation of the column names of the first 60 pipelines
            # that mention at most 4 names (a permutation of the pipeline's own names is an injective renaming)
            cols = oracles._all_columns(c)
            if tier == "thorough" and exhaustive < 60 and 2 <= len(cols) <= 4:
                exhaustive += 1
                for perm in itertools.permutations(cols):
                    if list(perm) != cols:
                        self.distribution["renaming:exhaustive permutation"] = \
                            self.distribution.get("renaming:exhaustive permutation", 0) + 1
                        yield renamed_case(c, dict(zip(cols, perm)), {})

    def corpus(self):
        return _corpus(self.name)


class K5NearRenamed(_RenamedCorr, K5Near):
    """k5_near (NearSQL skeleton of the real generator vs `toNearSql`) on renamed pipelines; tables keep their rows so
    that the oracle has data to run on"""
    name = "k5_near_renamed"
    driver_suite = "k5_near"
    n_quick, n_thorough = 120, 1300
    judge_every = 12

    def _rename_outcome(self, out, cm, tm):
        if isinstance(out, dict) and "ok" in out:
            return {"ok": canon_skel(_rename_skel(out["ok"], cm, tm))}
        return out

    def _same_side(self, a, b):
        return canon_json(a) == canon_json(b)

    def gen(self, rng, tier):
        for j, c in enumerate(role_cases(random.Random(rng.getrandbits(64)), tier, self.distribution, 0.15, False)):
            yield dict(c, dialect=self.dialects[j % len(self.dialects)], merges=(j % 3 != 0))
        n = self.n_quick if tier == "quick" else self.n_thorough
        for i, case in enumerate(gen_base_cases(self, rng, tier, n)):
            c = {"tables": case["tables"], "pipe": case["pipe"], "dialect": self.dialects[i % len(self.dialects)],
                 "merges": rng.random() < 0.75}
            if (i + 1) % self.judge_every == 0 and est_rows(c) > MAX_EST_ROWS:
                c["tables"] = {k: dict(t, rows=t["rows"][:4]) for k, t in c["tables"].items()}  # judged on data: keep it small
            yield _judged(rename_unusual(c, random.Random(rng.getrandbits(64)), self.distribution), i + 1, self.judge_every)

    def corpus(self):
        return _corpus(self.name)


class C15Reserved(Suite):
    """the reserved-name classification used for the attribution of findings (oracles.is_reserved_col /
    is_reserved_table) vs the one the guard NoReserved is built from (Reserved.isReservedCol / isReservedTable of
    lean/DAVerif/Spec/Rename.lean, driver suite c15_reserved)"""
    name = "c15_reserved"
    n_quick, n_thorough = 300, 3000

    def __init__(self):
        self.distribution = {}

    def _name(self, r):
        O = oracles
        stems = ["x", "g", "k", "v", "col", "a_b", "", "X1", "extend", "_da", "data_algebra"]
        kind = r.choice(["exact", "numbered", "numbered", "suffix", "suffix", "table", "table", "near", "near", "plain"])
        self.distribution[kind] = self.distribution.get(kind, 0) + 1
        digits = lambda: r.choice(["", "0", "1", "7", "12", "007", "123", "0a", "a0", "1_", "_1", " 1", "-1", "\uff11", "\u00b2"])
        if kind == "exact":
            n = r.choice(O.RESERVED_EXACT_COLUMNS + O.RESERVED_COLUMNS + O.RESERVED_TABLES)
        elif kind == "numbered":
            n = r.choice(O.RESERVED_COLUMN_PREFIXES) + digits()
        elif kind == "table":
            n = r.choice(O.RESERVED_TABLE_PREFIXES) + digits()
        elif kind == "suffix":
            n = r.choice(stems) + r.choice(O.RESERVED_SUFFIXES) + r.choice(["", "", "", "x", "_", "0"])
        elif kind == "plain":
            n = r.choice(stems + _UNUSUAL_COLUMNS + _UNUSUAL_TABLES)
        else:
            n = r.choice(O.RESERVED_EXACT_COLUMNS + [p + "0" for p in O.RESERVED_COLUMN_PREFIXES + O.RESERVED_TABLE_PREFIXES]
                         + ["v" + x for x in O.RESERVED_SUFFIXES])
            i = r.randrange(len(n))
            n = r.choice([n[:i] + n[i + 1:], n[:i] + r.choice("_x0") + n[i:], n.upper(), n.capitalize(), n + " ", " " + n,
                          n[:i] + n[i].upper() + n[i + 1:], n + n[-1]])
        return n

    def gen(self, rng, tier):
        for _ in range(self.n_quick if tier == "quick" else self.n_thorough):
            r = random.Random(rng.getrandbits(64))
            yield {"cols": [self._name(r) for _ in range(8)], "tabs": [self._name(r) for _ in range(4)]}
        # every name of the lists once, as column and as table
        allnames = (oracles.RESERVED_EXACT_COLUMNS + oracles.RESERVED_COLUMNS + oracles.RESERVED_TABLES
                    + oracles.RESERVED_COLUMN_PREFIXES + oracles.RESERVED_TABLE_PREFIXES + oracles.RESERVED_SUFFIXES
                    + [p + "3" for p in oracles.RESERVED_COLUMN_PREFIXES + oracles.RESERVED_TABLE_PREFIXES]
                    + [b + x for x in oracles.RESERVED_SUFFIXES for b in ("v", "")]
                    + [pat + ("0" if how == "prefix" else "") if how != "suffix" else "c" + pat
                       for _, how, pat, _ in oracles.C15_SCRATCH] + [p + "0" for p in oracles.C15_CTE_PREFIXES])
        yield {"cols": allnames, "tabs": allnames}

    def real(self, case):
        return {"cols": [oracles.is_reserved_col(c) for c in case["cols"]],
                "tabs": [oracles.is_reserved_table(t) for t in case["tabs"]]}

    def nontrivial(self, case, real_out):
        return any(real_out["cols"]) or any(real_out["tabs"])


class C15Guard(K4Sem):
    """the guard of the known findings evaluated on (pipeline, inputs, renaming): Python (the names the oracle renames,
    oracles._all_columns, classified by is_reserved_*) vs `NoReserved` / `NoReservedTables` / injectivity on the names
    involved computed by the Lean definitions (driver suite c15_guard); renamings as the oracle draws them (half with
    reserved targets), a fifth deliberately not injective"""
    name = "c15_guard"
    n_quick, n_thorough = 80, 1200

    def gen(self, rng, tier):
        for c in gen_base_cases(self, rng, tier, self.n_quick if tier == "quick" else self.n_thorough):
            if est_rows(c) > MAX_EST_ROWS:
                continue
            r = random.Random(rng.getrandbits(64))
            cols, tabs = oracles._all_columns(c), sorted(c["tables"])
            pool = list(oracles.RESERVED_COLUMNS) + [x + sfx for x in cols[:2] for sfx in oracles.RESERVED_SUFFIXES]
            reserved = r.random() < 0.5
            cm = {x: (r.choice(pool) if reserved and r.random() < 0.3 else "c_%s_%d" % (x, r.randint(0, 9))) for x in cols}
            tm = {t: (r.choice(oracles.RESERVED_TABLES) if reserved and r.random() < 0.4 else "tab_" + t) for t in tabs}
            if r.random() < 0.35:
                # aim at the WITH-form guard: a table takes the name of a common table expression the real generator
                # emits for this pipeline
                try:
                    with warnings.catch_warnings():
                        warnings.simplefilter("ignore")
                        sql = pipes.L.SQLite.SQLiteModel().to_sql(self._build(c), sql_format_options=pipes._fmt_options(None))
                    ctes = re.findall(r'"(\w+_\d+)"\s+AS\s+\(', sql)
                    if ctes:
                        tm[r.choice(sorted(pipes._used_tables(c["pipe"], set())))] = r.choice(ctes)
                except Exception:
                    pass
            if r.random() < 0.2 and len(cols) > 1:
                a, b = r.sample(cols, 2)
                cm[a] = cm[b]
            if r.random() < 0.1 and len(tabs) > 1:
                tm[tabs[0]] = tm[tabs[1]]
            yield {"tables": c["tables"], "pipe": c["pipe"], "cmap": sorted(cm.items()), "tmap": sorted(tm.items())}

    def real(self, case):
        try:
            self._build(case)
        except Exception as e:
            return {"build_err": type(e).__name__}
        cm, tm = dict(map(tuple, case["cmap"])), dict(map(tuple, case["tmap"]))
        cols, tabs = oracles._all_columns(case), sorted(case["tables"])
        nrt = all(not oracles.is_reserved_table(tm.get(t, t)) for t in tabs)
        # the guard of the WITH-form theorem (CteNamesFree, lean/DAVerif/Spec/WithText.lean) for the renamed pipeline: no
        # base table it reads is named like a common table expression of the SQL text the REAL generator emits for it
        # (both dialects).  This is the oracle's D24 attribution rule (oracles.c15_captured_tables).
        free = None
        if len({cm.get(c, c) for c in cols}) == len(cols) and len({tm.get(t, t) for t in tabs}) == len(tabs):
            rc = oracles.rename_case(case, cm, tm)
            try:
                ops = self._build(rc)
                used = sorted(pipes._used_tables(rc["pipe"], set()))
                free = not (oracles.c15_captured_tables("sqlite", used, ops) or oracles.c15_captured_tables("pg", used, ops))
            except Exception:
                free = None
        return {"no_reserved": nrt and all(not oracles.is_reserved_col(cm.get(c, c)) for c in cols),
                "cte_names_free": free,
                "no_reserved_tables": nrt,
                "inj_cols": len({cm.get(c, c) for c in cols}) == len(cols),
                "inj_tabs": len({tm.get(t, t) for t in tabs}) == len(tabs)}

    def driver_case(self, case):
        d = super().driver_case(case)
        return dict(d, cmap=[list(p) for p in case["cmap"]], tmap=[list(p) for p in case["tmap"]])

    def real_canon(self, out, case=None):
        return out

    def model_canon(self, out, case=None):
        return out

    def agree(self, real_c, model_c):
        if isinstance(real_c, dict) and "build_err" in real_c:
            return True
        if isinstance(real_c, dict) and isinstance(model_c, dict) and real_c.get("cte_names_free") is None:
            # renaming not injective (the renamed pipeline is not a pipeline) : the WITH-form guard is not compared
            real_c = {k: v for k, v in real_c.items() if k != "cte_names_free"}
            model_c = {k: v for k, v in model_c.items() if k != "cte_names_free"}
        return Suite.agree(self, real_c, model_c)

    def nontrivial(self, case, real_out):
        return isinstance(real_out, dict) and (real_out.get("no_reserved") is False or real_out.get("cte_names_free") is False)

    def shrink(self, case):
        extra = {k: v for k, v in case.items() if k not in ("tables", "pipe")}
        for c in pipes.shrink_case(case):
            yield dict(extra, tables=c["tables"], pipe=c["pipe"])


def _oracle(case, **opts):
    """oracle_C15 with a per-case seed (so that a replay file reproduces) and, for corpus witnesses, the renaming the
    witness carries in case["force"]"""
    o = dict(opts)
    o["seed"] = zlib.crc32(_sig(case).encode())
    f = case.get("force")
    if f:
        o.update(force_columns=f.get("columns") or {}, force_tables=f.get("tables") or {}, renamings=1)
    return oracles.oracle_C15(case, **o)


def _finding_of(case, real_out, why):
    """the finding id the oracle attributed THIS failure to, read from the failure text (`[known <id>]` before the
    first colon, see oracle_C15); None = unattributed"""
    m = re.match(r"[^:]*\[known ([^\]]+)\]", why or "")
    return m.group(1) if m else None


def _suite(base, **kw):
    s = with_oracle(base, _oracle, **kw)
    s.finding = _finding_of   # propkit keys its memo by pipe+tables only; two witnesses may share those
    return s


# only cases marked `_always` (corpus witnesses, every judge_every-th generated case, their shrinks) are judged
_MARKED_ONLY = 10 ** 9
SUITES = [
    _suite(K4SemRenamed, name="k4_sem_renamed", every=_MARKED_ONLY, oracle_opts={"renamings": 2}),
    _suite(K5NearRenamed, name="k5_near_renamed", every=_MARKED_ONLY,
                oracle_opts={"backends": ("sqlite", "pg"), "renamings": 2, "reserved_only": True}),
]
if _LEAN_READY:  # driver suites of lean/DAVerif/Drv/Rename.lean
    SUITES += [C15Reserved(), C15Guard()]
