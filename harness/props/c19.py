"""C19 — Evaluation never modifies the caller's tables and is repeatable."""
import copy
import json
import math
import os
import random
import subprocess
import sys
import warnings

from .. import oracles
from .. import pipes as P
from ..core import Suite, VERIF, canon_json, Infra
from ..propkit import with_oracle
from . import c19_trace as T

PROPERTY = "C19"
LEAN_MODULES = ["DAVerif.Props.C19"]
THEOREMS = ["DAVerif.Own." + t for t in (
    "C19_writes_fresh", "C19_inputs_unchanged", "C19_result_fresh", "C19_result_mutation_isolated",
    "C19_entry_points", "C19_deterministic", "C19_unpatched_project_order_dependent", "C19_repeatable")]
ASSUMPTIONS = [
    "the code under check carries fixes/c19-project-empty-group-order.diff (_project_step added the missing group columns "
    "of an empty grouped result by iterating a Python set, so the column order of the result depended on PYTHONHASHSEED); "
    "the model is of the patched code",
    "the allocate-or-write-in-place classification of every pandas call in pandas_base.py (lean/DAVerif/Heap/Own.lean) is "
    "the code's: tied by suite `own` on every run (pandas' in-place entry points wrapped from outside, frames returned by "
    "every step recorded) on random pipelines, entry points and inputs",
    "pandas >= 3 copy-on-write: a new DataFrame OBJECT (df.loc[:, cols], reset_index(inplace=False), res[cols], rename, "
    "drop(inplace=False), merge, concat, sort_values(inplace=False)) never propagates a later write to the object it was "
    "made from; this is runtime behaviour of pandas, validated by the deep-snapshot oracle, not proved",
    "data-dependent facts (row counts, number of groups, where a step raises) are hints of the model; the theorems "
    "quantify over all of them",
    "Polars executor: not modelled (Polars frames are immutable values; the executor only calls expression methods); "
    "covered by the oracle only",
]
NOT_PROVEN = [
    "memory aliasing inside pandas / Polars (views, copy-on-write, Arrow buffers) is runtime behaviour: the theorems are "
    "about the repository's own ownership discipline (which frame object every in-place write targets, which object "
    "every step returns); that a write to a fresh object cannot reach the caller's data is sampled by the deep-snapshot "
    "oracle on every run",
    "Series-level in-place writes inside expression evaluation (`_map_v`, `_if_else_expr`) target freshly built "
    "Series / arrays; not part of the frame heap model (oracle only)",
    "repeatability across processes with a different PYTHONHASHSEED is sampled (oracle); in the model every Python "
    "`set` iteration order is a parameter and C19_deterministic covers all of them",
    "Polars eager / lazy inputs (oracle only)",
]
LEVEL_TEXT = ("Kernel-checked for every pipeline, data map, heap of caller frames, set-iteration order, row-count / "
              "group-count hint and every place a step may raise: every in-place write of the Pandas executor targets a "
              "frame object allocated during that run (the frame a source step returned, or a frame the step created), "
              "never a frame of the caller; the caller's frames are unchanged; the returned frame is a new object, so "
              "writing to it cannot change an input; eval / transform / ex / act_on (>>) all inherit this; a second "
              "evaluation on the same inputs returns a frame with the same description; the result, the ids written and "
              "the returned id do not depend on the iteration order of any Python set (on the patched code; the unpatched "
              "project step is proved order-dependent). The model's per-step "
              "classification (which object each write targets, which object each step returns, resulting columns and "
              "rows) is compared with the real executor on every run.")
LEVEL_NOTE = ("Trusted: Lean kernel; axioms propext/Classical.choice/Quot.sound; the hand-written ownership model of "
              "pandas_base.py (validated by suite `own` on every run); pandas copy-on-write semantics (a new object never "
              "shares writes with its origin) — sampled by the snapshot oracle, as are Polars inputs and cross-process "
              "repeatability.")
RULE = ("random type-directed pipelines (pipes.gen_case, incl. convert_records, joins/concats re-using sub-pipelines) on "
        "random small tables (empty tables, nulls, all-null columns), evaluated through eval / transform / act_on / >> / "
        "ex on pandas frames with default and non-default indexes (shifted, reversed, string, duplicated, named, "
        "MultiIndex) and, with a tenth of the cases, a re-typed data column so that steps raise half way; thorough adds "
        "every pipeline of <= 3 steps over a 16-step alphabet on a populated table (<= 2 steps on an empty and a one-row table); non-trivial = the "
        "executor ran at least two steps")


INDEX_KINDS = [None, None, None, "shift", "rev", "str", "dup", "named", "multi", "float"]
ENTRIES_ONE = ["eval", "eval", "eval", "transform", "act_on", "rshift", "ex"]
ENTRIES_MANY = ["eval", "eval", "eval", "ex"]


# ------------------------------------------------------------------------------------------------
# inputs
# ------------------------------------------------------------------------------------------------

def apply_index(df, kind):
    """the same data under a non-default index"""
    pd = P.L.pd
    n = df.shape[0]
    if kind is None:
        return df
    df = df.copy()
    if kind == "shift":
        df.index = pd.Index(range(5, 5 + n))
    elif kind == "rev":
        df.index = pd.Index(list(range(n - 1, -1, -1)))
    elif kind == "str":
        df.index = pd.Index(["r%d" % (i * 7 % 11) for i in range(n)], dtype=object)
    elif kind == "dup":
        df.index = pd.Index([i // 2 for i in range(n)])
    elif kind == "named":
        df.index = pd.RangeIndex(start=0, stop=n, name="idx")
    elif kind == "multi":
        df.index = pd.MultiIndex.from_arrays([[i % 2 for i in range(n)], list(range(n))], names=["a", None])
    elif kind == "float":
        df.index = pd.Index([i + 0.5 for i in range(n)])
    return df


def retype_tables(tables, spec):
    """replace the cells of one column by strings (the data no longer has the kind the pipeline was written for)"""
    if not spec:
        return tables
    t = copy.deepcopy(tables)
    tab = t.get(spec["table"])
    if tab and spec["col"] in tab["cols"]:
        j = tab["cols"].index(spec["col"])
        tab["kinds"][j] = "str"
        for i, r in enumerate(tab["rows"]):
            r[j] = {"s": "v%d" % i}
    return t


def make_frames(case):
    frames = P.tables_to_pandas(retype_tables(case["tables"], case.get("retype")))
    ix = case.get("index") or {}
    return {k: apply_index(d, ix.get(k)) for k, d in frames.items()}


def build_ops(case, frames=None, with_heads=False):
    """the real pipeline; with_heads: table descriptions that carry the frames (for ex())"""
    with warnings.catch_warnings():
        warnings.simplefilter("ignore")
        b = P.Builder(case["tables"])
        if with_heads:
            import data_algebra.data_ops as dops
            b.table_objs = {k: dops.describe_table(d, table_name=k, keep_all=True) for k, d in frames.items()}
        return b.pipe(case["pipe"])


def _cell(v):
    if v is None:
        return ["none"]
    if isinstance(v, float):
        if math.isnan(v):
            return ["nan"]
        return ["f", repr(v)]
    try:
        import pandas as pd
        if v is pd.NA:
            return ["NA"]
        if v is pd.NaT:
            return ["NaT"]
    except Exception:
        pass
    it = getattr(v, "item", None)
    if callable(it):
        try:
            v = it()
            return _cell(v)
        except Exception:
            pass
    return [type(v).__name__, repr(v)]


def deep_snapshot(d):
    """everything the property names: values (NaN / None positions kept apart), dtypes, columns, index values, index
    names and type"""
    return {
        "cols": [repr(c) for c in d.columns],
        "dtypes": [str(t) for t in d.dtypes],
        "index": [_cell(v) if not isinstance(v, tuple) else [_cell(x) for x in v] for v in d.index.tolist()],
        "index_names": [repr(n) for n in d.index.names],
        "index_type": type(d.index).__name__ + ":" + str(getattr(d.index, "dtype", "")),
        "cells": [[_cell(v) for v in d.iloc[:, j].tolist()] for j in range(d.shape[1])],
        "attrs": repr(d.attrs),
    }


def snap_all(frames):
    return {k: (id(d), deep_snapshot(d)) for k, d in frames.items()}


def snap_diff(before, frames, data_map=None):
    for k, (i, s) in before.items():
        d = frames[k]
        if data_map is not None and data_map.get(k) is not d:
            return f"data_map[{k!r}] was rebound"
        if id(d) != i:
            return f"table {k}: object replaced"
        s2 = deep_snapshot(d)
        for part in ("cols", "dtypes", "index_names", "index_type", "index", "cells", "attrs"):
            if s[part] != s2[part]:
                return f"table {k}: {part} changed: {json.dumps(s[part])[:120]} -> {json.dumps(s2[part])[:120]}"
    if data_map is not None and list(data_map.keys()) != list(before.keys()):
        return "data_map keys changed"
    return None


def run_entry(entry, ops, frames, case=None):
    """one public entry point on pandas inputs"""
    if entry == "eval":
        return ops.eval(frames)
    only = list(frames.values())[0]
    if entry == "transform":
        return ops.transform(only)
    if entry == "act_on":
        return ops.act_on(only)
    if entry == "rshift":
        return only >> ops
    if entry == "ex":
        import data_algebra.data_ops as dops
        return dops.ex(ops)
    raise ValueError(entry)


def mutate_result(res):
    """write to the returned frame in every in-place way pandas offers; errors are irrelevant"""
    import numpy as np
    acts = []
    cols = list(res.columns)

    def t(f):
        try:
            with warnings.catch_warnings():
                warnings.simplefilter("ignore")
                f()
        except Exception:
            pass
    if cols and res.shape[0] > 0:
        t(lambda: res.iloc[0:1, 0:1].__setitem__((slice(None), slice(None)), None))
        t(lambda: res.__setitem__(cols[0], res[cols[0]].iloc[::-1].values))
        t(lambda: res.loc.__setitem__((res.index[0], cols[-1]), None))
        t(lambda: res.iat.__setitem__((0, 0), None))
        for c in cols:
            def w(c=c):
                a = res[c].values  # read-only under copy-on-write: the assignment raises, which is fine
                a[...] = a[::-1].copy()
            t(w)

            def w2(c=c):
                a = res[c].to_numpy(copy=False)
                a[0] = a[-1]
            t(w2)
    t(lambda: res.__setitem__("c19_new_col", 1))
    t(lambda: res.sort_values(by=cols[:1], ascending=False, inplace=True) if cols else None)
    t(lambda: res.reset_index(drop=False, inplace=True))
    t(lambda: res.rename(columns={c: str(c) + "_x" for c in cols}, inplace=True))
    t(lambda: res.fillna(0, inplace=True))
    t(lambda: res.drop(columns=list(res.columns)[:1], inplace=True))
    return acts


# ------------------------------------------------------------------------------------------------
# suite `own`: the model's per-step classification vs the traced real executor
# ------------------------------------------------------------------------------------------------

_RUNS = {}


def traced_run(case):
    """build, run the chosen entry point under a Trace; everything the suite and its oracle need (cached per case)"""
    key = canon_json({k: case.get(k) for k in ("tables", "pipe", "index", "entry", "retype")})
    if key in _RUNS:
        return _RUNS[key]
    out = {"build_err": None}
    entry = case.get("entry") or "eval"
    with warnings.catch_warnings():
        warnings.simplefilter("ignore")
        frames = make_frames(case)
        try:
            ops = build_ops(case, frames, with_heads=(entry == "ex"))
        except Exception as e:
            out["build_err"] = type(e).__name__
            _RUNS[key] = out
            return out
        before = snap_all(frames)
        data_map = dict(frames)
        res = None
        pre = None
        with T.Trace(frames.values()) as tr:
            try:
                res = run_entry(entry, ops, data_map if entry == "eval" else frames)
            except Exception as e:
                pre = type(e).__name__
        out["diff_after_run"] = snap_diff(before, frames, data_map if entry == "eval" else None)
        out["raised"] = pre
        out["pre_error"] = pre if (pre is not None and tr.failed is None and not tr.done) else None
        out["observed"] = T.observed(tr, pre if tr.failed is None else None)
        try:
            head_ids = {k: i for i, k in enumerate(frames.keys())} if entry == "ex" else None
            out["model_case"] = T.model_case(tr, ops, frames, "act_on" if entry == "rshift" else entry, head_ids)
        except Exception as e:
            out["model_case"] = None
            out["model_case_err"] = type(e).__name__ + ": " + str(e)[:100]
        # ownership facts straight from the trace (no model involved)
        own = {"writes": len(tr.all_writes), "input_writes": [], "foreign_writes": [], "stray": out["observed"]["stray"],
               "result_is_input": res is not None and id(res) in tr.input_ids,
               "result_created_in_run": res is None or id(res) in tr.created,
               "steps": len(tr.done)}
        for tag, obj, col in tr.all_writes:
            if id(obj) in tr.input_ids:
                own["input_writes"].append([tag, col])
            elif id(obj) not in tr.created:
                own["foreign_writes"].append([tag, col])
        out["own"] = own
        # the returned frame is the caller's to mutate: doing so must not reach the inputs
        out["diff_after_result_mutation"] = None
        if res is not None:
            try:
                mutate_result(res)
            except Exception:
                pass
            out["diff_after_result_mutation"] = snap_diff(before, frames)
    if len(_RUNS) > 4000:
        _RUNS.clear()
    _RUNS[key] = out
    return out


def _canon_nodes(o, sorted_cols=False, err_cols=True):
    def node(n):
        c = sorted(n["cols"]) if sorted_cols else list(n["cols"])
        return {"ret": n["ret"], "cols": c, "rows": n["rows"], "writes": sorted(n["writes"])}
    err = None
    if o.get("err"):
        ws = o["err"]["writes"]
        err = {"cls": o["err"]["cls"], "writes": sorted(ws if err_cols else [[w[0], w[1]] for w in ws])}
    return {"nodes": [node(n) for n in o["nodes"]], "err": err}


def decorate(rng, case, tier):
    """choose entry point, indexes and (sometimes) a re-typed data column for a generated case"""
    names = sorted(case["tables"])
    one = len(names) == 1
    c = {"tables": case["tables"], "pipe": case["pipe"], "meta": case.get("meta", {})}
    c["entry"] = rng.choice(ENTRIES_ONE if one else ENTRIES_MANY)
    c["index"] = {k: rng.choice(INDEX_KINDS) for k in names}
    c["retype"] = None
    if rng.random() < 0.1:
        k = rng.choice(names)
        t = case["tables"][k]
        nums = [col for col, kind in zip(t["cols"], t["kinds"]) if kind in ("int", "float")]
        if nums and t["rows"]:
            c["retype"] = {"table": k, "col": rng.choice(nums)}
    return c


ALPHABET = [
    {"call": "extend", "ops": [["y", "x + 1"]], "partition_by": None, "order_by": None, "reverse": None},
    {"call": "extend", "ops": [["x", "x * 2"], ["y", "1"], ["z", "x - 1"]], "partition_by": None, "order_by": None,
     "reverse": None},
    {"call": "extend", "ops": [["w", "x.sum()"], ["c", "(1).sum()"]], "partition_by": ["g"], "order_by": None,
     "reverse": None},
    {"call": "extend", "ops": [["r", "_row_number()"]], "partition_by": ["g"], "order_by": ["x"], "reverse": None},
    {"call": "project", "ops": [["s", "x.sum()"], ["n", "(1).sum()"]], "group_by": ["g"]},
    {"call": "project", "ops": [["s", "x.max()"]], "group_by": []},
    {"call": "select_rows", "expr": "x > 1"},
    {"call": "select_rows", "expr": "x > 100"},
    {"call": "select_columns", "cols": ["x"]},
    {"call": "drop_columns", "cols": ["g"]},
    {"call": "rename_columns", "map": [["x2", "x"]]},
    {"call": "order_rows", "cols": ["x"], "reverse": ["x"], "limit": 1},
    {"call": "order_rows", "cols": ["x"], "reverse": None, "limit": None},
]
ALPHABET_BIN = [
    lambda: {"call": "concat_rows", "b": {"table": "d", "steps": []}, "id_column": "src", "a_name": "a", "b_name": "b"},
    lambda: {"call": "natural_join", "b": {"table": "d", "steps": [{"call": "rename_columns", "map": [["x3", "x"]]}]},
             "on": ["g"], "jointype": "left", "check": False},
    lambda: {"call": "natural_join", "b": {"table": "d", "steps": []}, "on": [], "jointype": "cross", "check": False},
]

def small_tables():
    full = {"cols": ["g", "x"], "kinds": ["str", "int"],
            "rows": [[{"s": "a"}, {"i": 1}], [{"s": "b"}, {"i": 2}], [{"s": "a"}, {"i": 3}]]}
    empty = {"cols": ["g", "x"], "kinds": ["str", "int"], "rows": []}
    one = {"cols": ["g", "x"], "kinds": ["str", "int"], "rows": [[{"s": "a"}, {"i": 5}]]}
    return [full, empty, one]


def enumerated_cases():
    """every pipeline of <= 3 steps over the alphabet (ill-formed ones fail at build time and are skipped)"""
    import itertools
    alpha = list(ALPHABET) + [f() for f in ALPHABET_BIN]
    for tab_i, tab in enumerate(small_tables()):
        for ln in (1, 2, 3):
            if ln == 3 and tab_i != 0:
                continue
            for seq in itertools.product(range(len(alpha)), repeat=ln):
                yield {"tables": {"d": tab}, "pipe": {"table": "d", "steps": [copy.deepcopy(alpha[i]) for i in seq]},
                       "meta": {"enumerated": True}, "entry": ["eval", "transform", "rshift", "ex"][sum(seq) % 4],
                       "index": {"d": INDEX_KINDS[(sum(seq) * 7 + ln) % len(INDEX_KINDS)]}, "retype": None}


class OwnSuite(Suite):
    """correspondence: driver suite `own` vs the traced executor"""
    name = "own"
    n_quick, n_thorough = 240, 2000
    gen_opts = dict(fault_rate=0.0, convert_records=1.0, empty_tables=0.15)

    def __init__(self, **opts):
        self.opts = dict(self.gen_opts, **opts)
        self.distribution = {}
        self.skipped = {}

    def _count(self, k, n=1):
        self.distribution[k] = self.distribution.get(k, 0) + n

    def gen(self, rng, tier):
        n = self.n_quick if tier == "quick" else self.n_thorough
        for _ in range(n):
            case = P.gen_case(random.Random(rng.getrandbits(64)), tier, **self.opts)
            c = decorate(rng, case, tier)
            for call in case["meta"].get("calls", []):
                self._count("step:" + call)
            self._count("entry:" + c["entry"])
            for v in c["index"].values():
                self._count("index:" + str(v))
            if c["retype"]:
                self._count("retyped_column")
            yield c
        if tier == "thorough":
            for c in enumerated_cases():
                self._count("enumerated")
                yield c

    def corpus(self):
        return corpus_cases()

    def real(self, case):
        r = traced_run(case)
        if r.get("build_err"):
            return {"build_err": r["build_err"]}
        o = r["observed"]
        for nd in o["nodes"]:
            self._count("ret:" + nd["ret"])
            for w in nd["writes"]:
                self._count("write:%s->%s" % (w[0], w[1]))
        if o.get("err"):
            self._count("raised:" + str(o["err"]["cls"]))
        return {"observed": o, "pre_error": r.get("pre_error"), "own": r["own"], "unmodelled": r.get("model_case_err")}

    def driver_case(self, case):
        r = traced_run(case)
        mc = r.get("model_case")
        if r.get("build_err") or mc is None:
            return {"heap": [], "dm": [], "entry": "eval", "pipe": {"k": "table", "name": "none", "cols": [], "head": None}}
        return mc

    def agree(self, real_c, model_c):
        if "build_err" in real_c or real_c.get("pre_error") or real_c.get("unmodelled"):
            k = "build_err" if "build_err" in real_c else ("pre_error" if real_c.get("pre_error") else "unmodelled")
            self.skipped[k] = self.skipped.get(k, 0) + 1
            self.distribution["not_compared:" + k] = self.skipped[k]
            return True
        if not isinstance(model_c, dict) or "nodes" not in model_c:
            return False
        if model_c.get("input_writes") or not model_c.get("inputs_unchanged", True) or not model_c.get("result_fresh", True):
            return False
        # the column a raising join loop was working on depends on set iteration order: compared without it
        a = _canon_nodes(real_c["observed"], err_cols=False)
        b = _canon_nodes(model_c, err_cols=False)
        return canon_json(a) == canon_json(b)

    def nontrivial(self, case, real_out):
        return isinstance(real_out, dict) and "observed" in real_out and len(real_out["observed"]["nodes"]) >= 2

    shrink_budget = 150  # candidates per run of the check: the framework shrinks every failing case

    def shrink(self, case):
        def cands():
            if case.get("retype"):
                yield dict(case, retype=None)
            if any(v for v in (case.get("index") or {}).values()):
                yield dict(case, index={})
            if case.get("entry") not in (None, "eval"):
                yield dict(case, entry="eval")
            for c in P.shrink_case(case):
                yield dict(case, tables=c["tables"], pipe=c["pipe"])
        for c in cands():
            if self.shrink_budget <= 0:
                return
            self.shrink_budget -= 1
            yield c


def oracle_own(case, **opts):
    """the property on the traced run, without the model: no write reaches a caller's frame or a frame that was not
    created during the run; the result is a new object; the inputs are deeply unchanged after the run and after the
    result has been mutated in place"""
    r = traced_run(case)
    fails = []
    if r.get("build_err"):
        return fails
    entry = case.get("entry") or "eval"
    own = r["own"]
    if own["input_writes"]:
        fails.append(oracles.fail("C19:write-to-input-frame", f"{entry}: in-place {own['input_writes'][:4]} on a caller's frame"))
    if own["foreign_writes"]:
        fails.append(oracles.fail("C19:write-to-foreign-frame",
                                  f"{entry}: in-place {own['foreign_writes'][:4]} on a frame not created during the run"))
    if own["result_is_input"]:
        fails.append(oracles.fail("C19:result-is-input-frame", f"{entry} returned one of the caller's frame objects"))
    if r.get("diff_after_run"):
        fails.append(oracles.fail(f"C19:pandas-{entry}-modified-input", r["diff_after_run"]))
    elif r.get("diff_after_result_mutation"):
        fails.append(oracles.fail("C19:result-aliases-input", f"{entry}: writing to the returned frame changed an input: "
                                  + r["diff_after_result_mutation"]))
    return fails


# ------------------------------------------------------------------------------------------------
# suite `snapshots`: the oracle of DESIGN §6 on the real code only (all entry points, indexes, Polars, twice, 2nd process)
# ------------------------------------------------------------------------------------------------

def _polars_snapshot(pf):
    out = {}
    for k, d in pf.items():
        lazy = not hasattr(d, "rows")
        e = d.collect() if lazy else d
        out[k] = (id(d), dict(e.schema), e.clone(), d.explain() if lazy else None)
    return out


def _polars_diff(before, pf):
    for k, (i, schema, clone, plan) in before.items():
        d = pf[k]
        if id(d) != i:
            return f"table {k}: object replaced"
        lazy = not hasattr(d, "rows")
        e = d.collect() if lazy else d
        if dict(e.schema) != schema:
            return f"table {k}: schema {schema} -> {dict(e.schema)}"
        if list(e.columns) != list(clone.columns):
            return f"table {k}: columns changed"
        if not e.equals(clone, null_equal=True):
            return f"table {k}: values changed"
        if lazy and d.explain() != plan:
            return f"table {k}: lazy plan changed"
    return None


def _mutate_polars(res):
    import polars as pl
    for f in (lambda: res.__setitem__((0, res.columns[0]), None),
              lambda: res.insert_column(0, pl.Series("c19_new", [1] * res.height)),
              lambda: res.extend(res.clone()),
              lambda: res.replace_column(0, pl.Series(res.columns[0], [None] * res.height)),
              lambda: res.drop_in_place(res.columns[-1])):
        try:
            f()
        except BaseException as e:
            if isinstance(e, (KeyboardInterrupt, SystemExit)):
                raise


def eval_table(case):
    """canonical result of ops.eval on default-index pandas frames ({"ok": Table} | {"err": class})"""
    with warnings.catch_warnings():
        warnings.simplefilter("ignore")
        try:
            ops = build_ops(case)
        except Exception as e:
            return {"build_err": type(e).__name__}
        frames = P.tables_to_pandas(retype_tables(case["tables"], case.get("retype")))
        try:
            return {"ok": P.frame_to_table(ops.eval(frames))}
        except Exception as e:
            return {"err": type(e).__name__}


_WORKERS = {}


def _worker(hashseed):
    """a long-lived interpreter started with PYTHONHASHSEED=hashseed (one per seed and check run)"""
    w = _WORKERS.get(hashseed)
    if w is None or w.poll() is not None:
        env = dict(os.environ, PYTHONHASHSEED=str(hashseed))
        w = subprocess.Popen([sys.executable, "-W", "ignore", "-m", "harness.props.c19_xproc"], stdin=subprocess.PIPE,
                             stdout=subprocess.PIPE, stderr=subprocess.DEVNULL, cwd=VERIF, env=env)
        _WORKERS[hashseed] = w
    return w


def _stop_workers():
    for w in _WORKERS.values():
        try:
            w.stdin.close()
            w.terminate()
        except Exception:
            pass


import atexit
atexit.register(_stop_workers)


def xproc_eval(cases, hashseeds):
    """evaluate the cases in second processes started with other PYTHONHASHSEEDs (one long-lived interpreter per seed,
    asked concurrently); returns, per case, the list of outcomes (one per seed)"""
    payload = (json.dumps([{k: c.get(k) for k in ("tables", "pipe", "retype")} for c in cases]) + "\n").encode()
    ws = [_worker(hs) for hs in hashseeds]
    for w in ws:
        try:
            w.stdin.write(payload)
            w.stdin.flush()
        except Exception as e:
            raise Infra("second process is gone: " + type(e).__name__)
    per_seed = []
    for w in ws:
        line = w.stdout.readline()
        if not line:
            raise Infra("second-process evaluation failed (no answer)")
        per_seed.append(json.loads(line.decode("utf-8")))
    return [[per_seed[k][i] for k in range(len(hashseeds))] for i in range(len(cases))]


def alt_hashseeds(n=2):
    try:
        cur = int(os.environ.get("PYTHONHASHSEED", "0"))
    except ValueError:
        cur = 0
    return [cur + 1 + k for k in range(n)]


def _final_is_order(case):
    ms = P.main_steps(case["pipe"])
    return bool(ms) and ms[-1]["call"] == "order_rows"


class SnapSuite(Suite):
    """no model side: cases for the snapshot / repeatability oracle"""
    corr = False
    name = "snapshots"
    n_quick, n_thorough = 80, 700
    xproc_every = 3
    gen_opts = dict(fault_rate=0.0, convert_records=1.0, empty_tables=0.15)

    def __init__(self, **opts):
        self.opts = dict(self.gen_opts, **opts)
        self.distribution = {}
        self.xproc_cases = []
        self.xproc_results = None

    def gen(self, rng, tier):
        n = self.n_quick if tier == "quick" else self.n_thorough
        self.xproc_cases = []
        for i in range(n):
            case = P.gen_case(random.Random(rng.getrandbits(64)), tier, **self.opts)
            c = decorate(rng, case, tier)
            c["entry"] = "all"
            c["xproc"] = (i % self.xproc_every == 0)
            for call in case["meta"].get("calls", []):
                self.distribution["step:" + call] = self.distribution.get("step:" + call, 0) + 1
            if c["xproc"]:
                self.xproc_cases.append(c)
                self.distribution["second_process_cases"] = self.distribution.get("second_process_cases", 0) + 1
            yield c

    def corpus(self):
        cs = [dict(c, entry="all", xproc=True) for c in corpus_cases()]
        return cs

    def real(self, case):
        return eval_table(case)

    def nontrivial(self, case, real_out):
        return isinstance(real_out, dict) and "ok" in real_out and len(real_out["ok"]["rows"]) > 0

    shrink_budget = 24

    def shrink(self, case):
        def cands():
            if case.get("retype"):
                yield dict(case, retype=None)
            if any(v for v in (case.get("index") or {}).values()):
                yield dict(case, index={})
            for c in P.shrink_case(case):
                yield dict(case, tables=c["tables"], pipe=c["pipe"])
        for c in cands():
            if self.shrink_budget <= 0:
                return
            self.shrink_budget -= 1
            yield c

    # second processes, batched: one interpreter per alternative hash seed for all sampled cases of the run
    def other_process(self, case):
        key = canon_json({k: case.get(k) for k in ("tables", "pipe", "retype")})
        if self.xproc_results is None:
            self.xproc_results = {}
            batch = list(self.xproc_cases) + [c for c in self.corpus()]
            if batch:
                outs = xproc_eval(batch, alt_hashseeds(2))
                for c, o in zip(batch, outs):
                    self.xproc_results[canon_json({k: c.get(k) for k in ("tables", "pipe", "retype")})] = o
        if key not in self.xproc_results:
            self.xproc_results[key] = xproc_eval([case], alt_hashseeds(2))[0]
        return self.xproc_results[key]


def oracle_snapshots(case, **opts):
    suite = _HOLDER.get("snap")
    fails = []
    with warnings.catch_warnings():
        warnings.simplefilter("ignore")
        try:
            ops = build_ops(case)
        except Exception:
            return fails
        # 1. the shared oracle: eval / transform / >> / ex / twice on default-index pandas frames
        default_index = not any(v for v in (case.get("index") or {}).values())
        if default_index and not case.get("retype"):
            fails += oracles.oracle_C19(dict(case), polars=False)
        # 2. every entry point on the case's non-default indexes (default indexes: stage 1 did that; only eval twice and
        #    act_on, which stage 1 does not call), deep snapshots
        one = len(case["tables"]) == 1 and len(ops.get_tables()) == 1
        if default_index and not case.get("retype"):
            entries = ["eval"] + (["act_on"] if one else [])
        else:
            entries = ["eval"] + (["transform", "act_on", "rshift"] if one else []) + ["ex"]
        results = {}
        for entry in entries:
            frames = make_frames(case)
            try:
                o = build_ops(case, frames, with_heads=(entry == "ex"))
            except Exception:
                continue
            before = snap_all(frames)
            data_map = dict(frames)
            try:
                res = run_entry(entry, o, data_map if entry == "eval" else frames)
                results[entry] = P.frame_to_table(res)
                if any(res is d for d in frames.values()):
                    fails.append(oracles.fail("C19:result-is-input-frame", f"{entry} returned a caller's frame object"))
            except Exception:
                res = None
            d = snap_diff(before, frames, data_map if entry == "eval" else None)
            if d:
                fails.append(oracles.fail(f"C19:pandas-{entry}-modified-input", d))
                continue
            if entry == "eval" and res is not None:
                # repeatable: the same call again, same inputs
                try:
                    again = P.frame_to_table(o.eval(data_map))
                    dd = P.same_table(results[entry], again, ordered=True, col_order=True)
                    if dd:
                        fails.append(oracles.fail("C19:pandas-not-repeatable", dd))
                except Exception as e:
                    fails.append(oracles.fail("C19:pandas-not-repeatable", "second evaluation raised " + type(e).__name__))
                d = snap_diff(before, frames, data_map)
                if d:
                    fails.append(oracles.fail("C19:pandas-eval-modified-input", "second evaluation: " + d))
        base = results.get("eval")
        for entry, t in results.items():
            if base is not None and entry != "eval":
                dd = P.same_table(base, t, ordered=True, col_order=True)
                if dd:
                    fails.append(oracles.fail(f"C19:{entry}-differs-from-eval", dd))
        if fails:
            return fails  # (a failing case is shrunk by re-running this oracle many times: stop at the first stage that fails)
        # 3. Polars eager and lazy: a raise is fine, a mutation is not
        if not case.get("retype"):
            for lazy in (False, True):
                try:
                    pf = P.tables_to_polars(case["tables"], lazy=lazy)
                    before = _polars_snapshot(pf)
                except BaseException as e:
                    if isinstance(e, (KeyboardInterrupt, SystemExit)):
                        raise
                    continue
                res = None
                try:
                    res = ops.eval(pf)
                except BaseException as e:
                    if isinstance(e, (KeyboardInterrupt, SystemExit)):
                        raise
                d = _polars_diff(before, pf)
                if d:
                    fails.append(oracles.fail("C19:polars-eval-modified-input", ("lazy: " if lazy else "eager: ") + d))
                    continue
                if res is not None:
                    if any(res is d0 for d0 in pf.values()):
                        fails.append(oracles.fail("C19:result-is-input-frame", "Polars eval returned a caller's frame object"))
                    try:
                        r1 = P.frame_to_table(res)
                        r2 = P.frame_to_table(ops.eval(pf))
                        # Polars does not fix the row order of group_by / join results: rows as a multiset
                        dd = P.same_table(r1, r2, ordered=False, col_order=True)
                        if dd:
                            fails.append(oracles.fail("C19:polars-not-repeatable", dd))
                    except BaseException as e:
                        if isinstance(e, (KeyboardInterrupt, SystemExit)):
                            raise
                    _mutate_polars(res)
                    d = _polars_diff(before, pf)
                    if d:
                        fails.append(oracles.fail("C19:result-aliases-input", "Polars: " + d))
        if fails:
            return fails
        # 4. a second process with another PYTHONHASHSEED
        if case.get("xproc"):
            here = eval_table(case)
            others = suite.other_process(case) if suite is not None else xproc_eval([case], alt_hashseeds(2))[0]
            for there in others:
                if "ok" in here and "ok" in there:
                    dd = P.same_table(here["ok"], there["ok"], ordered=_final_is_order(case), col_order=True)
                    if dd:
                        fails.append(oracles.fail("C19:differs-across-hash-seeds", dd))
                        break
                elif ("ok" in here) != ("ok" in there):
                    fails.append(oracles.fail("C19:differs-across-hash-seeds", f"{list(here)[0]} here, {list(there)[0]} in the "
                                              "second process"))
                    break
    return fails


def corpus_cases():
    d = os.path.join(VERIF, "corpus", "C19")
    out = []
    if os.path.isdir(d):
        for f in sorted(os.listdir(d)):
            if f.endswith(".json"):
                o = json.load(open(os.path.join(d, f)))
                out.append(o["case"] if "case" in o else o)
    return out


_HOLDER = {}
_OWN = with_oracle(OwnSuite, oracle_own)
_SNAP = with_oracle(SnapSuite, oracle_snapshots)
_HOLDER["snap"] = _SNAP

SUITES = [_OWN, _SNAP]
